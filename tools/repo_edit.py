#!/usr/bin/env python3
"""Exact-string edit of a /repo file that preserves BOM and CRLF line endings.
usage: repo_edit.py FILE OLDFILE NEWFILE   (old/new text read from files, LF endings)"""
import sys
def edit(path, old, new, count=1):
    raw = open(path, 'rb').read()
    bom = raw.startswith(b'\xef\xbb\xbf')
    txt = raw.decode('utf-8-sig')
    crlf = '\r\n' in txt
    txt = txt.replace('\r\n', '\n')
    if txt.count(old) != count:
        raise SystemExit(f"{path}: expected {count} occurrence(s) of old text, found {txt.count(old)}")
    txt = txt.replace(old, new)
    if crlf:
        txt = txt.replace('\n', '\r\n')
    data = txt.encode('utf-8')
    if bom:
        data = b'\xef\xbb\xbf' + data
    open(path, 'wb').write(data)
if __name__ == '__main__':
    edit(sys.argv[1], open(sys.argv[2]).read(), open(sys.argv[3]).read())
