#!/venv/bin/python
"""Confirm a candidate mutation produced by a sub-agent and file it under /verif/seeded.

usage: confirm_seed.py PROP SRC_DIR NAME
  SRC_DIR holds patch.diff, demo.py, notes.md (e.g. /tmp/wt_out/C12/m1)
Steps (all in a scratch worktree of /repo HEAD under /tmp, removed afterwards):
  1. demo.py on the unmodified tree must PASS (exit 0)
  2. patch applies (git apply, falling back to --3way)
  3. the 82-test suite passes with the patch
  4. demo.py on the patched tree must FAIL (exit != 0)
  5. the patch, re-diffed against HEAD, is stored with meta.json
"""
import json
import os
import shutil
import subprocess
import sys
import tempfile

prop, src, name = sys.argv[1:4]
out = f"/verif/seeded/{name}"
wt = tempfile.mkdtemp(prefix="nslseed-", dir="/tmp")
os.rmdir(wt)


def sh(cmd, cwd=None, timeout=600):
    return subprocess.run(cmd, shell=True, cwd=cwd, capture_output=True, text=True, timeout=timeout)


def fail(msg):
    print(f"REJECTED {name}: {msg}")
    sh(f"git -C /repo worktree remove --force {wt}")
    sys.exit(1)


r = sh(f"git -C /repo worktree add -q --detach {wt} HEAD")
if r.returncode:
    print(r.stderr)
    sys.exit(2)
try:
    shutil.copy(os.path.join(src, "demo.py"), os.path.join(wt, "demo.py"))
    r0 = sh("/venv/bin/python demo.py", cwd=wt)
    if r0.returncode != 0:
        fail(f"demo fails on the unmodified tree (rc {r0.returncode}): {(r0.stdout + r0.stderr)[-300:]}")
    r = sh(f"git apply --whitespace=nowarn {src}/patch.diff", cwd=wt)
    if r.returncode:
        r = sh(f"git apply --3way --whitespace=nowarn {src}/patch.diff", cwd=wt)
        if r.returncode:
            fail("patch does not apply to current HEAD: " + r.stderr[-300:])
    t = sh("/venv/bin/python -m pytest -q -p no:cacheprovider -x 2>&1 | tail -3", cwd=wt)
    if " passed" not in t.stdout or "failed" in t.stdout or "error" in t.stdout.lower():
        fail("test-suite does not pass with the patch: " + t.stdout[-300:])
    npass = t.stdout.strip().splitlines()[-1]
    r1 = sh("/venv/bin/python demo.py", cwd=wt)
    if r1.returncode == 0:
        fail("demo passes on the patched tree")
    os.makedirs(out, exist_ok=True)
    sh("git reset -q", cwd=wt)
    sh("rm -f demo.py", cwd=wt)
    # files the change adds are part of it (intent-to-add makes `git diff` show them)
    sh("git add -N -- nsl nslc.py nslr.py", cwd=wt)
    # bytes-exact (the sources are CRLF; text-mode capture would strip the CRs)
    sh(f"git diff -- nsl nslc.py nslr.py > {out}/patch.diff", cwd=wt)
    d = sh("git diff --stat -- nsl nslc.py nslr.py", cwd=wt)
    shutil.copy(os.path.join(src, "demo.py"), os.path.join(out, "demo.py"))
    notes = open(os.path.join(src, "notes.md")).read() if os.path.exists(os.path.join(src, "notes.md")) else ""
    open(os.path.join(out, "notes.md"), "w").write(notes)
    files = sorted(l.split("|")[0].strip() for l in d.stdout.splitlines() if "|" in l)
    meta = {
        "id": name,
        "kind": "mutation",
        "property": prop,
        "origin": "independent sub-agent given only the property text and a scratch worktree",
        "files": files,
        "needs_to_manifest": notes.strip()[:1500],
        "confirmed": {
            "base_commit": sh("git -C /repo log --format=%h -1").stdout.strip(),
            "tests": npass,
            "demo_clean": "PASS (exit 0)",
            "demo_mutated": f"FAIL (exit {r1.returncode}): " + (r1.stdout + r1.stderr).strip()[-200:],
            "ran": "tools/confirm_seed.py: worktree of /repo HEAD; demo.py clean; git apply patch; pytest (82 tests); demo.py mutated",
        },
        "expected_detected": None,
        "also_detected_by": [],
    }
    json.dump(meta, open(os.path.join(out, "meta.json"), "w"), indent=1)
    print(f"CONFIRMED {name}: tests {npass}; demo clean PASS, mutated rc={r1.returncode}; files {files}")
finally:
    sh(f"git -C /repo worktree remove --force {wt}")
