#!/venv/bin/python
"""File a behaviour-preserving refactoring (twin) under /verif/seeded.
usage: confirm_twin.py SRC_DIR NAME   (SRC_DIR holds patch.diff, notes.md)
Checks: patch applies to /repo HEAD (scratch worktree), 82 tests pass."""
import json
import os
import shutil
import subprocess
import sys
import tempfile

src, name = sys.argv[1:3]
out = f"/verif/seeded/{name}"
wt = tempfile.mkdtemp(prefix="nsltwin-", dir="/tmp")
os.rmdir(wt)


def sh(cmd, cwd=None):
    return subprocess.run(cmd, shell=True, cwd=cwd, capture_output=True, text=True, timeout=600)


sh(f"git -C /repo worktree add -q --detach {wt} HEAD")
try:
    r = sh(f"git apply --whitespace=nowarn {src}/patch.diff", cwd=wt)
    if r.returncode:
        r = sh(f"git apply --3way --whitespace=nowarn {src}/patch.diff", cwd=wt)
        if r.returncode:
            print(f"REJECTED {name}: patch does not apply: {r.stderr[-200:]}")
            sys.exit(1)
    t = sh("/venv/bin/python -m pytest -q -p no:cacheprovider -x 2>&1 | tail -1", cwd=wt)
    if " passed" not in t.stdout or "failed" in t.stdout:
        print(f"REJECTED {name}: tests fail: {t.stdout.strip()}")
        sys.exit(1)
    os.makedirs(out, exist_ok=True)
    sh("git reset -q", cwd=wt)
    sh(f"git diff -- nsl nslc.py nslr.py > {out}/patch.diff", cwd=wt)
    st = sh("git diff --stat -- nsl nslc.py nslr.py", cwd=wt).stdout
    notes = open(os.path.join(src, "notes.md")).read() if os.path.exists(os.path.join(src, "notes.md")) else ""
    open(os.path.join(out, "notes.md"), "w").write(notes)
    meta = {"id": name, "kind": "twin", "silent_for": "all",
            "origin": "independent sub-agent asked for behaviour-preserving refactorings (no knowledge of /verif)",
            "files": sorted(l.split("|")[0].strip() for l in st.splitlines() if "|" in l),
            "what": notes.strip()[:800],
            "confirmed": {"base_commit": sh("git -C /repo log --format=%h -1").stdout.strip(), "tests": t.stdout.strip(),
                          "ran": "tools/confirm_twin.py: worktree of /repo HEAD; git apply; pytest (82 tests); behaviour preservation argued in notes.md and reviewed by reading the diff"}}
    json.dump(meta, open(os.path.join(out, "meta.json"), "w"), indent=1)
    print(f"CONFIRMED {name}: {t.stdout.strip()} {meta['files']}")
finally:
    sh(f"git -C /repo worktree remove --force {wt}")
