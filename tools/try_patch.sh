#!/bin/bash
# usage: try_patch.sh PATCHFILE [-R] PROP...   : apply patch to a scratch copy of /repo HEAD, run the checks with --root, clean up
set -e
patch="$1"; shift
rev=""
if [ "$1" = "-R" ]; then rev="-R"; shift; fi
d=$(mktemp -d /tmp/nslvar.XXXXXX)
git -C /repo archive HEAD | tar -x -C "$d"
if ! git -C "$d" init -q 2>/dev/null; then :; fi
( cd "$d" && git apply $rev --whitespace=nowarn "$patch" ) || { echo "PATCH-DOES-NOT-APPLY $patch"; rm -rf "$d"; exit 3; }
for p in "$@"; do
  /verif/check "$p" --root "$d" --no-evidence | grep -E "VIOLATION|ANALYSIS-ERROR|rule=|exit [0-9]" | grep -v "^VIOLATION\|^KNOWN-FINDING" | cut -c1-400 | head -${MAXL:-8}
done
rm -rf "$d"
