#!/bin/bash
# usage: twin_one.sh FILE KIND PROP...   : apply one mechanical rewrite (tools/twinsweep.py kinds) to FILE in a scratch copy
# of /repo HEAD and list every violation / analysis error of the given checks on it
set -e
rel="$1"; kind="$2"; shift 2
d=$(mktemp -d /tmp/nslvar.XXXXXX)
git -C /repo archive HEAD | tar -x -C "$d"
/venv/bin/python - "$d" "$rel" "$kind" <<'E'
import sys, ast
d, rel, kind = sys.argv[1:4]
src = open('/verif/tools/twinsweep.py').read().replace("\nmain()\n", "\n")
ns = {}
sys.argv = ['x']
exec(compile(src, 'tw', 'exec'), ns)
raw = open(f"{d}/{rel}", 'rb').read()
bom = raw.startswith(b'\xef\xbb\xbf')
if bom:
    raw = raw[3:]
s = raw.decode('utf-8')
new = ns['KINDS'][kind](s, ast.parse(s))
open(f"{d}/{rel}", 'wb').write((b'\xef\xbb\xbf' if bom else b'') + new.encode('utf-8'))
E
for p in "$@"; do
  /verif/check "$p" --root "$d" --no-evidence | grep -E "rule=|ANALYSIS-ERROR" | grep -v "^KNOWN-FINDING" | cut -c1-${W:-330}
done
rm -rf "$d"
