#!/venv/bin/python
"""Mutation sweep: generate small AST-computed mutants of given functions,
keep those that still pass the 82 tests, and report which of them NO check
flags.  Used to find blind spots of the rules (not a registered check).

usage: mutsweep.py FILE:QUALNAME [FILE:QUALNAME ...] [--props C01,C03] [--max N]
"""
import ast
import os
import shutil
import subprocess
import sys
import tempfile
from concurrent.futures import ProcessPoolExecutor

sys.dont_write_bytecode = True
sys.path.insert(0, "/verif")

FLIP_CMP = {ast.Lt: "<=", ast.LtE: "<", ast.Gt: ">=", ast.GtE: ">", ast.Eq: "!=", ast.NotEq: "==", ast.Is: "is not", ast.IsNot: "is", ast.In: "not in", ast.NotIn: "in"}
CMP_TXT = {ast.Lt: "<", ast.LtE: "<=", ast.Gt: ">", ast.GtE: ">=", ast.Eq: "==", ast.NotEq: "!=", ast.Is: "is", ast.IsNot: "is not", ast.In: "in", ast.NotIn: "not in"}
FLIP_BIN = {ast.Add: "-", ast.Sub: "+", ast.Mult: "/", ast.Div: "*", ast.Mod: "*"}
BIN_TXT = {ast.Add: "+", ast.Sub: "-", ast.Mult: "*", ast.Div: "/", ast.Mod: "%"}


def seg(src_lines, node):
    """(start offset, end offset) of node in the joined source."""
    def off(l, c):
        return sum(len(x) for x in src_lines[: l - 1]) + len(src_lines[l - 1].encode("utf-8")[:c].decode("utf-8"))
    return off(node.lineno, node.col_offset), off(node.end_lineno, node.end_col_offset)


def mutants_of(src, func):
    lines = src.splitlines(keepends=True)
    out = []

    def repl(node, text, desc):
        a, b = seg(lines, node)
        out.append((desc, src[:a] + text + src[b:]))

    for n in ast.walk(func):
        if isinstance(n, ast.Compare) and len(n.ops) == 1 and type(n.ops[0]) in FLIP_CMP:
            l = ast.get_source_segment(src, n.left)
            r = ast.get_source_segment(src, n.comparators[0])
            if l and r:
                repl(n, f"{l} {FLIP_CMP[type(n.ops[0])]} {r}", f"L{n.lineno} cmp {CMP_TXT[type(n.ops[0])]}->{FLIP_CMP[type(n.ops[0])]}: {ast.unparse(n)[:50]}")
                if not isinstance(n.ops[0], (ast.In, ast.NotIn, ast.Is, ast.IsNot)):
                    repl(n, f"{r} {CMP_TXT[type(n.ops[0])]} {l}", f"L{n.lineno} cmp operands swapped: {ast.unparse(n)[:50]}")
        elif isinstance(n, ast.BinOp) and type(n.op) in FLIP_BIN:
            l = ast.get_source_segment(src, n.left)
            r = ast.get_source_segment(src, n.right)
            if l and r and not (isinstance(n.left, ast.Constant) and isinstance(n.left.value, str)):
                repl(n, f"{l} {FLIP_BIN[type(n.op)]} {r}", f"L{n.lineno} binop {BIN_TXT[type(n.op)]}->{FLIP_BIN[type(n.op)]}: {ast.unparse(n)[:50]}")
                if isinstance(n.op, (ast.Sub, ast.Div, ast.Mod)):
                    repl(n, f"{r} {BIN_TXT[type(n.op)]} {l}", f"L{n.lineno} binop operands swapped: {ast.unparse(n)[:50]}")
        elif isinstance(n, ast.BoolOp) and len(n.values) == 2:
            l = ast.get_source_segment(src, n.values[0])
            r = ast.get_source_segment(src, n.values[1])
            if l and r:
                repl(n, f"{l} {'or' if isinstance(n.op, ast.And) else 'and'} {r}", f"L{n.lineno} and<->or: {ast.unparse(n)[:50]}")
                repl(n, l, f"L{n.lineno} drop second conjunct: {ast.unparse(n)[:50]}")
                repl(n, r, f"L{n.lineno} drop first conjunct: {ast.unparse(n)[:50]}")
        elif isinstance(n, ast.Constant) and isinstance(n.value, bool):
            repl(n, str(not n.value), f"L{n.lineno} {n.value}->{not n.value}")
        elif isinstance(n, ast.Constant) and isinstance(n.value, int) and not isinstance(n.value, bool) and -2 <= n.value <= 16:
            repl(n, str(n.value + 1), f"L{n.lineno} const {n.value}->{n.value + 1}")
            if n.value > 0:
                repl(n, str(n.value - 1), f"L{n.lineno} const {n.value}->{n.value - 1}")
        elif isinstance(n, ast.UnaryOp) and isinstance(n.op, ast.Not):
            o = ast.get_source_segment(src, n.operand)
            if o:
                repl(n, o, f"L{n.lineno} drop not: {ast.unparse(n)[:50]}")
        elif isinstance(n, ast.Call) and len(n.args) >= 2 and all(isinstance(a, (ast.Name, ast.Attribute)) for a in n.args[:2]) and not n.keywords:
            a0 = ast.get_source_segment(src, n.args[0])
            a1 = ast.get_source_segment(src, n.args[1])
            if a0 and a1 and a0 != a1:
                s0, e0 = seg(lines, n.args[0])
                s1, e1 = seg(lines, n.args[1])
                out.append((f"L{n.lineno} swap args: {ast.unparse(n)[:60]}", src[:s0] + a1 + src[e0:s1] + a0 + src[e1:]))
        elif isinstance(n, ast.If) and not n.orelse and len(n.body) == 1 and isinstance(n.body[0], (ast.Return, ast.Continue, ast.Raise, ast.Expr)):
            t = ast.get_source_segment(src, n.test)
            if t:
                repl(n.test, "False", f"L{n.lineno} guard disabled: if {ast.unparse(n.test)[:50]}")
    # statement deletion (simple statements that are not the only one in their block)
    for n in ast.walk(func):
        for fld in ("body", "orelse"):
            blk = getattr(n, fld, None)
            if isinstance(blk, list) and len(blk) > 1:
                for st in blk:
                    if isinstance(st, (ast.Expr, ast.Assign, ast.AugAssign)) and not (isinstance(st, ast.Expr) and isinstance(st.value, ast.Constant)):
                        a, b = seg(lines, st)
                        out.append((f"L{st.lineno} delete: {ast.unparse(st)[:60]}", src[:a] + "pass" + src[b:]))
    return out


def run_one(args):
    rel, desc, newsrc, props = args
    from nslsa.driver import run_rules
    from nslsa.model import AnalysisError
    from nslsa import report

    d = tempfile.mkdtemp(prefix="nslmut-")
    try:
        for top in ("nsl", "nslc.py", "nslr.py", "tests", "pyproject.toml", "setup.py"):
            s = os.path.join("/repo", top)
            if os.path.isdir(s):
                shutil.copytree(s, os.path.join(d, top), ignore=shutil.ignore_patterns("__pycache__", "parser.out"))
            elif os.path.exists(s):
                shutil.copy2(s, os.path.join(d, top))
        raw = open(os.path.join(d, rel), "rb").read()
        bom = raw.startswith(b"\xef\xbb\xbf")
        crlf = b"\r\n" in raw
        data = newsrc.replace("\r\n", "\n")
        if crlf:
            data = data.replace("\n", "\r\n")
        data = data.encode("utf-8")
        if bom:
            data = b"\xef\xbb\xbf" + data
        open(os.path.join(d, rel), "wb").write(data)
        try:
            ast.parse(newsrc)
        except SyntaxError:
            return (desc, "syntax", [])
        try:
            t = subprocess.run("timeout 60 /venv/bin/python -m pytest -q -p no:cacheprovider -x 2>&1 | tail -1", shell=True, cwd=d, capture_output=True, text=True, timeout=120)
        except subprocess.TimeoutExpired:
            return (desc, "killed-by-tests", [])
        if " passed" not in t.stdout or "failed" in t.stdout or "error" in t.stdout.lower():
            return (desc, "killed-by-tests", [])
        fired = []
        known = report.load_known()
        for p in props:
            try:
                col, _ = run_rules(p, d, "quick")
                if any(not report.match_known(known, p, o) for o in col.violations):
                    fired.append(p)
            except AnalysisError:
                fired.append(p + "(err)")
            except Exception as e:
                fired.append(p + "(crash)")
        return (desc, "survivor", fired)
    finally:
        shutil.rmtree(d, ignore_errors=True)


def main():
    targets = [a for a in sys.argv[1:] if not a.startswith("--")]
    props = ["C%02d" % i for i in range(1, 21)]
    mx = 400
    for a in sys.argv[1:]:
        if a.startswith("--props="):
            props = a.split("=", 1)[1].split(",")
        if a.startswith("--max="):
            mx = int(a.split("=", 1)[1])
    from nslsa.model import Model

    model = Model("/repo")
    jobs = []
    for t in targets:
        rel, q = t.split(":")
        func = model.func(rel, q)
        src = model.files[rel].src
        ms = mutants_of(src, func)
        seen = set()
        for desc, ns in ms:
            if ns == src or ns in seen:
                continue
            seen.add(ns)
            jobs.append((rel, f"{rel}:{q} {desc}", ns, props))
    jobs = jobs[:mx]
    print(f"{len(jobs)} mutants")
    with ProcessPoolExecutor(max_workers=16) as ex:
        res = list(ex.map(run_one, jobs))
    killed = sum(1 for r in res if r[1] != "survivor")
    surv = [r for r in res if r[1] == "survivor"]
    det = [r for r in surv if any(not f.endswith(")") for f in r[2])]
    print(f"{killed} killed by tests/syntax, {len(surv)} survive the tests, {len(det)} of those flagged by a check")
    for desc, st, fired in surv:
        if not any(not f.endswith(")") for f in fired):
            print("UNDETECTED", desc, fired)


main()
