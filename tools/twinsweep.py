#!/venv/bin/python
"""Equivalence sweep: mechanical, behaviour-preserving rewrites of whole source
files; every check must stay silent on every variant (a variant that makes a
check fire or error is a false alarm of the checker, to be fixed in the rule).

usage: twinsweep.py [FILE ...] [--props=C01,C03] [--kinds=rename,swapeq,invert,temp]
  default files: every nsl/**/*.py that is not a parser table, nslc.py, nslr.py

kinds (each applied to all functions of one file at once -> one variant per (file, kind)):
  rename  every local variable (assigned name that is not a parameter, not global/nonlocal,
          not bound in a nested scope too) gets the suffix `_r`
  swapeq  `a == b` -> `b == a`, `a != b` -> `b != a` when both sides are calls/attributes/names/constants
          without side-effect relevant order (no call on both sides)
  invert  `if c: A else: B` (simple else, no elif) -> `if not (c): B else: A`
  temp    `return <expr>` -> `ret_t = <expr>; return ret_t` for non-trivial expressions outside lambdas/generators
The variant must still pass the 82 tests (otherwise the rewrite itself was wrong: reported as REWRITE-BROKEN)."""
import ast
import os
import shutil
import subprocess
import sys
import tempfile
from concurrent.futures import ProcessPoolExecutor

sys.dont_write_bytecode = True
sys.path.insert(0, "/verif")


def offs(lines):
    acc, out = 0, []
    for l in lines:
        out.append(acc)
        acc += len(l)
    return out


def pos(lines, starts, lineno, col):
    return starts[lineno - 1] + len(lines[lineno - 1].encode("utf-8")[:col].decode("utf-8"))


def apply_edits(src, edits):
    """edits: [(start, end, text)] non-overlapping"""
    out = src
    edits = list({(a, b): (a, b, t) for a, b, t in edits}.values())  # nested functions are walked twice
    for a, b, t in sorted(edits, key=lambda e: -e[0]):
        out = out[:a] + t + out[b:]
    return out


def k_rename(src, tree):
    lines = src.splitlines(keepends=True)
    starts = offs(lines)
    edits = []
    for fn in ast.walk(tree):
        if not isinstance(fn, ast.FunctionDef):
            continue
        inner_fns = [n for n in ast.walk(fn) if isinstance(n, (ast.FunctionDef, ast.Lambda, ast.ClassDef)) and n is not fn]
        if inner_fns:
            continue  # closures: keep it simple and safe
        params = {a.arg for a in fn.args.args + fn.args.kwonlyargs + fn.args.posonlyargs} | ({fn.args.vararg.arg} if fn.args.vararg else set()) | ({fn.args.kwarg.arg} if fn.args.kwarg else set())
        banned = set()
        for n in ast.walk(fn):
            if isinstance(n, (ast.Global, ast.Nonlocal)):
                banned |= set(n.names)
            if isinstance(n, (ast.ListComp, ast.SetComp, ast.DictComp, ast.GeneratorExp)):
                for g in n.generators:
                    banned |= {x.id for x in ast.walk(g.target) if isinstance(x, ast.Name)}
            if isinstance(n, (ast.Import, ast.ImportFrom)):
                banned |= {(a.asname or a.name).split(".")[0] for a in n.names}
            if isinstance(n, ast.ExceptHandler) and n.name:
                banned.add(n.name)
            if isinstance(n, ast.MatchAs) and n.name:
                banned.add(n.name)
            if isinstance(n, ast.MatchStar) and n.name:
                banned.add(n.name)
        stored = {n.id for n in ast.walk(fn) if isinstance(n, ast.Name) and isinstance(n.ctx, ast.Store)}
        locs = stored - params - banned
        for n in ast.walk(fn):
            if isinstance(n, ast.Name) and n.id in locs:
                a = pos(lines, starts, n.lineno, n.col_offset)
                edits.append((a, a + len(n.id), n.id + "_r"))
            # keyword arguments named like a local are not touched (they are ast.keyword, not Name)
    return apply_edits(src, edits) if edits else None


def _simple(e):
    return isinstance(e, (ast.Name, ast.Attribute, ast.Constant)) or (isinstance(e, ast.Call) and not e.keywords and all(_simple(a) for a in e.args) and _simple(e.func)) \
        or (isinstance(e, ast.Subscript) and _simple(e.value) and _simple(e.slice)) or (isinstance(e, ast.Tuple) and all(_simple(x) for x in e.elts))


def k_swapeq(src, tree):
    lines = src.splitlines(keepends=True)
    starts = offs(lines)
    edits = []
    taken = []
    for n in ast.walk(tree):
        if isinstance(n, ast.Compare) and len(n.ops) == 1 and isinstance(n.ops[0], (ast.Eq, ast.NotEq)) and _simple(n.left) and _simple(n.comparators[0]):
            calls = sum(1 for side in (n.left, n.comparators[0]) for x in ast.walk(side) if isinstance(x, ast.Call))
            if calls > 1:
                continue
            # __eq__ of the repository's types is symmetric in class but `a == b` and `b == a` can call different methods: only swap when a side is a constant/enum member
            if not (isinstance(n.comparators[0], (ast.Constant, ast.Attribute, ast.Tuple)) or isinstance(n.left, (ast.Constant,))):
                continue
            a = pos(lines, starts, n.lineno, n.col_offset)
            b = pos(lines, starts, n.end_lineno, n.end_col_offset)
            if any(a < tb and ta < b for ta, tb in taken):
                continue
            l = ast.get_source_segment(src, n.left)
            r = ast.get_source_segment(src, n.comparators[0])
            if l is None or r is None or "\n" in l + r:
                continue
            if isinstance(n.comparators[0], ast.Attribute) and not isinstance(n.left, ast.Constant):
                # x == Enum.MEMBER -> Enum.MEMBER == x (enum equality is identity based: symmetric)
                if not (isinstance(n.comparators[0].value, (ast.Name, ast.Attribute)) and n.comparators[0].attr.isupper()):
                    continue
            elif isinstance(n.comparators[0], ast.Tuple):
                continue
            opt = "==" if isinstance(n.ops[0], ast.Eq) else "!="
            edits.append((a, b, f"{r} {opt} {l}"))
            taken.append((a, b))
    return apply_edits(src, edits) if edits else None


def k_invert(src, tree):
    lines = src.splitlines(keepends=True)
    starts = offs(lines)
    edits = []
    taken = []
    for n in ast.walk(tree):
        if isinstance(n, ast.If) and n.orelse and not (len(n.orelse) == 1 and isinstance(n.orelse[0], ast.If)):
            # find the `else:` line: the line before the first orelse statement that consists of `else:`
            else_line = None
            for ln in range(n.orelse[0].lineno - 1, n.body[-1].end_lineno, -1):
                if lines[ln - 1].strip().startswith("else") and lines[ln - 1].strip().rstrip("\r\n").rstrip().endswith(":"):
                    else_line = ln
                    break
            if else_line is None or n.body[0].lineno == n.lineno or n.orelse[0].lineno == else_line:
                continue
            a = starts[n.lineno - 1]
            b = starts[n.orelse[-1].end_lineno - 1] + len(lines[n.orelse[-1].end_lineno - 1])
            if any(a < tb and ta < b for ta, tb in taken):
                continue
            # nested ifs inside are left alone in this variant (one level per region)
            head = lines[n.lineno - 1]
            indent = head[: len(head) - len(head.lstrip())]
            if not head.lstrip().startswith("if "):
                continue  # elif
            test_src = ast.get_source_segment(src, n.test)
            if test_src is None:
                continue
            test_end_line = n.test.end_lineno
            body_text = "".join(lines[test_end_line: else_line - 1])
            # the header may span several lines (parenthesised condition): body starts at the first body statement's line
            body_text = "".join(lines[n.body[0].lineno - 1: else_line - 1])
            else_text = "".join(lines[else_line: n.orelse[-1].end_lineno])
            nl = "\r\n" if head.endswith("\r\n") else "\n"
            new = f"{indent}if not ({' '.join(test_src.split())}):{nl}{else_text}{indent}else:{nl}{body_text}"
            edits.append((a, b, new))
            taken.append((a, b))
    return apply_edits(src, edits) if edits else None


def k_temp(src, tree):
    lines = src.splitlines(keepends=True)
    starts = offs(lines)
    edits = []
    for fn in ast.walk(tree):
        if not isinstance(fn, ast.FunctionDef):
            continue
        for n in ast.walk(fn):
            if isinstance(n, ast.Return) and n.value is not None and not isinstance(n.value, (ast.Constant, ast.Name)) and n.lineno == n.end_lineno:
                line = lines[n.lineno - 1]
                if not line.strip().startswith("return "):
                    continue
                indent = line[: len(line) - len(line.lstrip())]
                nl = "\r\n" if line.endswith("\r\n") else "\n"
                val = ast.get_source_segment(src, n.value)
                if val is None:
                    continue
                a = starts[n.lineno - 1]
                edits.append((a, a + len(line), f"{indent}ret_t = {val}{nl}{indent}return ret_t{nl}"))
    return apply_edits(src, edits) if edits else None


_KW_NAMES = None


def _keyword_names():
    """every name used as a keyword argument anywhere in the repository (incl. tests): such parameters keep their names"""
    global _KW_NAMES
    if _KW_NAMES is None:
        names = set()
        for root, _, fs in os.walk("/repo"):
            if "/.git" in root or "/ply" in root:
                continue
            for f in fs:
                if f.endswith(".py"):
                    try:
                        t = ast.parse(open(os.path.join(root, f), "rb").read().decode("utf-8-sig"))
                    except SyntaxError:
                        continue
                    for n in ast.walk(t):
                        if isinstance(n, ast.keyword) and n.arg:
                            names.add(n.arg)
        _KW_NAMES = names
    return _KW_NAMES


def k_params(src, tree):
    """rename the positional parameters (not self/cls, not *args/**kwargs, not names used as keywords anywhere) of every function"""
    lines = src.splitlines(keepends=True)
    starts = offs(lines)
    kw = _keyword_names()
    edits = []
    for fn in ast.walk(tree):
        if not isinstance(fn, ast.FunctionDef) or fn.args.kwarg or fn.name.startswith("t_"):
            continue
        if any(isinstance(n, (ast.FunctionDef, ast.Lambda, ast.ClassDef)) and n is not fn for n in ast.walk(fn)):
            continue
        cand = [a for a in fn.args.args if a.arg not in ("self", "cls") and a.arg not in kw]
        if not cand:
            continue
        names = {a.arg for a in cand}
        # skip if a comprehension / global / nonlocal re-binds one of them
        if any(isinstance(n, (ast.Global, ast.Nonlocal)) for n in ast.walk(fn)):
            continue
        for a in cand:
            p0 = pos(lines, starts, a.lineno, a.col_offset)
            edits.append((p0, p0 + len(a.arg), a.arg + "_p"))
        for n in ast.walk(fn):
            if isinstance(n, ast.Name) and n.id in names:
                p0 = pos(lines, starts, n.lineno, n.col_offset)
                edits.append((p0, p0 + len(n.id), n.id + "_p"))
    return apply_edits(src, edits) if edits else None


_FLIP = {ast.Lt: ">", ast.Gt: "<", ast.LtE: ">=", ast.GtE: "<="}


def k_cmpflip(src, tree):
    lines = src.splitlines(keepends=True)
    starts = offs(lines)
    edits, taken = [], []
    for n in ast.walk(tree):
        if isinstance(n, ast.Compare) and len(n.ops) == 1 and type(n.ops[0]) in _FLIP and _simple(n.left) and _simple(n.comparators[0]):
            if sum(1 for side in (n.left, n.comparators[0]) for x in ast.walk(side) if isinstance(x, ast.Call)) > 1:
                continue
            a = pos(lines, starts, n.lineno, n.col_offset)
            b = pos(lines, starts, n.end_lineno, n.end_col_offset)
            if any(a < tb and ta < b for ta, tb in taken):
                continue
            l = ast.get_source_segment(src, n.left)
            r = ast.get_source_segment(src, n.comparators[0])
            if l is None or r is None or "\n" in l + r:
                continue
            edits.append((a, b, f"{r} {_FLIP[type(n.ops[0])]} {l}"))
            taken.append((a, b))
    return apply_edits(src, edits) if edits else None


def k_elseret(src, tree):
    """`if c: ...; return X` + `else: BODY`  ->  drop the `else:` and dedent BODY (the if-branch always leaves)"""
    lines = src.splitlines(keepends=True)
    starts = offs(lines)
    edits, taken = [], []
    for n in ast.walk(tree):
        if isinstance(n, ast.If) and n.orelse and not (len(n.orelse) == 1 and isinstance(n.orelse[0], ast.If)) and isinstance(n.body[-1], (ast.Return, ast.Raise, ast.Continue, ast.Break)):
            else_line = None
            for ln in range(n.orelse[0].lineno - 1, n.body[-1].end_lineno, -1):
                if lines[ln - 1].strip().rstrip("\r\n").rstrip() == "else:":
                    else_line = ln
                    break
            if else_line is None:
                continue
            a = starts[else_line - 1]
            b = starts[n.orelse[-1].end_lineno - 1] + len(lines[n.orelse[-1].end_lineno - 1])
            if any(a < tb and ta < b for ta, tb in taken):
                continue
            head = lines[n.lineno - 1]
            if not head.lstrip().startswith("if "):
                continue
            body_lines = lines[else_line: n.orelse[-1].end_lineno]
            ind_else = len(lines[else_line - 1]) - len(lines[else_line - 1].lstrip())
            ind_body = len(lines[n.orelse[0].lineno - 1]) - len(lines[n.orelse[0].lineno - 1].lstrip())
            d = ind_body - ind_else
            if d <= 0:
                continue
            # multi-line strings inside the block would be corrupted by dedenting: skip blocks containing triple quotes
            if any('"""' in x or "'''" in x for x in body_lines):
                continue
            new = "".join((x[d:] if x.strip() else x) for x in body_lines)
            edits.append((a, b, new))
            taken.append((a, b))
    return apply_edits(src, edits) if edits else None


def k_fstring(src, tree):
    """'..{}..'.format(a, b) with plain positional fields -> f'..{a}..{b}..'"""
    lines = src.splitlines(keepends=True)
    starts = offs(lines)
    edits, taken = [], []
    for n in ast.walk(tree):
        if isinstance(n, ast.Call) and isinstance(n.func, ast.Attribute) and n.func.attr == "format" and isinstance(n.func.value, ast.Constant) and isinstance(n.func.value.value, str) \
                and not n.keywords and n.args and n.lineno == n.end_lineno:
            tmpl = n.func.value.value
            if tmpl.count("{}") != len(n.args) or "{" in tmpl.replace("{}", "") or "}" in tmpl.replace("{}", "") or "\\" in tmpl or '"' in tmpl or "\n" in tmpl:
                continue
            segs = [ast.get_source_segment(src, a) for a in n.args]
            if any(s is None or '"' in s or "{" in s or "}" in s or "\\" in s or "\n" in s or ":" in s or "!" in s for s in segs):
                continue
            parts = tmpl.split("{}")
            body = "".join(p + ("{" + segs[i] + "}" if i < len(segs) else "") for i, p in enumerate(parts))
            a = pos(lines, starts, n.lineno, n.col_offset)
            b = pos(lines, starts, n.end_lineno, n.end_col_offset)
            if any(a < tb and ta < b for ta, tb in taken):
                continue
            edits.append((a, b, 'f"' + body + '"'))
            taken.append((a, b))
    return apply_edits(src, edits) if edits else None


KINDS = {"rename": k_rename, "swapeq": k_swapeq, "invert": k_invert, "temp": k_temp, "params": k_params, "cmpflip": k_cmpflip, "elseret": k_elseret, "fstring": k_fstring}


def run_one(args):
    rel, kind, newsrc, props = args
    from nslsa.driver import run_rules
    from nslsa.model import AnalysisError
    from nslsa import report

    try:
        ast.parse(newsrc)
    except SyntaxError as e:
        return (rel, kind, "REWRITE-BROKEN", [f"syntax {e}"])
    d = tempfile.mkdtemp(prefix="nsltws-")
    try:
        for top in ("nsl", "nslc.py", "nslr.py", "tests", "pyproject.toml", "setup.py"):
            s = os.path.join("/repo", top)
            if os.path.isdir(s):
                shutil.copytree(s, os.path.join(d, top), ignore=shutil.ignore_patterns("__pycache__", "parser.out", "parsetab.py"))
            elif os.path.exists(s):
                shutil.copy2(s, os.path.join(d, top))
        raw = open(os.path.join(d, rel), "rb").read()
        bom = raw.startswith(b"\xef\xbb\xbf")
        data = newsrc.encode("utf-8")
        if bom:
            data = b"\xef\xbb\xbf" + data
        open(os.path.join(d, rel), "wb").write(data)
        try:
            t = subprocess.run("timeout 120 /venv/bin/python -m pytest -q -p no:cacheprovider -x 2>&1 | tail -1", shell=True, cwd=d, capture_output=True, text=True, timeout=200)
        except subprocess.TimeoutExpired:
            return (rel, kind, "REWRITE-BROKEN", ["tests time out"])
        if " passed" not in t.stdout or "failed" in t.stdout or "error" in t.stdout.lower():
            return (rel, kind, "REWRITE-BROKEN", [t.stdout.strip()[-100:]])
        fired = []
        known = report.load_known()
        for p in props:
            try:
                col, _ = run_rules(p, d, "quick")
                bad = [o for o in col.violations if not report.match_known(known, p, o)]
                if bad:
                    fired.append(f"{p}:{bad[0].rule}:{bad[0].construct[:70]}")
            except AnalysisError as e:
                fired.append(f"{p}(err:{str(e)[:90]})")
            except Exception as e:
                fired.append(f"{p}(crash:{type(e).__name__}:{str(e)[:60]})")
        return (rel, kind, "FIRED" if fired else "SILENT", fired)
    finally:
        shutil.rmtree(d, ignore_errors=True)


def main():
    files = [a for a in sys.argv[1:] if not a.startswith("--")]
    props = ["C%02d" % i for i in range(1, 21)]
    kinds = list(KINDS)
    for a in sys.argv[1:]:
        if a.startswith("--props="):
            props = a.split("=", 1)[1].split(",")
        if a.startswith("--kinds="):
            kinds = a.split("=", 1)[1].split(",")
    if not files:
        for root, _, fs in os.walk("/repo/nsl"):
            for f in fs:
                if f.endswith(".py") and f not in ("parsetab.py",) and "/ply" not in root:
                    files.append(os.path.relpath(os.path.join(root, f), "/repo"))
        files += ["nslc.py", "nslr.py"]
    jobs = []
    for rel in sorted(files):
        raw = open(os.path.join("/repo", rel), "rb").read()
        if raw.startswith(b"\xef\xbb\xbf"):
            raw = raw[3:]
        src = raw.decode("utf-8")
        tree = ast.parse(src)
        for k in kinds:
            ns = KINDS[k](src, tree)
            if ns and ns != src:
                jobs.append((rel, k, ns, props))
    print(f"{len(jobs)} variants")
    with ProcessPoolExecutor(max_workers=16) as ex:
        res = list(ex.map(run_one, jobs))
    for rel, kind, st, info in res:
        if st != "SILENT":
            print(st, rel, kind, "; ".join(info)[:400])
    print(f"{sum(1 for r in res if r[2] == 'SILENT')} silent, {sum(1 for r in res if r[2] == 'FIRED')} fired, {sum(1 for r in res if r[2] == 'REWRITE-BROKEN')} rewrite-broken")


main()
