#!/venv/bin/python
"""For every 'fix:' commit in /repo: the reverse patch re-introduces a genuine
defect of the pinned tree while the 82 tests still pass.  Store those that
still apply to HEAD as seeded variants /verif/seeded/fixrev-<hash>/ ."""
import json
import os
import shutil
import subprocess
import sys
import tempfile


def sh(cmd, cwd=None):
    return subprocess.run(cmd, shell=True, cwd=cwd, capture_output=True, text=True)


known = json.load(open("/verif/known_findings.json"))["findings"]
bycommit = {}
for k in known:
    if k.get("status") == "fixed":
        bycommit.setdefault(k["commit"], []).append(k)
commits = sh("git -C /repo log --format='%h %s' --grep='^fix:' --reverse").stdout.strip().splitlines()
for line in commits:
    h, subj = line.split(" ", 1)
    name = f"fixrev-{h}"
    out = f"/verif/seeded/{name}"
    wt = tempfile.mkdtemp(prefix="nslfixrev-", dir="/tmp")
    os.rmdir(wt)
    sh(f"git -C /repo worktree add -q --detach {wt} HEAD")
    try:
        sh(f"git -C /repo diff {h} {h}^ > {wt}/rev.diff")
        r = sh("git apply --whitespace=nowarn rev.diff", cwd=wt)
        if r.returncode:
            print(f"SKIP {name}: reverse patch does not apply to HEAD ({subj[:50]})")
            if os.path.isdir(out):
                shutil.rmtree(out)
            continue
        os.remove(f"{wt}/rev.diff")
        t = sh("/venv/bin/python -m pytest -q -p no:cacheprovider -x 2>&1 | tail -1", cwd=wt)
        if " passed" not in t.stdout or "failed" in t.stdout:
            print(f"SKIP {name}: tests fail with the revert: {t.stdout.strip()}")
            continue
        os.makedirs(out, exist_ok=True)
        sh(f"git diff -- nsl nslc.py nslr.py > {out}/patch.diff", cwd=wt)
        ks = bycommit.get(h, [])
        props = sorted({k["property"] for k in ks})
        meta = {
            "id": name,
            "kind": "mutation",
            "property": props[0] if props else None,
            "also_properties": props[1:],
            "origin": f"reverse of /repo commit {h} ({subj}): re-introduces a genuine defect of the pinned tree",
            "needs_to_manifest": "; ".join(k.get("witness", "") for k in ks),
            "what": "; ".join(k.get("what", "") for k in ks),
            "confirmed": {"base_commit": sh("git -C /repo log --format=%h -1").stdout.strip(), "tests": t.stdout.strip(),
                          "demo": "the witness was reproduced by a probe on the pinned tree before the fix (see known_findings.json / DESIGN.md section 5)",
                          "ran": "tools/make_fixrev_seeds.py: worktree of HEAD; git apply reverse patch; pytest (82 tests)"},
            "expected_detected": None,
            "also_detected_by": [],
        }
        json.dump(meta, open(f"{out}/meta.json", "w"), indent=1)
        print(f"OK   {name}: {props} {t.stdout.strip()} :: {subj[:60]}")
    finally:
        sh(f"git -C /repo worktree remove --force {wt}")
