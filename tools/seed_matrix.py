#!/venv/bin/python
"""Run the built checks against every seeded variant and record which check
catches which change (updates meta.json: detected_by / expected_detected).
usage: seed_matrix.py [--all-props] [ID-prefix ...]"""
import glob
import json
import os
import sys
from concurrent.futures import ProcessPoolExecutor

sys.dont_write_bytecode = True
sys.path.insert(0, "/verif")
from nslsa import selftest  # noqa

allprops = "--all-props" in sys.argv
sel = [a for a in sys.argv[1:] if not a.startswith("--")]
built = sorted(os.path.basename(f)[:-3].upper() for f in glob.glob("/verif/nslsa/rules/c*.py"))
jobs = []
metas = {}
for d in sorted(glob.glob("/verif/seeded/*/")):
    vid = os.path.basename(d.rstrip("/"))
    if sel and not any(vid.startswith(s) for s in sel):
        continue
    mp = d + "meta.json"
    if not os.path.exists(mp):
        continue
    meta = json.load(open(mp))
    metas[vid] = (mp, meta)
    props = built if allprops else [p for p in [meta.get("property")] if p in built]
    for p in props:
        jobs.append((p, "/repo", vid, d + "patch.diff", meta.get("kind", "mutation")))
# workers are recycled: a worker that has analysed a few hundred trees holds their models in the analyser's caches
results = []
for i0 in range(0, len(jobs), 800):
    with ProcessPoolExecutor(max_workers=int(os.environ.get("NSLSA_JOBS", "16"))) as ex:
        results.extend(ex.map(selftest._run_variant, jobs[i0:i0 + 800]))
by = {}
for (p, _r, vid, _pp, kind), (vid2, k2, outcome, detail) in zip(jobs, results):
    by.setdefault(vid, []).append((p, outcome, detail))
for vid, rs in sorted(by.items()):
    mp, meta = metas[vid]
    own = meta.get("property")
    det = sorted(p for p, o, d in rs if o == "fired")
    if meta.get("kind", "mutation") == "mutation":
        meta["expected_detected"] = own in det
        meta["also_detected_by"] = [p for p in det if p != own]
        meta["detail"] = {p: d for p, o, d in rs if o == "fired"}
        errs = {p: (o + " " + d) for p, o, d in rs if o in ("analysis-error", "skipped")}
        if errs:
            meta["analysis_errors"] = errs
        elif "analysis_errors" in meta:
            del meta["analysis_errors"]
    if meta.get("kind") == "twin":
        meta["fired_by"] = det
        meta["checked_against"] = sorted(p for p, o, d in rs)
        meta["analysis_errors"] = {p: (o + " " + d) for p, o, d in rs if o == "analysis-error"}
    json.dump(meta, open(mp, "w"), indent=1)
    mark = "DETECTED" if own in det else "MISSED  "
    if meta.get("kind") == "twin":
        errs = [p for p, o, d in rs if o == "analysis-error"]
        mark = "TWIN-FIRED" if det else ("TWIN-ERROR" if errs else "TWIN-SILENT")
    print(f"{mark} {vid:12s} own={own} by={det} " + "; ".join(f"{p}:{o}" for p, o, d in rs if o not in ("fired", "silent")))
    for p, o, d in rs:
        if o == "fired" and p == own:
            print(f"          {d[:200]}")
