#!/venv/bin/python
"""Behavioural cross-check of the twins: every seed's demo.py passes on /repo HEAD by
construction; it must also pass on a tree with a behaviour-preserving twin applied.

usage: twin_demos.py [twin-prefix ...]     (default: all seeded/twin-*)
Each twin is applied to a scratch export of /repo HEAD under /tmp (removed afterwards);
all demos are run there in parallel. Prints TWIN-EQUIV / TWIN-DIFFERS <name> <failing demos>."""
import concurrent.futures as cf
import glob
import os
import shutil
import subprocess
import sys
import tempfile

prefixes = sys.argv[1:] or ["twin-"]
twins = sorted(d for d in glob.glob("/verif/seeded/twin-*") if any(os.path.basename(d).startswith(p) for p in prefixes))
demos = sorted(d for d in glob.glob("/verif/seeded/*/demo.py") if not os.path.basename(os.path.dirname(d)).startswith("twin-"))


def sh(cmd, cwd=None, timeout=300):
    return subprocess.run(cmd, shell=True, cwd=cwd, capture_output=True, text=True, timeout=timeout)


def run_demo(args):
    tree, demo = args
    name = os.path.basename(os.path.dirname(demo))
    # a private copy of the tree per demo: demos (re)generate parser tables and write scratch files
    work = tempfile.mkdtemp(prefix="nsldemo-", dir="/tmp")
    try:
        priv = os.path.join(work, "t")
        shutil.copytree(tree, priv)
        shutil.copy(demo, os.path.join(priv, "demo.py"))
        try:
            r = sh("/venv/bin/python demo.py", cwd=priv, timeout=180)
            return name, r.returncode
        except subprocess.TimeoutExpired:
            return name, "timeout"
    finally:
        shutil.rmtree(work, ignore_errors=True)


def run_all(tree, which):
    with cf.ThreadPoolExecutor(max_workers=14) as ex:
        return list(ex.map(run_demo, [(tree, d) for d in which]))


def export(patch=None):
    tree = tempfile.mkdtemp(prefix="nsltwin-", dir="/tmp")
    sh(f"git -C /repo archive HEAD | tar -x -C {tree}")
    if patch:
        r = sh(f"git apply --whitespace=nowarn {patch}", cwd=tree)
        if r.returncode:
            shutil.rmtree(tree, ignore_errors=True)
            return None
    sh("/venv/bin/python -c 'import nsl.parser; nsl.parser.NslParser()'", cwd=tree)
    return tree


base = export()
res0 = run_all(base, demos)
shutil.rmtree(base, ignore_errors=True)
stale = [n for n, rc in res0 if rc != 0]
demos = [d for d, (n, rc) in zip(demos, res0) if rc == 0]
print(f"baseline: {len(demos)} demos pass on HEAD; not usable (fail on HEAD): {stale}")


bad = 0
for tw in twins:
    name = os.path.basename(tw)
    tree = export(f"{tw}/patch.diff")
    if tree is None:
        print(f"TWIN-NOAPPLY {name}")
        bad += 1
        continue
    try:
        res = run_all(tree, demos)
        failing = [f"{n}:{rc}" for n, rc in res if rc != 0]
        if failing:
            bad += 1
            print(f"TWIN-DIFFERS {name} {' '.join(failing)}")
        else:
            print(f"TWIN-EQUIV   {name} ({len(res)} demos pass)")
    finally:
        shutil.rmtree(tree, ignore_errors=True)
sys.exit(1 if bad else 0)
