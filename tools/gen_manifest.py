#!/venv/bin/python
"""Regenerate /verif/MANIFEST.json from the rule modules that exist."""
import importlib
import json
import os
import sys

sys.dont_write_bytecode = True
ROOT = os.path.dirname(os.path.dirname(os.path.abspath(__file__)))
sys.path.insert(0, ROOT)

BASELINE = "cd /repo && /venv/bin/python -m pytest -ra -q -p no:cacheprovider --timeout=900 --continue-on-collection-errors"

TECH = {
    "C01": "table-chain agreement (token->Operation->opcode->VM arm vs C operator table), abstract interpretation of lowering handlers to control-flow templates compared with reference templates, path rules on declaration/affix handlers, LALR table inspection",
    "C02": "sibling-agreement rule over Uses/ReplaceUses of all instruction classes, must-pass-through (rewire before remove), pass-flag/gating dataflow, fold-vs-VM-arm agreement",
    "C03": "reaching-definition rule on the interpreter loop (activation state bound once), freshness/escape analysis of the value map, copy-before-write alias rule, naming/ordering agreement over four sites",
    "C04": "table agreement (swizzle alphabets), role-flow rules on shuffle/element-write lowering, alias analysis of default instances and *_SET arms, kind-coverage typing vs lowering vs VM",
    "C05": "exhaustiveness/fence rules: opcode coverage lowering vs VM arms, operation coverage typing vs lowering tables, resolved-attribute rule under predicate refinement, handler coverage by dispatch matrix",
    "C06": "dispatch-matrix exhaustiveness (no silent drop), handler totality vs VM discriminators, IR-opcode->mnemonic->byte table chain vs WebAssembly 1.0 opcode table",
    "C07": "emission-schema abstract interpretation of WriteTo methods compared with the WebAssembly 1.0 binary grammar; path counting of registration calls",
    "C08": "exhaustive inspection of the LALR(1) action table built from the statically extracted grammar + table walk over all operator pairs/triples",
    "C09": "enum-range folding, decision-table extraction of the promotion lattice, path rule (every path returns or raises), operand-role flow",
    "C10": "sentinel-value dataflow rule, path-condition rules on FindFunction (viability, tie, empty, unknown), ordering rule on registration",
    "C11": "structural induction discharged by dispatch-matrix + ctx-delta rules per node class, grammar-derived field coverage",
    "C12": "scope-set agreement between two visitors, chain-walk path rules, grammar-derived field coverage, push/pop pairing",
    "C13": "guard abstraction by folding the rejection condition over a finite grid, writer/reader dimension agreement, validator-discipline sibling rule, traversal completeness",
    "C14": "who-may-call rule on SetReference, created->added->used typestate, branch-target typestate via emission templates, operand protocol",
    "C15": "effect analysis (VM never writes the program), freshness/ownership rules on globals map, value map and default instances",
    "C16": "grammar-action role flow, mutation-under-iteration effect rule, load-once membership rule, writer/reader agreement on metadata",
    "C17": "closure of the module object graph + pickle-hostile construct rule, writer/reader protocol agreement",
    "C18": "hash-order taint rule (set iteration to ordered sink), surviving-state rule (module/class level mutables, mutable defaults, per-call construction)",
    "C19": "call-site classification signed vs unsigned LEB128 positions, framing term agreement (size field measures the buffer that follows), encoder loop shape",
    "C20": "grammar-action role flow (located symbol = named symbol, not overwritten), same-text rule, hull min/max rule, pass-order rule",
}


def main():
    checks = []
    na = []
    engines = {}
    for i in range(1, 21):
        pid = "C%02d" % i
        try:
            mod = importlib.import_module(f"nslsa.rules.{pid.lower()}")
        except ModuleNotFoundError:
            na.append({"property_id": pid, "reason": "static rules for this property are not built yet (work in progress; see DESIGN.md section 10)"})
            continue
        level = getattr(mod, "LEVEL", "other")
        checks.append(
            {
                "property_id": pid,
                "quick_cmd": f"./check {pid} --tier quick",
                "thorough_cmd": f"./check {pid} --tier thorough",
                "evidence_file": f"/verif/evidence/{pid}.json",
                "replay_cmd_template": f"./check {pid} --replay {{path}}",
                "engine": "nslsa",
                "level_claimed": {
                    "category": level,
                    "text": getattr(mod, "EXPLANATION", ""),
                    "design_ref": f"DESIGN.md section 4, {pid}",
                },
                "level_note": "Decides the structural clauses listed, on /repo's current source, on every run; NOT decided: "
                + getattr(mod, "NOT_DECIDED", "")
                + " Trusted base: "
                + "; ".join(getattr(mod, "TRUSTED_BASE", ["CPython ast module", "the nslsa engine (model, dispatch, paths)"])),
                "technique": "static analysis: " + TECH.get(pid, ""),
            }
        )
    man = {
        "version": 1,
        "setup_cmd": "true",
        "hooks": {
            "guard": "NSL_VERIF",
            "enable": "no hooks: the checks are static analyses of /repo's source text and execute none of it (the guard variable is reserved and unused)",
            "baseline_off_cmd": BASELINE,
            "source_commits": [],
            "add_only": True,
        },
        "engines": [
            {"name": "nslsa", "path": "/verif/nslsa", "serves_properties": [c["property_id"] for c in checks],
             "kind_free_text": "repository-specific static analyser in pure Python (ast): source model with C3 MRO and name mangling, literal folder, "
             "visitor-dispatch resolver, structured path enumeration with boolean symbols, PLY-based static LALR(1) table construction from the "
             "extracted grammar, emission-schema abstract interpreter for the lowering and wasm writers, VM arm model"},
        ],
        "checks": checks,
        "not_applicable": na,
        "notes": "All checks are static (family: static analysis). Exit 0 = every obligation discharged (modulo KNOWN-FINDING lines from "
        "/verif/known_findings.json); exit 1 + VIOLATION line = an unlisted violation; exit 2 + ANALYSIS-ERROR = anchor vanished / shape outside "
        "the modelled subset. Genuine defects of the pinned tree were repaired by 'fix:' commits in /repo (listed as status=fixed in known_findings.json).",
    }
    with open(os.path.join(ROOT, "MANIFEST.json"), "w") as f:
        json.dump(man, f, indent=1)
    print(f"{len(checks)} checks, {len(na)} not applicable")


main()
