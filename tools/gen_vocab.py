#!/venv/bin/python
"""Write /verif/nslsa/vocab.json: for every function of the analysed sources the names of its parameters (in order)
and of its locals (in order of first binding).  nslsa/canon.py uses it only to undo pure renamings: a name that does not
occur in the recorded vocabulary of its function, at a position whose recorded name does not occur in the function any
more, is presented to the rules under the recorded name.  It never changes a tree whose names are the recorded ones."""
import ast
import json
import os
import sys

sys.path.insert(0, "/verif")
from nslsa.canon import function_vocab  # noqa: E402

root = sys.argv[1] if len(sys.argv) > 1 else "/repo"
out = {}
files = []
for r, _, fs in os.walk(os.path.join(root, "nsl")):
    if "/ply" in r:
        continue
    for f in fs:
        if f.endswith(".py") and f not in ("parsetab.py",):
            files.append(os.path.relpath(os.path.join(r, f), root))
files += ["nslc.py", "nslr.py"]
for rel in sorted(files):
    src = open(os.path.join(root, rel), "rb").read().decode("utf-8-sig")
    tree = ast.parse(src)
    out[rel] = function_vocab(tree)
json.dump(out, open("/verif/nslsa/vocab.json", "w"), indent=0, sort_keys=True)
print(sum(len(v) for v in out.values()), "functions in", len(out), "files")
