#!/usr/bin/env python3
"""append an entry to known_findings.json: kf.py fixed|known PROP RULE CONSTRUCT WHAT WITNESS"""
import json, subprocess, sys
status, prop, rule, construct, what, witness = sys.argv[1:7]
p = '/verif/known_findings.json'
d = json.load(open(p))
e = {"status": status, "property": prop, "rule": rule, "construct": construct}
if status == 'fixed':
    e["commit"] = subprocess.check_output(['git', '-C', '/repo', 'log', '--format=%h', '-1'], text=True).strip()
e["what"] = what
e["witness"] = witness
# the one-line form asked for by the interface
e["line"] = f"fixed: property={prop} {e['commit']} {what}" if status == 'fixed' else f"KNOWN-FINDING: property={prop} {what}"
d["findings"].append(e)
json.dump(d, open(p, 'w'), indent=1)
print("recorded", e)
