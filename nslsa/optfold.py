"""Canon C12: options nobody uses yet.

A maintenance commit often adds an optional parameter with a default that keeps the old behaviour (`signedArgs=None`,
`initialLoopDepth=0`, `debugOutputPrefix=""`) and threads it through a constructor into a field.  As long as no call site of
the analysed program passes anything else, the parameter *is* its default, the field *is* that constant, and every test on
them is decided.  This pass substitutes such parameters and fields by their constant and folds the tests that become
constant, so the rules read the program that is actually executed.  It is an equivalence of the *whole analysed program*
(nsl/, nslc.py, nslr.py), established from all its call sites; it runs once, after all files are parsed.

Conditions (all checked, anything unclear leaves the code as it is):

  Only parameters that the recorded vocabulary of the pinned tree (nslsa/vocab.json) does not list for that function are
  considered: the pass concerns options *added* by a change, the pinned tree is analysed exactly as written (and without
  the vocabulary nothing is folded).

  parameter p of function f (default a literal constant; p is never re-bound in f)
    - every call site by f's name (attribute or plain call; for `__init__`: calls of the class and of its subclasses,
      `super().__init__(..)` / `Base.__init__(self, ..)` in subclasses) either omits p or passes the same literal; no site uses
      `*args` / `**kwargs`; there is at least one site;
    - f's name is never used other than as the callee of a call (no callback, no alias); for `__init__`, the class name is
      used only as a callee, a base class, an annotation, in isinstance / match patterns, or as `Cls.attr`.
  field self.x
    - written exactly once in the analysed program: `self.x = p` as a top-level statement of `__init__`, p a folded
      parameter; the name x is not used as a string constant anywhere (setattr / getattr / __dict__ access).

The substitution and the folding are iterated (an option threaded through two functions needs two rounds).
"""
from __future__ import annotations

import ast
import os
from typing import Dict, List

from .miniev import CannotEval, ev


def _last(call: ast.Call):
    f = call.func
    if isinstance(f, ast.Attribute):
        return f.attr
    if isinstance(f, ast.Name):
        return f.id
    return None


def _const(e):
    return isinstance(e, ast.Constant) and (e.value is None or isinstance(e.value, (bool, int, float, str)))


class _Fold(ast.NodeTransformer):
    """fold tests that are decided by constants alone"""

    def __init__(self):
        self.changed = False

    @staticmethod
    def _decide(test):
        try:
            return bool(ev(test, {}))
        except (CannotEval, Exception):
            return None

    def visit_If(self, node):
        self.generic_visit(node)
        d = self._decide(node.test)
        if d is None:
            return node
        self.changed = True
        body = node.body if d else node.orelse
        return body if body else ast.copy_location(ast.Pass(), node)

    def visit_IfExp(self, node):
        self.generic_visit(node)
        d = self._decide(node.test)
        if d is None:
            return node
        self.changed = True
        return node.body if d else node.orelse

    def visit_BoolOp(self, node):
        self.generic_visit(node)
        # `K or x` / `K and x` with a constant first operand
        vals = list(node.values)
        while len(vals) > 1 and _const(vals[0]):
            truth = bool(vals[0].value)
            if isinstance(node.op, ast.Or):
                if truth:
                    self.changed = True
                    return vals[0]
                vals.pop(0)
            else:
                if not truth:
                    self.changed = True
                    return vals[0]
                vals.pop(0)
            self.changed = True
        if len(vals) == 1:
            return vals[0]
        node.values = vals
        return node


class _Subst(ast.NodeTransformer):
    def __init__(self, names: Dict[str, ast.Constant], fields: Dict[str, ast.Constant], selfn):
        self.names, self.fields, self.selfn = names, fields, selfn
        self.n = 0

    def visit_Name(self, node):
        if isinstance(node.ctx, ast.Load) and node.id in self.names:
            self.n += 1
            return ast.copy_location(ast.Constant(self.names[node.id].value), node)
        return node

    def visit_Attribute(self, node):
        self.generic_visit(node)
        if isinstance(node.ctx, ast.Load) and isinstance(node.value, ast.Name) and node.value.id == self.selfn and node.attr in self.fields:
            self.n += 1
            return ast.copy_location(ast.Constant(self.fields[node.attr].value), node)
        return node


def _params(fn: ast.FunctionDef, method: bool):
    pos = [a.arg for a in fn.args.args[(1 if method else 0):]]
    defaults = dict(zip(reversed(pos), reversed(fn.args.defaults)))
    kwo = [a.arg for a in fn.args.kwonlyargs]
    for a, d in zip(fn.args.kwonlyargs, fn.args.kw_defaults):
        if d is not None:
            defaults[a.arg] = d
    return pos, kwo, defaults


def _rebound(fn, p) -> bool:
    for n in ast.walk(fn):
        if isinstance(n, ast.Name) and n.id == p and isinstance(n.ctx, (ast.Store, ast.Del)):
            return True
        if isinstance(n, (ast.FunctionDef, ast.AsyncFunctionDef, ast.Lambda)) and n is not fn:
            a = n.args
            if any(x.arg == p for x in a.args + a.kwonlyargs + a.posonlyargs) or (a.vararg and a.vararg.arg == p) or (a.kwarg and a.kwarg.arg == p):
                return True
        if isinstance(n, (ast.Global, ast.Nonlocal)) and p in n.names:
            return True
    return False


def fold_unused_options(trees: Dict[str, ast.Module], rounds: int = 3) -> int:
    if os.environ.get("NSLSA_NO_OPTFOLD"):
        return 0
    total = 0
    for _ in range(rounds):
        n = _one_round(trees)
        total += n
        if not n:
            break
    return total


def _one_round(trees: Dict[str, ast.Module]) -> int:
    from .canon import _functions, _vocab

    voc = _vocab()
    if not voc:
        return 0
    # is there any candidate at all?  (a parameter with a literal default that the pinned tree does not have)
    cand = False
    for rel, tree in trees.items():
        vr = voc.get(rel) or {}
        for q, fn in _functions(tree):
            known = vr.get(q, {}).get("params", [])
            a = fn.args
            withdef = [x.arg for x in a.args[len(a.args) - len(a.defaults):]] + [x.arg for x, d in zip(a.kwonlyargs, a.kw_defaults) if d is not None]
            if any(p not in known for p in withdef):
                cand = True
                break
        if cand:
            break
    if not cand:
        return 0
    # ---- indexes over the whole analysed program ------------------------------------------------
    calls: Dict[str, List[ast.Call]] = {}
    callee_ids = set()
    other_refs: Dict[str, int] = {}
    strings = set()
    stores: Dict[str, int] = {}
    classes: List[tuple] = []
    ann_ids = set()
    by_name: Dict[str, Dict[str, list]] = {}
    imports: Dict[str, Dict[str, set]] = {}
    for rel, tree in trees.items():
        idx = by_name.setdefault(rel, {})
        imp = imports.setdefault(rel, {"names": set(), "modules": {}})
        for n in ast.walk(tree):
            if isinstance(n, ast.Name):
                idx.setdefault(n.id, []).append(n)
            elif isinstance(n, ast.Attribute):
                idx.setdefault(n.attr, []).append(n)
            if isinstance(n, ast.ImportFrom):
                for a_ in n.names:
                    imp["names"].add(a_.asname or a_.name)
                    imp["modules"][a_.asname or a_.name] = a_.name
            elif isinstance(n, ast.Import):
                for a_ in n.names:
                    imp["modules"][a_.asname or a_.name.split(".")[0]] = a_.name.split(".")[-1] if a_.asname else a_.name.split(".")[0]
            if isinstance(n, ast.Call):
                nm = _last(n)
                if nm:
                    calls.setdefault(nm, []).append(n)
                callee_ids.add(id(n.func))
                if isinstance(n.func, ast.Name) and n.func.id == "isinstance" and len(n.args) == 2:
                    for x in ast.walk(n.args[1]):
                        ann_ids.add(id(x))
            elif isinstance(n, ast.ClassDef):
                classes.append((rel, n))
                for b in n.bases:
                    for x in ast.walk(b):
                        ann_ids.add(id(x))
            elif isinstance(n, ast.Constant) and isinstance(n.value, str):
                strings.add(n.value)
            elif isinstance(n, (ast.FunctionDef, ast.AsyncFunctionDef)):
                for a in n.args.args + n.args.kwonlyargs + n.args.posonlyargs:
                    if a.annotation is not None:
                        for x in ast.walk(a.annotation):
                            ann_ids.add(id(x))
                if n.returns is not None:
                    for x in ast.walk(n.returns):
                        ann_ids.add(id(x))
            elif isinstance(n, ast.AnnAssign):
                for x in ast.walk(n.annotation):
                    ann_ids.add(id(x))
            elif isinstance(n, ast.MatchClass):
                for x in ast.walk(n.cls):
                    ann_ids.add(id(x))
            elif isinstance(n, ast.ExceptHandler) and n.type is not None:
                for x in ast.walk(n.type):
                    ann_ids.add(id(x))
            elif isinstance(n, ast.Attribute) and isinstance(n.ctx, (ast.Store, ast.Del)):
                stores[n.attr] = stores.get(n.attr, 0) + 1
    for tree in trees.values():
        for n in ast.walk(tree):
            if isinstance(n, ast.Attribute) and isinstance(n.value, (ast.Name, ast.Attribute)):
                # `Cls.attr` / `mod.Cls.attr`: the class used as a namespace
                ann_ids.add(id(n.value))
            nm = n.id if isinstance(n, ast.Name) else n.attr if isinstance(n, ast.Attribute) else None
            if nm is None or id(n) in callee_ids or id(n) in ann_ids:
                continue
            if isinstance(getattr(n, "ctx", None), ast.Load):
                other_refs[nm] = other_refs.get(nm, 0) + 1

    def _modname(rel):
        return os.path.basename(os.path.dirname(rel)) if rel.endswith("__init__.py") else os.path.basename(rel)[:-3]

    def refs_of_class(crel, cname):
        """nodes of the analysed program that denote class `cname` of file `crel`"""
        mod = _modname(crel)
        out = []
        for rel, idx in by_name.items():
            imp = imports[rel]
            for n in idx.get(cname, []):
                if isinstance(n, ast.Name):
                    if rel == crel or cname in imp["names"]:
                        out.append(n)
                else:
                    v = n.value
                    q = v.id if isinstance(v, ast.Name) else v.attr if isinstance(v, ast.Attribute) else None
                    if q is not None and (imp["modules"].get(q, q) == mod):
                        out.append(n)
        return out

    def class_sites(crel, cd: ast.ClassDef):
        """(call, offset) pairs: construction sites of cd and of its subclasses, and chained __init__ calls"""
        family = [(crel, cd)]
        subs = []
        grew = True
        while grew:
            grew = False
            for rel, c in classes:
                if any(c is f[1] for f in family):
                    continue
                for frel, f in list(family):
                    rn = {id(x) for x in refs_of_class(frel, f.name)}
                    if any(id(x) in rn for b in c.bases for x in ast.walk(b)):
                        family.append((rel, c))
                        subs.append(c)
                        grew = True
                        break
        out = []
        call_of = {id(c.func): c for cs in calls.values() for c in cs}
        for frel, f in family:
            for n in refs_of_class(frel, f.name):
                if id(n) in call_of:
                    out.append((call_of[id(n)], 0))
                elif id(n) in ann_ids or not isinstance(getattr(n, "ctx", None), ast.Load):
                    continue
                else:
                    return None
        for s in subs:
            for n in ast.walk(s):
                if isinstance(n, ast.Call) and _last(n) == "__init__":
                    explicit = isinstance(n.func, ast.Attribute) and isinstance(n.func.value, (ast.Name, ast.Attribute)) and not (isinstance(n.func.value, ast.Name) and n.func.value.id == "self")
                    out.append((n, 1 if explicit else 0))
        return out

    from .canon import _functions, _vocab

    voc = _vocab()
    recorded = {}
    for rel, tree in trees.items():
        for q, fn in _functions(tree):
            recorded.setdefault(id(fn), set((voc.get(rel) or {}).get(q, {}).get("params", [])) if voc else None)

    def constant_of(fn, method, sites):
        """{param: Constant} for the *new* parameters (not in the recorded vocabulary of the pinned tree) every site leaves at
        one literal value"""
        pos, kwo, defaults = _params(fn, method)
        out = {}
        known = recorded.get(id(fn))
        if not sites or known is None:
            return out
        for p in pos + kwo:
            d = defaults.get(p)
            if p in known or d is None or not _const(d) or _rebound(fn, p):
                continue
            vals = []
            inside = {id(x) for x in ast.walk(fn) if isinstance(x, ast.Call)}
            for c, off in sites:
                if any(isinstance(a, ast.Starred) for a in c.args) or any(k.arg is None for k in c.keywords):
                    vals = None
                    break
                v = None
                if p in pos:
                    i = pos.index(p) + off
                    if i < len(c.args):
                        v = c.args[i]
                kw = next((k.value for k in c.keywords if k.arg == p), None)
                v = v if v is not None else kw
                if isinstance(v, ast.Name) and v.id == p and id(c) in inside:
                    continue  # a call inside f that hands f's own p on (recursion, or a same-named callee): no new value
                vals.append(v if v is not None else d)
            if vals and all(_const(v) for v in vals) and len({(type(v.value).__name__, repr(v.value)) for v in vals}) == 1:
                out[p] = vals[0]
        return out

    changed = 0
    # ---- plain functions and methods -------------------------------------------------------------
    for crel, tree in trees.items():
        def visit(body, cls, crel=crel):
            nonlocal changed
            for st in body:
                if isinstance(st, ast.ClassDef):
                    visit(st.body, st)
                elif isinstance(st, (ast.FunctionDef, ast.AsyncFunctionDef)):
                    method = cls is not None and not any(isinstance(d, ast.Name) and d.id == "staticmethod" for d in st.decorator_list)
                    if st.name == "__init__" and cls is not None:
                        sites = class_sites(crel, cls)
                    elif st.name.startswith("__") and st.name.endswith("__"):
                        sites = None
                    else:
                        names = {st.name}
                        if cls is not None and st.name.startswith("__"):
                            names.add("_" + cls.name.lstrip("_") + st.name)
                        if any(other_refs.get(nm) for nm in names):
                            sites = None
                        else:
                            sites = [(c, 0) for nm in names for c in calls.get(nm, [])]
                            # a method is called through an attribute; a module-level function by its plain name or as
                            # `<module>.f(..)` - a function and a method of one name (`Match`) are not each other's sites
                            if cls is not None:
                                sites = [(c, o) for c, o in sites if isinstance(c.func, ast.Attribute)]
                            else:
                                mod_aliases = {a for imp in imports.values() for a in imp["modules"]}
                                sites = [(c, o) for c, o in sites if isinstance(c.func, ast.Name)
                                         or (isinstance(c.func, ast.Attribute) and isinstance(c.func.value, ast.Name) and c.func.value.id in mod_aliases)]
                    consts = constant_of(st, method, sites) if sites else {}
                    fields = {}
                    if consts and st.name == "__init__" and cls is not None:
                        selfn = st.args.args[0].arg if st.args.args else "self"
                        for s in st.body:
                            if isinstance(s, ast.Assign) and len(s.targets) == 1 and isinstance(s.targets[0], ast.Attribute) and isinstance(s.targets[0].value, ast.Name) \
                                    and s.targets[0].value.id == selfn and isinstance(s.value, ast.Name) and s.value.id in consts:
                                f = s.targets[0].attr
                                mangled = "_" + cls.name.lstrip("_") + f if f.startswith("__") and not f.endswith("__") else f
                                if stores.get(f, 0) == 1 and f not in strings and mangled not in strings and not stores.get(mangled if mangled != f else "\0"):
                                    fields[f] = consts[s.value.id]
                    if consts:
                        # an explicit argument that only repeats the default is dropped at the call site (`Match(a, b, True)`
                        # -> `Match(a, b)`): keyword arguments, and a positional one if it is the last
                        pos_, _kwo, defaults_ = _params(st, method)
                        for p_, cv_ in consts.items():
                            d_ = defaults_.get(p_)
                            if not (_const(d_) and type(d_.value) is type(cv_.value) and d_.value == cv_.value):
                                continue
                            for c_, off_ in sites:
                                kw_ = [k for k in c_.keywords if k.arg == p_]
                                if kw_:
                                    c_.keywords = [k for k in c_.keywords if k.arg != p_]
                                    changed += 1
                                elif p_ in pos_ and len(c_.args) == pos_.index(p_) + off_ + 1 and not c_.keywords:
                                    c_.args.pop()
                                    changed += 1
                        sb = _Subst(consts, {}, None)
                        st.body = [sb.visit(s) for s in st.body]
                        changed += sb.n
                        fd = _Fold()
                        st.body = _flat([fd.visit(s) for s in st.body])
                    if fields:
                        for m in ast.walk(cls):
                            if isinstance(m, (ast.FunctionDef, ast.AsyncFunctionDef)) and m.args.args:
                                sb = _Subst({}, fields, m.args.args[0].arg)
                                m.body = [sb.visit(s) for s in m.body]
                                if sb.n:
                                    changed += sb.n
                                    fd = _Fold()
                                    m.body = _flat([fd.visit(s) for s in m.body])
                    visit(st.body, None)
        visit(tree.body, None)
    if changed:
        for tree in trees.values():
            ast.fix_missing_locations(tree)
    return changed


def _flat(items):
    out = []
    for x in items:
        if isinstance(x, list):
            out.extend(x)
        elif x is not None:
            out.append(x)
    return out or [ast.Pass()]
