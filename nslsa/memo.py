"""Memo-key completeness.

Pattern (the only memo idiom the repository and the seeded changes use):

    key = <expr>
    if key not in <table>:          # or: if <table>.get(key) is None
        ... compute ...
        <table>[key] = value
    use <table>[key]

The value computed under the guard may depend only on what the key
distinguishes.  Every local name / attribute chain read inside the guarded
block must therefore be (a) part of the key expression, (b) computed inside the
block from such names, (c) a constant of the function (bound once to a literal
display), or (d) a module / class / builtin name.  Anything else is a variable
the memo ignores: two calls that differ only in it share one entry."""
from __future__ import annotations

import ast
import builtins
from typing import List, Tuple

from .model import unparse

_BUILTINS = set(dir(builtins))


def _chain(n):
    """maximal Name / Attribute chain as text, or None"""
    parts = []
    while isinstance(n, ast.Attribute):
        parts.append(n.attr)
        n = n.value
    if isinstance(n, ast.Name):
        parts.append(n.id)
        return ".".join(reversed(parts))
    return None


def _loads(node) -> set:
    """maximal chains loaded in node"""
    out = set()
    skip = set()
    for n in ast.walk(node):
        if id(n) in skip:
            continue
        if isinstance(n, (ast.Attribute, ast.Name)) and isinstance(getattr(n, "ctx", None), ast.Load):
            c = _chain(n)
            if c is not None:
                out.add(c)
                x = n
                while isinstance(x, ast.Attribute):
                    x = x.value
                    skip.add(id(x))
    return out


def module_names_of(tree: ast.Module) -> set:
    out = set()
    for st in tree.body:
        if isinstance(st, ast.Import):
            out |= {(a.asname or a.name).split(".")[0] for a in st.names}
        elif isinstance(st, ast.ImportFrom):
            out |= {a.asname or a.name for a in st.names}
        elif isinstance(st, (ast.FunctionDef, ast.ClassDef)):
            out.add(st.name)
        elif isinstance(st, ast.Assign):
            out |= {t.id for t in st.targets if isinstance(t, ast.Name)}
        elif isinstance(st, ast.AnnAssign) and isinstance(st.target, ast.Name):
            out.add(st.target.id)
    return out


def check_file(model, col, rule, rel):
    """memo guards of every function / method of one file"""
    fi = model.file(rel)
    mn = module_names_of(fi.tree)
    nfun = 0
    for fn in ast.walk(fi.tree):
        if not isinstance(fn, ast.FunctionDef):
            continue
        nfun += 1
        for g, table, ignored in memo_key_violations(fn, mn):
            col.bad(rule, f"{rel}::{fn.name} memo `{table}`",
                    f"`if {unparse(g.test)}` fills `{table}` with a value computed from {ignored}, which the key `{unparse(g.test.left if isinstance(g.test, ast.Compare) else g.test)[:50]}` does not "
                    f"distinguish: a later call that differs only in {ignored} gets the entry computed for the first one", rel, g)
    col.ok(rule, f"{rel}:: memo keys", f"{nfun} functions scanned; every memo table is keyed by everything its entries are computed from")
    return nfun


def memo_key_violations(func: ast.FunctionDef, module_names: set) -> List[Tuple[ast.If, str, List[str]]]:
    """[(guard, table text, [ignored variables])] for every memo guard in func."""
    out = []
    selfn = func.args.args[0].arg if func.args.args else None
    const_locals = set()
    assigned_count = {}
    for n in ast.walk(func):
        if isinstance(n, ast.Assign) and isinstance(n.targets[0], ast.Name):
            assigned_count[n.targets[0].id] = assigned_count.get(n.targets[0].id, 0) + 1
            if isinstance(n.value, (ast.Dict, ast.Set, ast.Tuple, ast.List, ast.Constant)) and not any(isinstance(x, ast.Name) and x.id not in module_names for x in ast.walk(n.value)):
                const_locals.add(n.targets[0].id)
    const_locals = {c for c in const_locals if assigned_count.get(c) == 1}
    local_vals = {}
    for n in ast.walk(func):
        if isinstance(n, ast.Assign) and isinstance(n.targets[0], ast.Name) and assigned_count.get(n.targets[0].id) == 1:
            local_vals[n.targets[0].id] = n.value
    for g in ast.walk(func):
        if not isinstance(g, ast.If):
            continue
        t = g.test
        key = table = None
        if isinstance(t, ast.Compare) and len(t.ops) == 1 and isinstance(t.ops[0], ast.NotIn):
            key, table = t.left, t.comparators[0]
        elif isinstance(t, ast.Compare) and len(t.ops) == 1 and isinstance(t.ops[0], ast.Is) and isinstance(t.left, ast.Call) and isinstance(t.left.func, ast.Attribute) \
                and t.left.func.attr == "get" and t.left.args and isinstance(t.comparators[0], ast.Constant) and t.comparators[0].value is None:
            key, table = t.left.args[0], t.left.func.value
        if key is None:
            continue
        ttxt = unparse(table)
        stores = [n for s in g.body for n in ast.walk(s) if isinstance(n, ast.Assign) and isinstance(n.targets[0], ast.Subscript) and unparse(n.targets[0].value) == ttxt]
        if not stores:
            continue
        # only tables that outlive the call: attributes (self.x, ctx.x) or module-level names
        if isinstance(table, ast.Name) and table.id not in module_names:
            continue
        kexpr = key
        if isinstance(key, ast.Name) and key.id in local_vals:
            kexpr = local_vals[key.id]
        key_atoms = _loads(kexpr) | ({key.id} if isinstance(key, ast.Name) else set())
        inner_assigned = {n.targets[0].id for s in g.body for n in ast.walk(s) if isinstance(n, ast.Assign) and isinstance(n.targets[0], ast.Name)} | \
                         {n.target.id for s in g.body for n in ast.walk(s) if isinstance(n, ast.AugAssign) and isinstance(n.target, ast.Name)} | \
                         {x.id for s in g.body for n in ast.walk(s) if isinstance(n, (ast.For, ast.comprehension)) for x in ast.walk(n.target) if isinstance(x, ast.Name)}
        reads = set()
        for s in g.body:
            reads |= _loads(s)
        ignored = []
        for r in sorted(reads):
            root = r.split(".")[0]
            if r in key_atoms or any(r.startswith(k + ".") or k.startswith(r + ".") or r == k for k in key_atoms):
                continue
            if root in inner_assigned or root in const_locals or root in module_names or root in _BUILTINS:
                continue
            if root == selfn:
                continue  # instance state other than the table: not a per-call variable
            if r == ttxt or ttxt.startswith(r):
                continue
            ignored.append(r)
        if ignored:
            out.append((g, ttxt, ignored))
    return out
