"""Memo-key completeness.

Pattern (the only memo idiom the repository and the seeded changes use):

    key = <expr>
    if key not in <table>:          # or: if <table>.get(key) is None
        ... compute ...
        <table>[key] = value
    use <table>[key]

The value computed under the guard may depend only on what the key
distinguishes.  Every local name / attribute chain read inside the guarded
block must therefore be (a) part of the key expression, (b) computed inside the
block from such names, (c) a constant of the function (bound once to a literal
display), or (d) a module / class / builtin name.  Anything else is a variable
the memo ignores: two calls that differ only in it share one entry."""
from __future__ import annotations

import ast
import builtins
from typing import List, Tuple

from .model import unparse

_BUILTINS = set(dir(builtins))


def _chain(n):
    """maximal Name / Attribute chain as text, or None"""
    parts = []
    while isinstance(n, ast.Attribute):
        parts.append(n.attr)
        n = n.value
    if isinstance(n, ast.Name):
        parts.append(n.id)
        return ".".join(reversed(parts))
    return None


def _loads(node) -> set:
    """maximal chains loaded in node"""
    out = set()
    skip = set()
    for n in ast.walk(node):
        if id(n) in skip:
            continue
        if isinstance(n, (ast.Attribute, ast.Name)) and isinstance(getattr(n, "ctx", None), ast.Load):
            c = _chain(n)
            if c is not None:
                out.add(c)
                x = n
                while isinstance(x, ast.Attribute):
                    x = x.value
                    skip.add(id(x))
    return out


def module_names_of(tree: ast.Module) -> set:
    out = set()
    for st in tree.body:
        if isinstance(st, ast.Import):
            out |= {(a.asname or a.name).split(".")[0] for a in st.names}
        elif isinstance(st, ast.ImportFrom):
            out |= {a.asname or a.name for a in st.names}
        elif isinstance(st, (ast.FunctionDef, ast.ClassDef)):
            out.add(st.name)
        elif isinstance(st, ast.Assign):
            out |= {t.id for t in st.targets if isinstance(t, ast.Name)}
        elif isinstance(st, ast.AnnAssign) and isinstance(st.target, ast.Name):
            out.add(st.target.id)
    return out


def check_file(model, col, rule, rel):
    """memo guards of every function / method of one file"""
    fi = model.file(rel)
    mn = module_names_of(fi.tree)
    nfun = 0
    for fn in ast.walk(fi.tree):
        if not isinstance(fn, ast.FunctionDef):
            continue
        nfun += 1
        for g, table, ignored in memo_key_violations(fn, mn):
            col.bad(rule, f"{rel}::{fn.name} memo `{table}`",
                    f"`if {unparse(g.test)}` fills `{table}` with a value computed from {ignored}, which the key `{unparse(g.test.left if isinstance(g.test, ast.Compare) else g.test)[:50]}` does not "
                    f"distinguish: a later call that differs only in {ignored} gets the entry computed for the first one", rel, g)
    col.ok(rule, f"{rel}:: memo keys", f"{nfun} functions scanned; every memo table is keyed by everything its entries are computed from")
    return nfun


def memo_key_violations(func: ast.FunctionDef, module_names: set) -> List[Tuple[ast.If, str, List[str]]]:
    """[(guard, table text, [ignored variables])] for every memo guard in func."""
    out = []
    selfn = func.args.args[0].arg if func.args.args else None
    const_locals = set()
    assigned_count = {}
    for n in ast.walk(func):
        if isinstance(n, ast.Assign) and isinstance(n.targets[0], ast.Name):
            assigned_count[n.targets[0].id] = assigned_count.get(n.targets[0].id, 0) + 1
            if isinstance(n.value, (ast.Dict, ast.Set, ast.Tuple, ast.List, ast.Constant)) and not any(isinstance(x, ast.Name) and x.id not in module_names for x in ast.walk(n.value)):
                const_locals.add(n.targets[0].id)
    const_locals = {c for c in const_locals if assigned_count.get(c) == 1}
    local_vals = {}
    for n in ast.walk(func):
        if isinstance(n, ast.Assign) and isinstance(n.targets[0], ast.Name) and assigned_count.get(n.targets[0].id) == 1:
            local_vals[n.targets[0].id] = n.value
    for g in ast.walk(func):
        if not isinstance(g, ast.If):
            continue
        t = g.test
        key = table = None
        if isinstance(t, ast.Compare) and len(t.ops) == 1 and isinstance(t.ops[0], ast.NotIn):
            key, table = t.left, t.comparators[0]
        elif isinstance(t, ast.Compare) and len(t.ops) == 1 and isinstance(t.ops[0], ast.Is) and isinstance(t.left, ast.Call) and isinstance(t.left.func, ast.Attribute) \
                and t.left.func.attr == "get" and t.left.args and isinstance(t.comparators[0], ast.Constant) and t.comparators[0].value is None:
            key, table = t.left.args[0], t.left.func.value
        if key is None:
            continue
        ttxt = unparse(table)
        stores = [n for s in g.body for n in ast.walk(s) if isinstance(n, ast.Assign) and isinstance(n.targets[0], ast.Subscript) and unparse(n.targets[0].value) == ttxt]
        if not stores:
            continue
        # only tables that outlive the call: attributes (self.x, ctx.x) or module-level names
        if isinstance(table, ast.Name) and table.id not in module_names:
            continue
        kexpr = key
        if isinstance(key, ast.Name) and key.id in local_vals:
            kexpr = local_vals[key.id]
        key_atoms = _loads(kexpr) | ({key.id} if isinstance(key, ast.Name) else set())
        inner_assigned = {n.targets[0].id for s in g.body for n in ast.walk(s) if isinstance(n, ast.Assign) and isinstance(n.targets[0], ast.Name)} | \
                         {n.target.id for s in g.body for n in ast.walk(s) if isinstance(n, ast.AugAssign) and isinstance(n.target, ast.Name)} | \
                         {x.id for s in g.body for n in ast.walk(s) if isinstance(n, (ast.For, ast.comprehension)) for x in ast.walk(n.target) if isinstance(x, ast.Name)}
        reads = set()
        for s in g.body:
            reads |= _loads(s)
        ignored = []
        for r in sorted(reads):
            root = r.split(".")[0]
            if r in key_atoms or any(r.startswith(k + ".") or k.startswith(r + ".") or r == k for k in key_atoms):
                continue
            if root in inner_assigned or root in const_locals or root in module_names or root in _BUILTINS:
                continue
            if root == selfn:
                continue  # instance state other than the table: not a per-call variable
            if r == ttxt or ttxt.startswith(r):
                continue
            ignored.append(r)
        if ignored:
            out.append((g, ttxt, ignored))
    return out


# ---------------------------------------------------------------------------
def sound_method_memo(cls, m: ast.FunctionDef):
    """If method `m` of class `cls` is a memoised computation

        v = self.C.get(k)          # k a parameter of m
        if v is None:
            v = E                  # E reads fields of self (and k)
            self.C[k] = v
        return v

    whose cache is invalidated wherever something E depends on changes, return E (so that a rule can read the method as
    `return E`); otherwise None.  "Depends on": the fields of self that E reads, and the fields a container field was built
    from (`self.m = ChainMap(self.a, self.b)` makes m depend on a and b).  "Invalidated": every method other than __init__
    that re-binds or writes into one of these fields also clears the cache, pops the key, or re-binds the cache - on the
    clean reading that a method does what its statements say (no path analysis: a clear anywhere in the method counts,
    and so does a pop of the name being registered)."""
    if not m.args.args:
        return None
    s = m.args.args[0].arg
    params = [a.arg for a in m.args.args[1:]]
    body = [x for x in m.body if not (isinstance(x, ast.Expr) and isinstance(x.value, ast.Constant))]
    if len(body) != 3:
        return None
    a0, cond, ret = body
    if not (isinstance(a0, ast.Assign) and len(a0.targets) == 1 and isinstance(a0.targets[0], ast.Name) and isinstance(a0.value, ast.Call) and isinstance(a0.value.func, ast.Attribute)
            and a0.value.func.attr == "get" and isinstance(a0.value.func.value, ast.Attribute) and isinstance(a0.value.func.value.value, ast.Name) and a0.value.func.value.value.id == s
            and len(a0.value.args) == 1 and isinstance(a0.value.args[0], ast.Name) and a0.value.args[0].id in params):
        return None
    v, cache, key = a0.targets[0].id, a0.value.func.value.attr, a0.value.args[0].id
    if not (isinstance(ret, ast.Return) and isinstance(ret.value, ast.Name) and ret.value.id == v):
        return None
    if not (isinstance(cond, ast.If) and not cond.orelse and unparse(cond.test) == f"{v} is None"):
        return None
    inner = [x for x in cond.body if not (isinstance(x, ast.Expr) and isinstance(x.value, ast.Constant))]
    if len(inner) != 2:
        return None
    comp, store = inner
    if not (isinstance(comp, ast.Assign) and len(comp.targets) == 1 and isinstance(comp.targets[0], ast.Name) and comp.targets[0].id == v):
        return None
    if not (isinstance(store, ast.Assign) and unparse(store.targets[0]) == f"{s}.{cache}[{key}]" and isinstance(store.value, ast.Name) and store.value.id == v):
        return None
    expr = comp.value
    # E must be a function of the key and of fields of self only
    for x in ast.walk(expr):
        if isinstance(x, ast.Name) and x.id not in (s, key) and isinstance(x.ctx, ast.Load):
            return None
    deps = {x.attr for x in ast.walk(expr) if isinstance(x, ast.Attribute) and isinstance(x.value, ast.Name) and x.value.id == s}
    # closure: a field bound to a container made of other fields
    grew = True
    while grew:
        grew = False
        for mm in cls.methods.values():
            if not mm.args.args:
                continue
            s2 = mm.args.args[0].arg
            for n in ast.walk(mm):
                if isinstance(n, ast.Assign) and isinstance(n.targets[0], ast.Attribute) and isinstance(n.targets[0].value, ast.Name) and n.targets[0].value.id == s2 and n.targets[0].attr in deps:
                    for y in ast.walk(n.value):
                        if isinstance(y, ast.Attribute) and isinstance(y.value, ast.Name) and y.value.id == s2 and y.attr not in deps and y.attr != cache:
                            deps.add(y.attr)
                            grew = True
    # the cache itself is created in __init__
    init = cls.methods.get("__init__")
    if init is None or not any(isinstance(n, ast.Assign) and isinstance(n.targets[0], ast.Attribute) and n.targets[0].attr == cache and isinstance(n.value, (ast.Dict, ast.Call)) for n in ast.walk(init)):
        return None
    for name, mm in cls.methods.items():
        if name == "__init__" or mm is m or not mm.args.args:
            continue
        s2 = mm.args.args[0].arg
        touches = False
        for n in ast.walk(mm):
            tg = n.targets if isinstance(n, (ast.Assign, ast.Delete)) else [n.target] if isinstance(n, ast.AugAssign) else []
            for t in tg:
                b = t
                while isinstance(b, ast.Subscript):
                    b = b.value
                if isinstance(b, ast.Attribute) and isinstance(b.value, ast.Name) and b.value.id == s2 and b.attr in deps:
                    touches = True
            if isinstance(n, ast.Call) and isinstance(n.func, ast.Attribute) and isinstance(n.func.value, ast.Attribute) and isinstance(n.func.value.value, ast.Name) \
                    and n.func.value.value.id == s2 and n.func.value.attr in deps and n.func.attr in ("update", "setdefault", "pop", "clear", "popitem", "append", "add", "remove", "discard"):
                touches = True
        if not touches:
            continue
        inval = False
        for n in ast.walk(mm):
            if isinstance(n, ast.Call) and isinstance(n.func, ast.Attribute) and isinstance(n.func.value, ast.Attribute) and isinstance(n.func.value.value, ast.Name) \
                    and n.func.value.value.id == s2 and n.func.value.attr == cache and n.func.attr in ("clear", "pop"):
                inval = True
            if isinstance(n, ast.Assign) and isinstance(n.targets[0], ast.Attribute) and isinstance(n.targets[0].value, ast.Name) and n.targets[0].value.id == s2 and n.targets[0].attr == cache:
                inval = True
            if isinstance(n, ast.Delete) and any(isinstance(t, ast.Subscript) and isinstance(t.value, ast.Attribute) and t.value.attr == cache for t in n.targets):
                inval = True
        if not inval:
            return None
    return expr
