"""Command-line driver: ./check <Cxx> --tier quick|thorough [--replay F] [--root DIR]"""
from __future__ import annotations

import argparse
import importlib
import json
import os
import sys
import time
import traceback

from . import report
from .model import AnalysisError, Model

PROPS = ["C%02d" % i for i in range(1, 21)]
# properties whose mechanisms do not go through the visitor / pass machinery (VM state, pickling, the byte writer)
INFRA_FREE = {"C15", "C17", "C19"}


_MODEL_IDS = {}


def _memoise_rule_modules():
    """Rule modules share obligations by running each other on a sub-collector; the same module is reached along several
    chains (C06 -> C07 -> C19 -> C18 -> C17 ...).  Each module's `run` is computed once per (model, tier, options) and its
    obligations are handed out as copies (sharers re-label them)."""
    import copy

    for p in PROPS:
        m = importlib.import_module(f"nslsa.rules.{p.lower()}")
        orig = m.run
        if getattr(orig, "_memoised", False):
            continue
        cache = {}

        def wrapped(model, col, tier="quick", *a, _orig=orig, _cache=cache, **kw):
            uid = _MODEL_IDS.setdefault(id(model), (len(_MODEL_IDS), model))[0]  # the entry keeps the model alive: ids are not re-used
            key = (uid, tier, a, tuple(sorted(kw.items())))
            if key not in _cache:
                n0 = len(col.obligations)
                _orig(model, col, tier, *a, **kw)
                _cache[key] = [copy.copy(o) for o in col.obligations[n0:]]
            else:
                col.obligations.extend(copy.copy(o) for o in _cache[key])

        wrapped._memoised = True
        m.run = wrapped


def run_rules(prop: str, root: str, tier: str):
    """Run the rule set of one property on the tree at `root`.
    Returns (collector, rules module).  Raises AnalysisError."""
    mod = importlib.import_module(f"nslsa.rules.{prop.lower()}")
    _memoise_rule_modules()
    model = Model(root)
    col = report.Collector(prop)
    # the shared machinery the property's own rules take for granted (visitor dispatch, pass protocol, recovery regions,
    # child traversal, operator enum): rule <prop>.0
    if prop not in INFRA_FREE:
        from . import infra

        r0 = f"R{prop[1:]}.0"
        infra.check_visitor_core(model, col, r0)
        infra.check_pass_process(model, col, r0)
        infra.check_error_context(model, col, r0)
        infra.check_ast_traversal(model, col, r0)
        infra.check_op_enum(model, col, r0)
        infra.check_no_swallow(model, col, r0)
        infra.check_pipeline(model, col, r0)
    try:
        mod.run(model, col, tier)
    except AnalysisError as e:
        known = report.load_known()
        if any(not report.match_known(known, prop, o) for o in col.violations):
            # a violated rule already explains why the model of this tree cannot be built further
            col.info(f"analysis stopped after the violation(s) above: {e}")
        else:
            raise
    for rule, what, count, minimum in col.floors:
        if count < minimum:
            if col.violations:
                # a violated rule already explains the tree; a vacuous sibling rule is reported, not fatal
                col.info(f"rule {rule}: only {count} instance(s) of '{what}' (expected >= {minimum})")
                continue
            raise AnalysisError(
                f"rule {rule}: only {count} instance(s) of '{what}' found, "
                f"{minimum} were confirmed by reading; the rule would pass vacuously"
            )
    if not col.obligations:
        raise AnalysisError("no obligation was generated: the check is vacuous")
    return col, mod


def main(argv=None):
    ap = argparse.ArgumentParser(prog="check")
    ap.add_argument("prop")
    ap.add_argument("--tier", default=os.environ.get("VERIF_TIER", "quick"), choices=["quick", "thorough"])
    ap.add_argument("--root", default=os.environ.get("NSL_REPO", "/repo"))
    ap.add_argument("--replay")
    ap.add_argument("--no-evidence", action="store_true")
    ap.add_argument("--verbose", "-v", action="store_true")
    args = ap.parse_args(argv)
    prop = args.prop.upper()
    if prop not in PROPS:
        print(f"ANALYSIS-ERROR unknown property {prop}")
        return 2
    seed = int(os.environ.get("VERIF_SEED", "0") or 0)
    t0 = time.time()
    try:
        col, mod = run_rules(prop, args.root, args.tier)
        selftest = None
        if args.tier == "thorough" and not args.replay:
            from . import selftest as st

            selftest = st.run(prop, args.root, seed)
    except AnalysisError as e:
        print(f"ANALYSIS-ERROR property={prop} {e}")
        return 2
    except Exception:
        print(f"ANALYSIS-ERROR property={prop} internal error in the checker:")
        traceback.print_exc(file=sys.stdout)
        return 2

    known = report.load_known()
    viol = col.violations
    unlisted, listed = [], []
    for ob in viol:
        k = report.match_known(known, prop, ob)
        (listed if k else unlisted).append((ob, k))

    if args.replay:
        with open(args.replay) as f:
            r = json.load(f)
        hit = [
            ob for ob in viol if ob.rule == r["rule"] and ob.construct == r["construct"]
        ]
        if hit:
            ob = hit[0]
            print(f"REPLAY: still violated: {ob.file}:{ob.line} rule={ob.rule} construct={ob.construct} {ob.detail}")
            print(f"VIOLATION property={prop} replay={args.replay}")
            return 1
        print(f"REPLAY: rule={r['rule']} construct={r['construct']} is not violated on the current tree")
        return 0

    # ---- human-readable report ---------------------------------------
    nob = len(col.obligations)
    print(f"== {prop} {getattr(mod, 'TITLE', '')}  tier={args.tier} root={args.root}")
    for k, v in col.analysed.items():
        s = json.dumps(v, default=str)
        print(f"   analysed {k}: {s if len(s) < 300 else s[:300] + ' ...'}")
    byrule = {}
    for ob in col.obligations:
        a = byrule.setdefault(ob.rule, [0, 0])
        a[0] += 1
        a[1] += 1 if ob.ok else 0
    for rule in sorted(byrule):
        print(f"   rule {rule}: {byrule[rule][1]}/{byrule[rule][0]} obligations discharged")
    for i in col.infos:
        print(f"   info: {i}")
    if args.verbose:
        for ob in col.obligations:
            print(f"     [{'ok' if ob.ok else 'BAD'}] {ob.rule} {ob.construct}: {ob.detail}")
    for ob, k in listed:
        print(f"KNOWN-FINDING: property={prop} rule={ob.rule} {ob.construct}: {k.get('what', ob.detail)}")
    rc = 0
    for ob, _ in unlisted:
        p = report.write_replay(prop, ob)
        print(f"{ob.file or '?'}:{ob.line or 0} rule={ob.rule} construct={ob.construct} :: {ob.detail}")
        print(f"VIOLATION property={prop} replay={p}")
        rc = 1
    if selftest is not None:
        print(f"   selftest: {json.dumps(selftest['summary'])}")
        if selftest["errors"]:
            for e in selftest["errors"]:
                print(f"ANALYSIS-ERROR property={prop} selftest: {e}")
            if rc == 0:
                rc = 2

    # ---- evidence ------------------------------------------------------
    if not args.no_evidence:
        level = getattr(mod, "LEVEL", "other")
        discharged = sum(1 for o in col.obligations if o.ok)
        constructs = {(o.rule, o.construct) for o in col.obligations}
        samples = [o.as_dict() for o in col.obligations[:: max(1, nob // 12)]][:14]
        samples += [o.as_dict() for o, _ in (unlisted + listed)][:10]
        cov = {
            "obligations": nob,
            "discharged": discharged + len(listed) if False else discharged,
            "known_findings": [
                {"rule": o.rule, "construct": o.construct} for o, _ in listed
            ],
            "evaluations": nob,
            "distinct_nontrivial": len(constructs),
            "rule": "one evaluation = one obligation (rule instance on one construct of /repo's "
            "current source); distinct = distinct (rule, construct) pairs; an obligation is "
            "non-trivial because it is only generated after its anchor was resolved and the "
            "rule's comparison was carried out on it (anchor resolution alone generates none)",
            "samples": samples,
            "per_rule": {r: {"obligations": a[0], "discharged": a[1]} for r, a in sorted(byrule.items())},
            "analysed": col.analysed,
            "checker_cmd": f"./check {prop} --tier {args.tier}",
            "trusted_base": getattr(mod, "TRUSTED_BASE", ["CPython ast module", "the nslsa engine"]),
            "explanation": getattr(mod, "EXPLANATION", "") + " NOT DECIDED: " + getattr(mod, "NOT_DECIDED", ""),
            "exhaustive": bool(getattr(mod, "EXHAUSTIVE", False)),
            "info": col.infos,
        }
        if selftest is not None:
            cov["selftest"] = selftest["summary"]
            cov["selftest_variants"] = selftest["variants"]
        if level == "proof" and discharged != nob:
            # a proof-level claim needs every obligation discharged
            level = "other"
        report.write_evidence(
            prop,
            args.tier,
            seed,
            level,
            cov,
            list(getattr(mod, "ASSUMPTIONS", []))
            + ["not decided by this check: " + getattr(mod, "NOT_DECIDED", "")],
            time.time() - t0,
            len(unlisted),
        )
    print(f"   {prop}: {nob} obligations, {len(viol)} violated ({len(listed)} known), exit {rc}, {time.time()-t0:.2f}s")
    return rc
