"""E1/E2: source model of the NSL repository (pure `ast`, nothing is imported
or executed from /repo).

Everything a rule needs to find its anchors goes through this module, so that a
vanished anchor is one exception type (`AnchorMissing`) that the driver turns
into ANALYSIS-ERROR / exit 2.
"""
from __future__ import annotations

import ast
import os
from typing import Dict, Iterable, Iterator, List, Optional, Tuple


class AnalysisError(Exception):
    """The analysis cannot be carried out (anchor vanished, shape outside the
    modelled subset).  Exit code 2, never a VIOLATION."""


class AnchorMissing(AnalysisError):
    pass


ANALYSED_GLOBS = ("nsl", "nslc.py", "nslr.py")
IGNORED_FILES = {"nsl/parsetab.py"}


def unparse(node) -> str:
    if node is None:
        return "None"
    if isinstance(node, list):
        return "; ".join(unparse(n) for n in node)
    return ast.unparse(node)


def dotted(node) -> Optional[str]:
    """`a.b.c` -> 'a.b.c' for Name/Attribute chains, else None."""
    parts = []
    while isinstance(node, ast.Attribute):
        parts.append(node.attr)
        node = node.value
    if isinstance(node, ast.Name):
        parts.append(node.id)
        return ".".join(reversed(parts))
    return None


def call_name(node) -> Optional[str]:
    if isinstance(node, ast.Call):
        return dotted(node.func)
    return None


def last_attr(node) -> Optional[str]:
    """Name of the called method/function: `x.y.Foo(..)` -> 'Foo'."""
    if isinstance(node, ast.Call):
        f = node.func
        if isinstance(f, ast.Attribute):
            return f.attr
        if isinstance(f, ast.Name):
            return f.id
    return None


def walk_no_nested(node) -> Iterator[ast.AST]:
    """ast.walk that does not descend into nested function/class definitions
    (lambdas are descended)."""
    todo = [node]
    first = True
    while todo:
        n = todo.pop()
        if not first and isinstance(
            n, (ast.FunctionDef, ast.AsyncFunctionDef, ast.ClassDef)
        ):
            continue
        first = False
        yield n
        todo.extend(ast.iter_child_nodes(n))


def calls_in(node, name: Optional[str] = None) -> List[ast.Call]:
    out = []
    for n in ast.walk(node) if not isinstance(node, list) else _walk_list(node):
        if isinstance(n, ast.Call) and (name is None or last_attr(n) == name):
            out.append(n)
    out.sort(key=lambda c: (c.lineno, c.col_offset))
    return out


def _walk_list(nodes):
    for n in nodes:
        yield from ast.walk(n)


def names_in(node) -> set:
    return {n.id for n in ast.walk(node) if isinstance(n, ast.Name)}


def mangle(cls: str, attr: str) -> str:
    if attr.startswith("__") and not attr.endswith("__"):
        return "_" + cls.lstrip("_") + attr
    return attr


class ClassInfo:
    def __init__(self, model, file, module, qualname, node, outer=None):
        self.model = model
        self.file = file
        self.module = module
        self.qualname = qualname
        self.name = node.name
        self.node = node
        self.outer = outer
        self.methods: Dict[str, ast.FunctionDef] = {}
        self.props: set = set()
        self.static: set = set()
        self.class_attrs: Dict[str, ast.AST] = {}
        for st in node.body:
            if isinstance(st, ast.FunctionDef):
                self.methods[st.name] = st
                for d in st.decorator_list:
                    dn = dotted(d)
                    if dn == "property":
                        self.props.add(st.name)
                    elif dn in ("staticmethod", "classmethod"):
                        self.static.add(st.name)
            elif isinstance(st, ast.Assign):
                for t in st.targets:
                    if isinstance(t, ast.Name):
                        self.class_attrs[t.id] = st.value
            elif isinstance(st, ast.AnnAssign) and isinstance(st.target, ast.Name):
                if st.value is not None:
                    self.class_attrs[st.target.id] = st.value
        self._bases: Optional[List["ClassInfo"]] = None
        self._mro: Optional[List["ClassInfo"]] = None

    @property
    def key(self):
        return (self.module, self.qualname)

    def __repr__(self):
        return f"<class {self.module}.{self.qualname}>"

    @property
    def bases(self) -> List["ClassInfo"]:
        if self._bases is None:
            out = []
            for b in self.node.bases:
                ci = self.model.resolve_class_expr(self.file, b)
                if ci is not None:
                    out.append(ci)
            self._bases = out
        return self._bases

    @property
    def base_names(self) -> List[str]:
        return [unparse(b) for b in self.node.bases]

    @property
    def mro(self) -> List["ClassInfo"]:
        """C3 linearisation over repository classes (external bases such as
        Enum/ABC/Exception are dropped; they define no v_* or repo methods)."""
        if self._mro is None:
            seqs = [list(b.mro) for b in self.bases] + [list(self.bases)]
            res = [self]
            seqs = [s for s in seqs if s]
            while seqs:
                for s in seqs:
                    cand = s[0]
                    if not any(cand in t[1:] for t in seqs):
                        break
                else:
                    raise AnalysisError(f"inconsistent MRO for {self}")
                res.append(cand)
                seqs = [[x for x in s if x is not cand] for s in seqs]
                seqs = [s for s in seqs if s]
            self._mro = res
        return self._mro

    def find_method(self, name) -> Optional[Tuple["ClassInfo", ast.FunctionDef]]:
        for c in self.mro:
            if name in c.methods:
                return c, c.methods[name]
        return None

    def method(self, name) -> ast.FunctionDef:
        r = self.find_method(name)
        if r is None:
            raise AnchorMissing(f"{self.file}::{self.qualname}.{name} not found")
        return r[1]

    def own_method(self, name) -> ast.FunctionDef:
        if name not in self.methods:
            raise AnchorMissing(f"{self.file}::{self.qualname}.{name} not found")
        return self.methods[name]

    def is_subclass_of(self, other: "ClassInfo") -> bool:
        return other in self.mro

    def attr_defined(self, name) -> bool:
        """Is `name` an attribute every instance has (method, property, class
        attribute, or a `self.name = ...` store in any method of the MRO)?"""
        for c in self.mro:
            if name in c.methods or name in c.class_attrs:
                return True
            if name in c.instance_attrs():
                return True
        return False

    def instance_attrs(self) -> set:
        """Attributes stored on self in any method (mangled)."""
        if not hasattr(self, "_iattrs"):
            out = set()
            for m in self.methods.values():
                if not m.args.args:
                    continue
                selfname = m.args.args[0].arg
                for n in ast.walk(m):
                    if (
                        isinstance(n, ast.Attribute)
                        and isinstance(n.ctx, ast.Store)
                        and isinstance(n.value, ast.Name)
                        and n.value.id == selfname
                    ):
                        out.add(mangle(self.name, n.attr))
            self._iattrs = out
        return self._iattrs


class FileInfo:
    def __init__(self, root, rel):
        self.rel = rel
        self.path = os.path.join(root, rel)
        with open(self.path, encoding="utf-8-sig") as f:
            self.src = f.read()
        try:
            self.tree = ast.parse(self.src, filename=rel)
        except SyntaxError as e:
            raise AnalysisError(f"{rel}: does not parse: {e}")
        from .canon import canonicalise

        self.tree = canonicalise(self.tree, rel)
        if rel.endswith("__init__.py"):
            self.module = os.path.dirname(rel).replace("/", ".")
        else:
            self.module = rel[:-3].replace("/", ".")
        self.package = (
            self.module if rel.endswith("__init__.py") else self.module.rpartition(".")[0]
        )
        # import aliases: local name -> ('module', modname) or ('name', modname, name)
        self.aliases: Dict[str, tuple] = {}
        self.functions: Dict[str, ast.FunctionDef] = {}
        self.assigns: Dict[str, ast.AST] = {}
        for n in ast.walk(self.tree):
            if isinstance(n, ast.Import):
                for a in n.names:
                    if a.asname:
                        self.aliases[a.asname] = ("module", a.name)
                    else:
                        top = a.name.split(".")[0]
                        self.aliases[top] = ("module", top)
            elif isinstance(n, ast.ImportFrom):
                base = n.module or ""
                if n.level:
                    pkg = self.package.split(".") if self.package else []
                    if n.level > 1:
                        pkg = pkg[: len(pkg) - (n.level - 1)]
                    base = ".".join(pkg + ([n.module] if n.module else []))
                for a in n.names:
                    self.aliases[a.asname or a.name] = ("from", base, a.name)
        for st in self.tree.body:
            if isinstance(st, ast.FunctionDef):
                self.functions[st.name] = st
            elif isinstance(st, ast.Assign):
                for t in st.targets:
                    if isinstance(t, ast.Name):
                        self.assigns[t.id] = st.value


class Model:
    def __init__(self, root="/repo"):
        self.root = root
        self.files: Dict[str, FileInfo] = {}
        rels = []
        for top in ANALYSED_GLOBS:
            p = os.path.join(root, top)
            if os.path.isdir(p):
                for d, _dirs, fs in os.walk(p):
                    if "__pycache__" in d:
                        continue
                    for f in fs:
                        if f.endswith(".py"):
                            rels.append(os.path.relpath(os.path.join(d, f), root))
            elif os.path.isfile(p):
                rels.append(top)
        for rel in sorted(rels):
            if rel in IGNORED_FILES:
                continue
            self.files[rel] = FileInfo(root, rel)
        if "nsl/parser.py" not in self.files:
            raise AnchorMissing("nsl/parser.py not found under " + root)
        # canon C12 (whole-program): options added by a change that no call site uses are their defaults
        from .optfold import fold_unused_options

        self.options_folded = fold_unused_options({rel: fi.tree for rel, fi in self.files.items()})
        self.modules = {fi.module: fi for fi in self.files.values()}
        self.classes: Dict[Tuple[str, str], ClassInfo] = {}
        for fi in self.files.values():
            self._collect_classes(fi, fi.tree.body, "", None)

    # ------------------------------------------------------------------
    def _collect_classes(self, fi, body, prefix, outer):
        for st in body:
            if isinstance(st, ast.ClassDef):
                q = prefix + st.name
                ci = ClassInfo(self, fi.rel, fi.module, q, st, outer)
                self.classes[(fi.module, q)] = ci
                self._collect_classes(fi, st.body, q + ".", ci)

    def file(self, rel) -> FileInfo:
        if rel not in self.files:
            raise AnchorMissing(f"file {rel} not found")
        return self.files[rel]

    def cls(self, rel, qualname) -> ClassInfo:
        fi = self.file(rel)
        k = (fi.module, qualname)
        if k not in self.classes:
            raise AnchorMissing(f"{rel}::{qualname} (class) not found")
        return self.classes[k]

    def has_cls(self, rel, qualname) -> bool:
        return rel in self.files and (self.files[rel].module, qualname) in self.classes

    def func(self, rel, qualname) -> ast.FunctionDef:
        """Module-level function 'f', method 'C.m', nested-class method 'C.D.m',
        or function nested in a function 'f.g'."""
        fi = self.file(rel)
        parts = qualname.split(".")
        # longest class prefix
        for i in range(len(parts) - 1, 0, -1):
            k = (fi.module, ".".join(parts[:i]))
            if k in self.classes:
                node = self.classes[k].methods.get(parts[i])
                rest = parts[i + 1 :]
                break
        else:
            node = fi.functions.get(parts[0])
            rest = parts[1:]
        for r in rest:
            if node is None:
                break
            node = next(
                (
                    s
                    for s in ast.walk(node)
                    if isinstance(s, ast.FunctionDef) and s.name == r and s is not node
                ),
                None,
            )
        if node is None:
            raise AnchorMissing(f"{rel}::{qualname} (function) not found")
        return node

    def has_func(self, rel, qualname) -> bool:
        try:
            self.func(rel, qualname)
            return True
        except AnchorMissing:
            return False

    def module_assign(self, rel, name) -> ast.AST:
        fi = self.file(rel)
        if name not in fi.assigns:
            raise AnchorMissing(f"{rel}::{name} (module-level assignment) not found")
        v = fi.assigns[name]
        # a read-only view / a copy of another module-level table is that table: `X = MappingProxyType(_X_items)`, `X = dict(Y)`, `X = Y`
        for _ in range(3):
            inner = v
            if isinstance(v, ast.Call) and len(v.args) == 1 and not v.keywords and (last_attr(v) or getattr(v.func, "id", "")) in ("MappingProxyType", "dict", "frozenset", "tuple", "list", "OrderedDict"):
                inner = v.args[0]
            if isinstance(inner, ast.Name) and inner.id in fi.assigns and inner.id != name:
                v = fi.assigns[inner.id]
            elif inner is not v and isinstance(inner, (ast.Dict, ast.Set, ast.List, ast.Tuple, ast.DictComp, ast.SetComp, ast.ListComp)):
                v = inner
            else:
                break
        return v

    def class_attr(self, rel, qualname, name) -> ast.AST:
        ci = self.cls(rel, qualname)
        for c in ci.mro:
            if name in c.class_attrs:
                return c.class_attrs[name]
        raise AnchorMissing(f"{rel}::{qualname}.{name} (class attribute) not found")

    # ------------------------------------------------------------------
    def resolve_module(self, fi: FileInfo, name: str) -> Optional[FileInfo]:
        """Local name -> repository module (through import aliases)."""
        a = fi.aliases.get(name)
        if a is None:
            return None
        if a[0] == "module":
            return self.modules.get(a[1])
        base, nm = a[1], a[2]
        full = f"{base}.{nm}" if base else nm
        return self.modules.get(full)

    def resolve_class_expr(self, rel, expr) -> Optional[ClassInfo]:
        """Resolve `Name`, `mod.Name`, `mod.Outer.Inner`, `self.Inner` … to a
        repository class, or None (external)."""
        fi = self.files[rel]
        d = dotted(expr)
        if d is None:
            return None
        parts = d.split(".")
        # module alias prefix
        m = self.resolve_module(fi, parts[0])
        if m is not None and len(parts) > 1:
            # nested modules e.g. nsl.LinearIR.X
            idx = 1
            while idx < len(parts) - 1:
                nxt = self.modules.get(m.module + "." + parts[idx])
                if nxt is None:
                    break
                m = nxt
                idx += 1
            return self.classes.get((m.module, ".".join(parts[idx:])))
        a = fi.aliases.get(parts[0])
        if a is not None and a[0] == "from":
            src = self.modules.get(a[1])
            if src is not None:
                return self.classes.get((src.module, ".".join([a[2]] + parts[1:])))
            return None
        # same module (possibly nested)
        k = (fi.module, d)
        if k in self.classes:
            return self.classes[k]
        # nested class referred to by bare name from inside its outer class
        for (mod, q), ci in self.classes.items():
            if mod == fi.module and q.endswith("." + d):
                return ci
        return None

    def subclasses(self, base: ClassInfo, strict=False) -> List[ClassInfo]:
        out = [
            c
            for c in self.classes.values()
            if base in c.mro and (not strict or c is not base)
        ]
        out.sort(key=lambda c: (c.file, c.node.lineno))
        return out

    # ------------------------------------------------------------------
    # E2 literal folding
    def fold(self, node, env: Optional[dict] = None, rel: Optional[str] = None):
        """Evaluate literal structure only.  Raises AnalysisError when the
        expression needs repository code."""
        env = env or {}

        def ev(n):
            if isinstance(n, ast.Constant):
                return n.value
            if isinstance(n, ast.Name):
                if n.id in env:
                    return env[n.id]
                raise AnalysisError(f"cannot fold name {n.id}")
            if isinstance(n, (ast.List, ast.Tuple, ast.Set)):
                vals = [ev(e) for e in n.elts]
                return (
                    vals
                    if isinstance(n, ast.List)
                    else tuple(vals)
                    if isinstance(n, ast.Tuple)
                    else set(vals)
                )
            if isinstance(n, ast.Dict):
                return {ev(k): ev(v) for k, v in zip(n.keys, n.values)}
            if isinstance(n, ast.BinOp):
                l, r = ev(n.left), ev(n.right)
                if isinstance(n.op, ast.Add):
                    return l + r
                if isinstance(n.op, ast.Sub):
                    return l - r
                if isinstance(n.op, ast.Mult):
                    return l * r
                if isinstance(n.op, ast.RShift):
                    return l >> r
                if isinstance(n.op, ast.LShift):
                    return l << r
                if isinstance(n.op, ast.BitOr):
                    return l | r
                if isinstance(n.op, ast.BitAnd):
                    return l & r
            if isinstance(n, ast.UnaryOp) and isinstance(n.op, ast.USub):
                return -ev(n.operand)
            if isinstance(n, ast.Attribute):
                d = dotted(n)
                if d and d in env:
                    return env[d]
                # enum member reference: keep symbolic as dotted tail 'Enum.MEMBER'
                if d:
                    return EnumRef(".".join(d.split(".")[-2:]))
            if isinstance(n, ast.DictComp) and len(n.generators) == 1:
                g = n.generators[0]
                it = ev(g.iter)
                out = {}
                for x in it:
                    sub = dict(env)
                    _bind(g.target, x, sub)
                    if all(self.fold(c, sub) for c in g.ifs):
                        out[self.fold(n.key, sub)] = self.fold(n.value, sub)
                return out
            if isinstance(n, ast.Call):
                f = n.func
                if isinstance(f, ast.Attribute) and f.attr in ("lower", "upper") and not n.args:
                    v = ev(f.value)
                    return getattr(v, f.attr)()
            if isinstance(n, ast.JoinedStr):
                s = ""
                for v in n.values:
                    if isinstance(v, ast.Constant):
                        s += v.value
                    else:
                        s += str(ev(v.value))
                return s
            raise AnalysisError(f"cannot fold {unparse(n)[:80]}")

        return ev(node)

    def enum_members(self, rel, qualname) -> Dict[str, object]:
        """{member name: folded value} of an Enum-like class body."""
        ci = self.cls(rel, qualname)
        out = {}
        for st in ci.node.body:
            if isinstance(st, ast.Assign) and len(st.targets) == 1 and isinstance(st.targets[0], ast.Name):
                try:
                    out[st.targets[0].id] = self.fold(st.value, dict(out))
                except AnalysisError:
                    pass
        return out


class EnumRef(str):
    """Symbolic `Enum.MEMBER` (last two dotted parts) produced by Model.fold."""

    @property
    def member(self):
        return self.split(".")[-1]

    @property
    def enum(self):
        return self.split(".")[0]


def _bind(target, value, env):
    if isinstance(target, ast.Name):
        env[target.id] = value
    elif isinstance(target, (ast.Tuple, ast.List)):
        for t, v in zip(target.elts, value):
            _bind(t, v, env)


def find_assign(func: ast.AST, name: str) -> List[ast.AST]:
    """All values assigned to local `name` inside func (not nested defs)."""
    out = []
    for n in walk_no_nested(func):
        if isinstance(n, ast.Assign):
            for t in n.targets:
                if isinstance(t, ast.Name) and t.id == name:
                    out.append((n.lineno, n.col_offset, n.value))
        elif isinstance(n, ast.AnnAssign) and isinstance(n.target, ast.Name) and n.target.id == name and n.value is not None:
            out.append((n.lineno, n.col_offset, n.value))
    out.sort(key=lambda t: (t[0], t[1]))  # source order: [0] is the first, [-1] the last assignment
    return [v for _, _, v in out]


def stmt_key(node) -> str:
    """Layout-independent identity of a statement/expression."""
    s = unparse(node)
    return " ".join(s.split())[:160]
