"""E3: class hierarchy and visitor-dispatch resolver.

Re-implements, as a table, what `Visitor.v_Generic` does at run time: for
visitor class V and node class N the handler is the first `v_<B>` with B in
MRO(N) (stopping at `object`) that V or one of its bases defines, else
`v_Default` as resolved in MRO(V)."""
from __future__ import annotations

import ast
from typing import Dict, List, Optional, Tuple

from .model import AnalysisError, AnchorMissing, ClassInfo, Model, dotted, last_attr, unparse, mangle

VISITOR = "nsl/Visitor.py"
AST = "nsl/ast/__init__.py"
IR = "nsl/LinearIR.py"


def check_generic_shape(model: Model) -> List[str]:
    """The dispatch model is only valid while Visitor.v_Generic has the shape it
    models.  Returns a list of problems (empty = ok)."""
    f0 = model.cls(VISITOR, "Visitor").own_method("v_Generic")
    # the walk over the MRO / the building of handler names may sit in a module-level helper of Visitor.py that v_Generic calls
    # (e.g. a per-class memo of the name list): the shape is read over v_Generic and those helpers together
    fi = model.file(VISITOR)
    helpers = [fn for nm, fn in fi.functions.items() if any(isinstance(c, ast.Call) and isinstance(c.func, ast.Name) and c.func.id == nm for c in ast.walk(f0))]
    f = ast.Module(body=[f0] + helpers, type_ignores=[])
    src = unparse(f)
    problems = []
    if "getmro" not in src:
        problems.append("v_Generic no longer walks inspect.getmro(obj.__class__)")
    fmt = [n for n in ast.walk(f) if isinstance(n, ast.Call) and last_attr(n) == "format"
           and isinstance(n.func, ast.Attribute) and isinstance(n.func.value, ast.Constant)]
    if not any(c.func.value.value == "v_{}" for c in fmt) and "f'v_{" not in src and 'f"v_{' not in src:
        problems.append("v_Generic no longer builds the handler name 'v_<ClassName>'")
    if "hasattr" not in src or "getattr" not in src:
        problems.append("v_Generic no longer looks handlers up with hasattr/getattr")
    if not any(isinstance(n, ast.Attribute) and n.attr == "v_Default" for n in ast.walk(f)):
        problems.append("v_Generic no longer falls back to v_Default")
    return problems


class Dispatch:
    def __init__(self, model: Model):
        self.model = model
        probs = check_generic_shape(model)
        if probs:
            raise AnalysisError("dispatch model invalid: " + "; ".join(probs))
        self.visitor_base = model.cls(VISITOR, "Visitor")
        self.default_visitor = model.cls(VISITOR, "DefaultVisitor")
        self.node_base = model.cls(VISITOR, "Node")
        self.ast_node = model.cls(AST, "Node")
        self.instruction = model.cls(IR, "Instruction")

    def ast_classes(self) -> List[ClassInfo]:
        return self.model.subclasses(self.ast_node)

    def ir_instruction_classes(self, concrete_only=True) -> List[ClassInfo]:
        out = self.model.subclasses(self.instruction, strict=True)
        if concrete_only:
            out = [c for c in out if not c.name.startswith("_")]
        return out

    def overrides_generic(self, visitor: ClassInfo) -> bool:
        r = visitor.find_method("v_Generic")
        return r is not None and r[0] is not self.visitor_base

    def resolve(self, visitor: ClassInfo, node: ClassInfo) -> Tuple[str, ClassInfo, ast.FunctionDef, Optional[ClassInfo]]:
        """-> (kind, owner class of handler, handler def, matched base class)
        kind 'explicit' | 'default'"""
        for base in node.mro:
            r = visitor.find_method("v_" + base.name)
            if r is not None:
                return "explicit", r[0], r[1], base
        r = visitor.find_method("v_Default")
        if r is None:
            raise AnchorMissing(f"{visitor} has no v_Default")
        return "default", r[0], r[1], None

    def default_traverses(self, visitor: ClassInfo) -> bool:
        """Does the visitor's resolved v_Default traverse children
        (calls obj.AcceptVisitor)?"""
        r = visitor.find_method("v_Default")
        if r is None:
            return False
        return any(isinstance(n, ast.Call) and last_attr(n) == "AcceptVisitor" for n in ast.walk(r[1]))

    def default_raises(self, visitor: ClassInfo) -> bool:
        r = visitor.find_method("v_Default")
        if r is None:
            return False
        body = [s for s in r[1].body if not (isinstance(s, ast.Expr) and isinstance(s.value, ast.Constant))]
        return any(isinstance(n, ast.Raise) for s in body for n in ast.walk(s)) or any(
            isinstance(n, ast.Call) and last_attr(n) == "Raise" for s in body for n in ast.walk(s)
        )

    # ------------------------------------------------------------------
    def traversed_fields(self, cls: ClassInfo) -> List[Tuple[str, Optional[str]]]:
        """Fields `_Traverse` hands to the traversal function, in order:
        [(mangled attribute name, guard text or None)]."""
        r = cls.find_method("_Traverse")
        if r is None:
            return []
        owner, f = r
        if len(f.args.args) < 2:
            return []
        fn = f.args.args[1].arg
        out = []

        def go(body, guard):
            for st in body:
                if isinstance(st, ast.If):
                    go(st.body, unparse(st.test))
                    go(st.orelse, "not " + unparse(st.test))
                    continue
                for n in ast.walk(st):
                    if isinstance(n, ast.Call) and isinstance(n.func, ast.Name) and n.func.id == fn and n.args:
                        a = n.args[0]
                        if isinstance(a, ast.Attribute) and isinstance(a.value, ast.Name) and a.value.id == f.args.args[0].arg:
                            out.append((mangle(owner.name, a.attr), guard))

        go(f.body, None)
        return out

    def node_fields(self, cls: ClassInfo) -> Dict[str, ast.AST]:
        """Constructor-initialised attributes of a node class (mangled name ->
        value expression), over the MRO."""
        out = {}
        for c in reversed(cls.mro):
            init = c.methods.get("__init__")
            if init is None:
                continue
            selfn = init.args.args[0].arg
            for n in ast.walk(init):
                tgt = None
                if isinstance(n, ast.Assign):
                    for t in n.targets:
                        if isinstance(t, ast.Attribute) and isinstance(t.value, ast.Name) and t.value.id == selfn:
                            out[mangle(c.name, t.attr)] = n.value
                elif isinstance(n, ast.AnnAssign):
                    t = n.target
                    if isinstance(t, ast.Attribute) and isinstance(t.value, ast.Name) and t.value.id == selfn and n.value is not None:
                        out[mangle(c.name, t.attr)] = n.value
        return out


def handler_traversal(handler: ast.FunctionDef) -> dict:
    """How a v_<X>(self, node, ctx) handler continues the traversal.
    {'accept_all': bool, 'visits': [expr text of visited sub-expressions], 'returns_early_paths': ...}"""
    if len(handler.args.args) < 2:
        return {"accept_all": False, "visits": []}
    nodep = handler.args.args[1].arg
    accept_all = False
    visits = []
    for n in ast.walk(handler):
        if isinstance(n, ast.Call):
            la = last_attr(n)
            if la == "AcceptVisitor" and isinstance(n.func, ast.Attribute):
                recv = n.func.value
                if isinstance(recv, ast.Name) and recv.id == nodep:
                    accept_all = True
                else:
                    visits.append(unparse(recv))
            elif la in ("v_Visit", "v_Generic", "Visit") and n.args:
                visits.append(unparse(n.args[0]))
    return {"accept_all": accept_all, "visits": visits}
