"""Contracts of the shared infrastructure every pass relies on (nsl/Visitor.py,
nsl/Pass.py, nsl/Errors.py, nsl/ast base classes, nsl/op.py).  The per-property
rule sets reason about handlers *assuming* this machinery: dispatch picks the
handler of the most specific class on the visitor that was asked, a pass runs
on its own visitor and returns its verdict, an error raised inside a recovery
region is logged and reported to the region's callback, a traversal visits
every child and stores rewritten children back.  A change that breaks one of
these breaks every property built on top, without touching any anchor."""
from __future__ import annotations

import ast

from .model import AnalysisError, AnchorMissing, Model, dotted, last_attr, unparse
from .paths import paths, calls_on_path, cond_atoms
from .state import is_mutable_literal

VISITOR = "nsl/Visitor.py"
PASS = "nsl/Pass.py"
ERRORS = "nsl/Errors.py"
ASTF = "nsl/ast/__init__.py"
OP = "nsl/op.py"


def _const_fold(t):
    return bool(t.value) if isinstance(t, ast.Constant) else None


def check_visitor_core(model: Model, col, rule: str):
    """Dispatch is a pure function of (visitor object, node class); default traversal does not disturb the visitor's state."""
    vis = model.cls(VISITOR, "Visitor")
    dv = model.cls(VISITOR, "DefaultVisitor")
    fi = model.file(VISITOR)
    # (a) no class- or module-level container that handlers / lookups could be cached in
    shared = [f"{c.name}.{k}" for c in (vis, dv) for k, v in c.class_attrs.items() if is_mutable_literal(v)] + \
             [k for k, v in fi.assigns.items() if is_mutable_literal(v)]
    col.check(not shared, rule, f"{VISITOR}::Visitor has no shared dispatch state", "no class- or module-level container",
              f"{shared} is shared by all visitor objects of the process: a handler (bound method) or verdict remembered there belongs to the visitor of an earlier compilation", VISITOR, vis.node)
    # (a2) the base classes define the generic entry points only: a handler for a node class there is found through the MRO of
    # every node below that class before any visitor's own v_Default is tried
    base_handlers = [f"{c.name}.{k}" for c in (vis, dv) for k in c.methods if k.startswith("v_") and k not in ("v_Generic", "v_Visit", "v_Default")]
    col.check(not base_handlers, rule, f"{VISITOR}::Visitor/DefaultVisitor define no class handlers", "only v_Generic / v_Visit / v_Default",
              f"{base_handlers} is inherited by every visitor and matches every node derived from that class: visitors that rely on their own v_Default "
              "(to refuse what they do not support, or to do per-node work) never reach it", VISITOR, dv.node)
    vg = vis.own_method("v_Generic")
    selfn = vg.args.args[0].arg
    # (b) the handler is looked up on self, by the name built from the class being tried, and called with (obj, ctx)
    gets = [c for c in ast.walk(vg) if isinstance(c, ast.Call) and dotted(c.func) == "getattr"]
    on_self = bool(gets) and all(len(c.args) >= 2 and unparse(c.args[0]) == selfn for c in gets)
    col.check(on_self, rule, f"{VISITOR}::Visitor.v_Generic looks handlers up on self", "getattr(self, 'v_<Class>')",
              "the handler is not looked up on the visitor that was asked to visit", VISITOR, vg)
    loops = [n for n in ast.walk(vg) if isinstance(n, ast.For)]
    first_hit = False
    for lp in loops:
        for evs, status in paths(lp.body, loop_iters=(1,)):
            atoms = cond_atoms(evs)
            if any(k.startswith(f"hasattr({selfn},") and v is True for k, v in atoms.items()):
                first_hit = first_hit or status in ("return", "break") or any(e.kind == "break" for e in evs)
    # (`next(<generator over the MRO names ... if hasattr(self, n)>, default)` takes the first match by construction)
    first_hit = first_hit or any(isinstance(c, ast.Call) and isinstance(c.func, ast.Name) and c.func.id == "next" and c.args and isinstance(c.args[0], ast.GeneratorExp)
                                 and any(f"hasattr({selfn}," in unparse(i) for g in c.args[0].generators for i in g.ifs) for c in ast.walk(vg))
    col.check(first_hit, rule, f"{VISITOR}::Visitor.v_Generic first match wins", "the first class of the MRO that has a handler decides (the loop returns there)",
              "a matching handler does not end the search: a more general handler overrides the specific one", VISITOR, vg)
    fallback = [c for c in ast.walk(vg) if isinstance(c, ast.Attribute) and c.attr == "v_Default"]
    col.check(bool(fallback) and all(not any(id(c) == id(x) for lp in loops for x in ast.walk(lp)) for c in fallback), rule, f"{VISITOR}::Visitor.v_Generic falls back to v_Default",
              "v_Default is used only after the whole MRO was tried", "the default handler is not the fallback after the MRO walk", VISITOR, vg)
    # every exit of v_Generic hands back what the handler (or the default handler) returned: passes that rewrite the tree
    # replace a child by that value, lowering uses it as the child's IR value (None = "no value")
    bad_ret = []
    for r in [n for n in ast.walk(vg) if isinstance(n, ast.Return)]:
        v = r.value
        srcs = [v]
        if isinstance(v, ast.Name):
            srcs = [n.value for n in ast.walk(vg) if isinstance(n, ast.Assign) and any(isinstance(t, ast.Name) and t.id == v.id for t in n.targets)]
        if not srcs or not all(isinstance(s, ast.Call) and (last_attr(s) == "v_Default" or isinstance(s.func, ast.Name) or last_attr(s) in ("func", "handler")) for s in srcs):
            bad_ret.append(unparse(r))
    col.check(not bad_ret, rule, f"{VISITOR}::Visitor.v_Generic returns the handler's result", "return <result of the handler call>",
              f"`{bad_ret[0] if bad_ret else ''}` does not return what the (default) handler returned: a node without a handler is reported as its own replacement / value "
              "(an absent for-condition becomes a branch predicate)", VISITOR, vg)
    # OnEnter / OnLeave bracket every visit on every exit (lowering keeps its assignment-context stack in these hooks)
    unbalanced = []
    for evs, status in paths(vg.body, fold=_const_fold):
        if status == "raise":
            continue
        seq = [last_attr(c) for c in calls_on_path(evs) if last_attr(c) in ("OnEnter", "OnLeave")]
        if seq != ["OnEnter", "OnLeave"]:
            unbalanced.append(seq)
    col.check(not unbalanced, rule, f"{VISITOR}::Visitor.v_Generic brackets every visit with OnEnter/OnLeave", "OnEnter once, OnLeave once on every returning path",
              f"a returning path of v_Generic calls {unbalanced[0] if unbalanced else ''}: a visitor that keeps a stack in these hooks (lowering's assignment context) gets out of step after such a node", VISITOR, vg)
    # (c) what default traversal re-initialises is nothing a visitor accumulates
    vd = dv.own_method("v_Default")
    guard =[n for n in ast.walk(vd) if isinstance(n, ast.If) and "hasattr" in unparse(n.test) and "AcceptVisitor" in unparse(n.test)]
    col.check(bool(guard) and all(any(isinstance(c, ast.Call) and last_attr(c) == "AcceptVisitor" for s in g.body for c in ast.walk(s)) for g in guard), rule,
              f"{VISITOR}::DefaultVisitor.v_Default only traverses traversable objects", "guarded by hasattr(obj, 'AcceptVisitor')",
              "default traversal calls AcceptVisitor on whatever it is given: an absent child (None: the empty init clause of a for loop) raises AttributeError", VISITOR, vd)
    reinit = any(isinstance(c, ast.Call) and last_attr(c) == "__init__" for c in ast.walk(vd))
    base_fields = {n.targets[0].attr for m in (vis.own_method("__init__"),) for n in ast.walk(m)
                   if isinstance(n, ast.Assign) and isinstance(n.targets[0], ast.Attribute) and isinstance(n.targets[0].value, ast.Name) and n.targets[0].value.id == m.args.args[0].arg}
    if reinit:
        clobbered = {}
        for ci in model.subclasses(vis, strict=True):
            for mname, m in ci.methods.items():
                for n in ast.walk(m):
                    if isinstance(n, (ast.Assign, ast.AugAssign)):
                        for t in (n.targets if isinstance(n, ast.Assign) else [n.target]):
                            if isinstance(t, ast.Attribute) and isinstance(t.value, ast.Name) and m.args.args and t.value.id == m.args.args[0].arg and t.attr in base_fields and t.attr != "errorHandler":
                                clobbered.setdefault(t.attr, set()).add(f"{ci.name}.{mname}")
        col.check(not clobbered, rule, f"{VISITOR}::DefaultVisitor.v_Default re-initialisation is harmless", f"Visitor.__init__ (re-run at every default-visited node) only sets {sorted(base_fields)}",
                  f"DefaultVisitor.v_Default re-runs Visitor.__init__, which assigns {sorted(clobbered)} - fields that {sorted(x for v in clobbered.values() for x in v)[:4]} use as their own state "
                  "(e.g. the verdict flag): every default-visited node resets them, so only the last part of a program decides", VISITOR, vd)
    trav = [c for c in ast.walk(vd) if isinstance(c, ast.Call) and last_attr(c) == "AcceptVisitor"]
    col.check(bool(trav) and unparse(trav[0].args[0]) == vd.args.args[0].arg if trav and trav[0].args else False, rule, f"{VISITOR}::DefaultVisitor.v_Default traverses with the same visitor",
              "obj.AcceptVisitor(self, ctx)", "default traversal does not continue with this visitor", VISITOR, vd)
    # (d) Node.AcceptVisitor / ForEachChild reach every child through v_Generic
    node = model.cls(VISITOR, "Node")
    av = node.own_method("AcceptVisitor")
    inner_calls = [c for c in ast.walk(av) if isinstance(c, ast.Call) and last_attr(c) in ("v_Generic", "v_Visit")]
    fec = [c for c in ast.walk(av) if isinstance(c, ast.Call) and last_attr(c) == "ForEachChild"]
    conds = [n for n in ast.walk(av) if isinstance(n, (ast.If, ast.IfExp, ast.Return)) and not any(n is x for d in ast.walk(av) if isinstance(d, ast.FunctionDef) and d is not av for x in ast.walk(d))]
    col.check(bool(inner_calls) and bool(fec) and not conds, rule, f"{VISITOR}::Node.AcceptVisitor visits every child", "every child goes through visitor.v_Generic, unconditionally",
              "Node.AcceptVisitor no longer hands every child to the visitor", VISITOR, av)
    # no AST / IR class overrides AcceptVisitor in a way that can skip children
    for rel in (ASTF, "nsl/LinearIR.py"):
        for ci in model.classes.values():
            if ci.file != rel or "AcceptVisitor" not in ci.methods:
                continue
            m = ci.methods["AcceptVisitor"]
            exits = [n for n in ast.walk(m) if isinstance(n, ast.Return)]
            sup = [c for c in ast.walk(m) if isinstance(c, ast.Call) and last_attr(c) == "AcceptVisitor" and isinstance(c.func, ast.Attribute) and "super" in unparse(c.func.value)]
            always = bool(sup) and all(any(last_attr(c) == "AcceptVisitor" and isinstance(c.func, ast.Attribute) and "super" in unparse(c.func.value) for c in calls_on_path(evs))
                                       for evs, status in paths(m.body, fold=_const_fold) if status != "raise")
            col.check(always, rule, f"{rel}::{ci.name}.AcceptVisitor override traverses", "delegates to the base traversal on every path",
                      f"{ci.name}.AcceptVisitor can return without traversing (`{unparse(exits[0]) if exits else ''}` under a condition): nodes below such a node are never validated, typed or rewritten", rel, m)


def check_pass_process(model: Model, col, rule: str):
    """A visitor pass visits the root with its own visitor, lets compile errors escape, and answers with its validator."""
    f = model.func(PASS, "MakePassFromVisitor")
    proc = next((n for n in ast.walk(f) if isinstance(n, ast.FunctionDef) and n.name == "Process"), None)
    if proc is None:
        raise AnchorMissing(f"{PASS}::MakePassFromVisitor.VisitorPass.Process")
    visits = [c for c in ast.walk(proc) if isinstance(c, ast.Call) and last_attr(c) == "Visit"]
    vals = [c for c in ast.walk(proc) if isinstance(c, ast.Call) and isinstance(c.func, ast.Name) and c.func.id == "validator"]
    def _origin(e):
        # a local bound once to a plain field read stands for that field
        for _ in range(4):
            if not isinstance(e, ast.Name):
                break
            binds = [a for a in ast.walk(proc) if isinstance(a, (ast.Assign, ast.AugAssign, ast.AnnAssign, ast.For, ast.With, ast.NamedExpr))
                     for t in ast.walk(a) if isinstance(t, ast.Name) and isinstance(t.ctx, ast.Store) and t.id == e.id]
            if len(binds) != 1 or not isinstance(binds[0], ast.Assign) or len(binds[0].targets) != 1 or not isinstance(binds[0].targets[0], ast.Name) \
                    or not isinstance(binds[0].value, (ast.Name, ast.Attribute)):
                break
            e = binds[0].value
        return unparse(e)

    recv = _origin(visits[0].func.value) if visits else None
    same = bool(visits) and bool(vals) and all(len(c.args) == 1 and _origin(c.args[0]) == recv for c in vals) and recv is not None and recv.startswith(proc.args.args[0].arg + ".")
    copies = [unparse(c)[:40] for c in ast.walk(f) if isinstance(c, ast.Call) and (dotted(c.func) or "").startswith("copy.")]
    col.check(same and not copies, rule, f"{PASS}::MakePassFromVisitor.Process one visitor object", f"the object that visits ({recv}) is the object the validator is asked about",
              f"the visit runs on `{recv}` but the verdict is read from {[unparse(c.args[0]) for c in vals if c.args]} (copies: {copies}): flags set during the visit are not seen by the validator", PASS, proc)
    # no early success before the validator was asked; no swallowing of compile errors around the visit
    early = 0
    total = 0
    for evs, status in paths(proc.body, fold=_const_fold):
        if status != "return":
            continue
        total += 1
        rv = evs[-1].node.value
        atoms = cond_atoms(evs)
        asked = any(isinstance(c.func, ast.Name) and c.func.id == "validator" for c in calls_on_path(evs))
        none_validator = atoms.get("validator is None") is True
        if not asked and not none_validator:
            early += 1
    col.check(total > 0 and early == 0, rule, f"{PASS}::MakePassFromVisitor.Process always asks the validator", "every return is validator(visitor), or True when no validator was given",
              "Process can return without asking the validator although one was given: a failed validation does not stop the compilation", PASS, proc)
    wrapped = [n for n in ast.walk(proc) if isinstance(n, (ast.With, ast.Try)) and any(x is visits[0] for x in ast.walk(n))] if visits else []
    col.check(not wrapped, rule, f"{PASS}::MakePassFromVisitor.Process lets errors escape", "visitor.Visit(root) is not inside a with / try",
              "the visit runs inside a recovery region: an error raised by a pass that has no validator (lowering, code generation) is swallowed and a truncated module is returned as a success", PASS, proc)


def check_error_context(model: Model, col, rule: str):
    """CompileExceptionToErrorHandler: every compile error inside the region is logged AND reported to the region's callback."""
    ctx = model.cls(ERRORS, "CompileExceptionToErrorHandler")
    ex = ctx.own_method("__exit__")
    fi = model.file(ERRORS)
    shared = [f"{c.name}.{k}" for c in model.classes.values() if c.file == ERRORS for k, v in c.class_attrs.items() if is_mutable_literal(v)] + [k for k, v in fi.assigns.items() if is_mutable_literal(v)]
    col.check(not shared, rule, f"{ERRORS}:: no shared state", "no class- or module-level container",
              f"{shared} lives for the whole process: what one compilation reported changes how the next one's errors are treated", ERRORS, ctx.node)
    cb_ok = False
    swallow_other = False
    n = 0
    for evs, status in paths(ex.body, fold=_const_fold):
        if status != "return":
            continue
        atoms = cond_atoms(evs)
        is_ce = next((v for k, v in atoms.items() if "CompileException" in k and k.startswith(("issubclass(", "isinstance("))), None)
        rv = evs[-1].node.value
        none_key = f"{ex.args.args[1].arg} is None"  # "no exception was raised" test on the exception-type parameter
        if is_ce is True:
            n += 1
            called = any(isinstance(c.func, ast.Attribute) and "allback" in c.func.attr for c in calls_on_path(evs))
            has_cb = next((v for k, v in atoms.items() if "allback" in k), None)
            others = [k for k, v in atoms.items() if "allback" not in k and "CompileException" not in k and none_key not in k]
            if has_cb is not False:
                cb_ok = called and not others
                if not cb_ok:
                    break
        elif is_ce is False and isinstance(rv, ast.Constant) and rv.value is True and atoms.get(none_key) is not True:
            swallow_other = True
    col.check(cb_ok and n > 0, rule, f"{ERRORS}::CompileExceptionToErrorHandler.__exit__ reports every compile error", "a CompileException is logged and the callback (if any) is called, unconditionally",
              "a CompileException can be swallowed without calling the region's callback (extra condition on the path): the validator whose flag the callback clears accepts the program", ERRORS, ex)
    col.check(not swallow_other, rule, f"{ERRORS}::CompileExceptionToErrorHandler.__exit__ swallows compile errors only", "other exceptions propagate", "non-compile exceptions are swallowed", ERRORS, ex)


def check_ast_traversal(model: Model, col, rule: str):
    """Every `_Traverse` hands each child field to the callback and stores the result back (a pass that returns a new node
    replaces the child); ForEachChild maps the callback over sequences, sets and mappings."""
    n = 0
    for ci in model.classes.values():
        if ci.file not in (ASTF, "nsl/LinearIR.py") or "_Traverse" not in ci.methods:
            continue
        m = ci.methods["_Traverse"]
        if len(m.args.args) < 2:
            continue
        fn = m.args.args[1].arg
        calls = [c for c in ast.walk(m) if isinstance(c, ast.Call) and isinstance(c.func, ast.Name) and c.func.id == fn]
        if not calls:
            continue
        n += 1
        lost = []
        for c in calls:
            arg = unparse(c.args[0]) if c.args else "?"
            stored = any(isinstance(s, ast.Assign) and s.value is c and unparse(s.targets[0]) == arg for s in ast.walk(m))
            if not stored:
                # through a local that is bound once, to this call, and then stored into the field as it is
                # (`functions = function(self.__functions); <checks>; self.__functions = functions`)
                for s in ast.walk(m):
                    if isinstance(s, ast.Assign) and s.value is c and len(s.targets) == 1 and isinstance(s.targets[0], ast.Name):
                        loc = s.targets[0].id
                        binds = [x for x in ast.walk(m) if isinstance(x, ast.Name) and x.id == loc and isinstance(x.ctx, ast.Store)]
                        back = [x for x in m.body if isinstance(x, ast.Assign) and isinstance(x.value, ast.Name) and x.value.id == loc and unparse(x.targets[0]) == arg]
                        stored = len(binds) == 1 and len(back) == 1 and s in m.body and m.body.index(back[0]) > m.body.index(s)
            if not stored:
                lost.append(arg)
        col.check(not lost, rule, f"{ci.file}::{ci.name}._Traverse stores rewritten children", "self.<field> = function(self.<field>) for every traversed field",
                  f"the result of function({lost[0] if lost else ''}) is dropped: a pass that replaces a child of a {ci.name} (compound-assignment rewrite, implicit casts) has no effect there", ci.file, m)
    col.floor(rule, "_Traverse methods", n, 12)
    # a field that setters write by index (`self.children[0] = left`) or that _Traverse re-binds is the stored list itself:
    # a property of that name that hands out / stores a copy makes those writes land in a temporary
    nprop = 0
    for ci in model.classes.values():
        if ci.file not in (ASTF, "nsl/LinearIR.py"):
            continue
        written = set()
        for m in ci.methods.values():
            if not m.args.args:
                continue
            s = m.args.args[0].arg
            for x in ast.walk(m):
                tg = x.targets if isinstance(x, ast.Assign) else [x.target] if isinstance(x, ast.AugAssign) else []
                for t in tg:
                    if isinstance(t, ast.Subscript) and isinstance(t.value, ast.Attribute) and isinstance(t.value.value, ast.Name) and t.value.value.id == s:
                        written.add(t.value.attr)
                if isinstance(x, ast.Call) and isinstance(x.func, ast.Attribute) and x.func.attr in ("append", "extend", "insert", "add", "update", "remove", "pop") \
                        and isinstance(x.func.value, ast.Attribute) and isinstance(x.func.value.value, ast.Name) and x.func.value.value.id == s:
                    written.add(x.func.value.attr)
        for f in sorted(written):
            for c in ci.mro:
                g = next((b for b in c.node.body if isinstance(b, ast.FunctionDef) and b.name == f and any(unparse(d) == "property" for d in b.decorator_list)), None)
                if g is None:
                    continue
                nprop += 1
                rets = [r.value for r in ast.walk(g) if isinstance(r, ast.Return) and r.value is not None]
                raw = bool(rets) and all(isinstance(v, ast.Attribute) and isinstance(v.value, ast.Name) and v.value.id == g.args.args[0].arg for v in rets)
                col.check(raw, rule, f"{ci.file}::{ci.name}.{f} is the stored container", "the property returns the stored object itself",
                          f"`{f}` of {c.name} is a property returning `{unparse(rets[0]) if rets else None}`: `self.{f}[i] = x` / `self.{f}.append(x)` in {ci.name} change a temporary, so "
                          "replacing an operand (implicit cast, rewrite) or adding an element has no effect", ci.file, g)
    col.note("in-place written fields that are properties", nprop)


def check_op_enum(model: Model, col, rule: str):
    """Operation members are distinct values (an equal value makes the second name an alias of the first) and the operator
    spelling table is injective."""
    cls = model.cls(OP, "Operation")
    vals = {}
    for k, v in cls.class_attrs.items():
        if isinstance(v, ast.Constant) and isinstance(v.value, int):
            vals.setdefault(v.value, []).append(k)
    dup = {v: ks for v, ks in vals.items() if len(ks) > 1}
    col.check(not dup and len(vals) >= 20, rule, f"{OP}::Operation values are distinct", f"{len(vals)} members, no aliases",
              f"members {dup} share a value: in a Python Enum the later name is an alias of the earlier member, so both operators are one (printed and compared as the first)", OP, cls.node)
    tbl = model.module_assign(OP, "_op_str_map")
    if isinstance(tbl, ast.Dict):
        targets = [unparse(v) for v in tbl.values]
        dupt = sorted({t for t in targets if targets.count(t) > 1})
        col.check(not dupt, rule, f"{OP}::_op_str_map is injective", "every spelling has its own operation", f"several spellings map to {dupt}: the operators are indistinguishable after parsing", OP, tbl)
    sel, want, ic = comparison_members(model)
    col.check(sorted(sel) == want and len(want) == 6, rule, f"{OP}::IsComparison over the Operation enum", f"selects exactly {want}",
              f"IsComparison selects {sorted(sel)}; the comparison operations are {want}: "
              + (f"{sorted(set(want) - set(sel))} are typed as arithmetic (result = operand type instead of int)" if set(want) - set(sel) else f"{sorted(set(sel) - set(want))} are typed as comparisons"), OP, ic)


def comparison_members(model: Model):
    """IsComparison folded (by miniev, nothing of the repository runs) over every member of the Operation enum."""
    from .miniev import CannotEval, run_pure

    ops = model.enum_members(OP, "Operation")
    ic = model.func(OP, "IsComparison")
    pname = ic.args.args[0].arg
    consts = {f"Operation.{n_}.value": v_ for n_, v_ in ops.items()}
    consts.update({f"Operation.{n_}": f"<{n_}>" for n_ in ops})
    # named bounds at module level (`_COMPARISON_VALUE_BEGIN = 200`)
    consts.update({k_: v_.value for k_, v_ in model.file(OP).assigns.items() if isinstance(v_, ast.Constant) and isinstance(v_.value, (int, str))})
    sel = []
    for name, val in ops.items():
        try:
            if run_pure(ic, (), extra={pname: f"<{name}>", f"{pname}.value": val, f"{pname}.name": name, **consts}):
                sel.append(name)
        except CannotEval as e:
            raise AnalysisError(f"{OP}::IsComparison cannot be folded: {e}")
    return sel, sorted(n for n in ops if n.startswith("CMP_")), ic


INFRA_FILES = (VISITOR, PASS, ERRORS, ASTF, OP, "nsl/Compiler.py", "nsl/Utility.py")


def swallowing_handlers(tree):
    """except-clauses that can complete without raising: whatever went wrong below them is turned into "nothing happened"."""
    out = []
    for t in ast.walk(tree):
        if not isinstance(t, ast.Try):
            continue
        for h in t.handlers:
            if any(status != "raise" for evs, status in paths(h.body, fold=_const_fold)):
                out.append(h)
    return out


def check_no_swallow(model: Model, col, rule: str):
    """The shared machinery never turns a failure into silence: no except-clause in it completes without re-raising, and
    ErrorMessage.Raise raises on every path (every `X.Raise(..)` in the passes is written as the end of its path)."""
    probe = ast.parse("def f(v, c):\n    try:\n        return v.g(c)\n    except RuntimeError:\n        return None\n")
    if len(swallowing_handlers(probe)) != 1:
        raise AnalysisError("infra: the swallowing-handler detector does not fire on its positive example")
    n = 0
    for rel in INFRA_FILES:
        if rel not in model.files:
            raise AnchorMissing(rel)
    # the shared files and every pass: handlers inside functions (a module-level import fallback is not a compilation step)
    for rel in sorted(r for r in model.files if r in INFRA_FILES or r.startswith("nsl/passes/") or r in ("nsl/LinearIR.py", "nsl/types.py")):
        fi = model.files[rel]
        n += 1
        hs = [h for f_ in ast.walk(fi.tree) if isinstance(f_, ast.FunctionDef) for h in swallowing_handlers(f_)]
        col.check(not hs, rule, f"{rel}:: no except-clause completes without raising", "no swallowing handler",
                  f"`except {unparse(hs[0].type) if hs and hs[0].type is not None else ''}` at line {hs[0].lineno if hs else 0} can complete without raising: a failure inside a handler, traversal or pass "
                  "(an unsupported construct, an internal error) is dropped and the partial result is handed on as if it were complete", rel, hs[0] if hs else fi.tree)
    em = model.cls(ERRORS, "ErrorMessage")
    rz = em.own_method("Raise")
    if rz is None:
        raise AnchorMissing(f"{ERRORS}::ErrorMessage.Raise")
    exits = [status for evs, status in paths(rz.body, fold=_const_fold)]
    col.check(bool(exits) and all(s == "raise" for s in exits), rule, f"{ERRORS}::ErrorMessage.Raise always raises", "every path ends in `raise CompileException(..)`",
              "ErrorMessage.Raise can return: the code after every `.Raise(..)` in the passes (written as unreachable) runs, e.g. FindFunction falls through and binds the first of two equally good overloads", ERRORS, rz)
    ce = model.cls(ERRORS, "CompileException")
    col.check(any(b.name in ("Exception", "BaseException") for b in ce.mro) or any("Exception" in unparse(b) for b in ce.node.bases), rule, f"{ERRORS}::CompileException is an exception", "derives from Exception", None, ERRORS, ce.node)


# the passes of the pinned tree, confirmed by reading nsl/Compiler.py: each one that still exists as a file must be scheduled
SCHEDULED_PASSES = {
    "AddImplicitCasts": "inserts the conversions the type rules imply", "ComputeTypes": "types every expression; registers functions",
    "DebugAst": "dump", "DebugTypes": "dump", "GenerateWasm": "wasm back end", "LowerToIR": "AST -> IR",
    "OptimizeConstantCasts": "optimisation", "OptimizeLoadAfterStore": "optimisation", "PrettyPrint": "dump", "PrintLinearIR": "dump",
    "RewriteAssignEqualOperations": "a op= b -> a = a op b", "RewriteFunctionArgAccess": "argument names -> indices (VM and wasm rely on it)",
    "UpdateLocations": "source ranges of composites", "ValidateArrayAccessType": "validator", "ValidateArrayOutOfBoundsAccess": "validator",
    "ValidateExportedFunctions": "validator", "ValidateFlowStatements": "validator", "ValidateSwizzle": "validator", "ValidateVariableNames": "validator",
}
ONE_SHOT = ("enumerate", "iter", "reversed", "zip", "map", "filter")


def one_shot_fields(cls_node: ast.ClassDef):
    """[(field, maker, node)]: `self.f = map(..)/filter(..)/(x for ..)/..` - an iterator that is empty after its first use."""
    out = []
    for m in cls_node.body:
        if not isinstance(m, ast.FunctionDef) or not m.args.args:
            continue
        s = m.args.args[0].arg
        for n in ast.walk(m):
            if isinstance(n, ast.Assign) and isinstance(n.targets[0], ast.Attribute) and isinstance(n.targets[0].value, ast.Name) and n.targets[0].value.id == s:
                for v in ast.walk(n.value) if isinstance(n.value, ast.IfExp) else [n.value]:
                    if isinstance(v, ast.GeneratorExp) or (isinstance(v, ast.Call) and isinstance(v.func, ast.Name) and v.func.id in ONE_SHOT):
                        out.append((n.targets[0].attr, "generator" if isinstance(v, ast.GeneratorExp) else v.func.id, n))
    return out


def check_pipeline(model: Model, col, rule: str):
    """The driver runs every pass, over the whole pass lists, on every compilation, and leaves itself unchanged."""
    from .pipeline import Pipeline, COMPILER
    from .sem import local_env, resolve

    probe = ast.parse("class K:\n    def __init__(self, a):\n        self.a = map(int, a) if a else None\n").body[0]
    if len(one_shot_fields(probe)) != 1:
        raise AnalysisError("infra: the one-shot-iterator detector does not fire on its positive example")
    pipe = Pipeline(model)
    comp = pipe.compile
    selfn = comp.args.args[0].arg
    shots = [(a, mk) for a, mk, _ in pipe.oneshot] + [(f, mk) for f, mk, _ in one_shot_fields(pipe.cls.node)]
    col.check(not shots, rule, f"{COMPILER}::Compiler keeps its pass lists as lists", "no one-shot iterator is stored on the compiler",
              f"{shots} is an iterator: the first Compile on a Compiler consumes it, every later Compile on the same object runs no pass of that list "
              "(nothing is typed, validated or rewritten the second time)", COMPILER, pipe.cls.node)
    # every pass of the pinned tree is scheduled: in a pass list or created in Compile
    # (Compile and the private methods of the compiler it calls - a lowering or wasm step extracted into a helper with early exits)
    reach = [comp]
    for _ in range(2):
        for nm_, m_ in pipe.cls.methods.items():
            if m_ not in reach and nm_ not in ("__init__", "Compile") and any(isinstance(c, ast.Call) and last_attr(c) in (nm_, "__" + nm_.split("__")[-1]) for f_ in reach for c in ast.walk(f_)):
                reach.append(m_)
    made = set(pipe.ast_passes) | set(pipe.ir_passes) | {dotted(c.func.value).split(".")[-1] for f_ in reach for c in ast.walk(f_) if isinstance(c, ast.Call) and last_attr(c) == "GetPass"
                                                            and isinstance(c.func, ast.Attribute) and dotted(c.func.value)}
    init = pipe.cls.own_method("__init__")
    held = {dotted(c.func.value).split(".")[-1] for c in ast.walk(init) if isinstance(c, ast.Call) and last_attr(c) == "GetPass" and isinstance(c.func, ast.Attribute) and dotted(c.func.value)}
    n = 0
    for name, why in sorted(SCHEDULED_PASSES.items()):
        if pipe.pass_file(name) not in model.files:
            continue
        n += 1
        col.check(name in made, rule, f"{COMPILER}::Compiler schedules {name}", f"{name} ({why}) is in a pass list or created in Compile",
                  (f"{name} ({why}) is created once in Compiler.__init__, outside the pass lists: if Compile uses that object, its visitor (and what it accumulated: the module being "
                   "built, tables, flags) is carried from one compilation to the next" if name in held else
                   f"{name} ({why}) is no longer scheduled by the compiler: what it establishes or rejects is missing from every compilation"), COMPILER, init)
    col.floor(rule, "passes the compiler must schedule", n, 15)
    # Compile walks the whole lists: no slice / conditional selection of a part of a pass list, no rebinding of the lists
    env = local_env(comp, allow_impure=True)
    sliced = []
    for lp in [x for x in ast.walk(comp) if isinstance(x, (ast.For, ast.comprehension))]:
        it = resolve(lp.iter, env)
        if any(isinstance(a, ast.Attribute) and a.attr in ("astPasses", "irPasses") for a in ast.walk(it)):
            if any(isinstance(s_, ast.Subscript) and isinstance(s_.slice, ast.Slice) for s_ in ast.walk(it)):
                sliced.append(" ".join(unparse(it).split())[:80])
    col.check(not sliced, rule, f"{COMPILER}::Compile runs the whole pass lists", "no loop over a slice of astPasses / irPasses",
              f"Compile iterates `{sliced[0] if sliced else ''}`: passes outside the slice are skipped on that configuration", COMPILER, comp)
    writes = []
    for fn in (comp, pipe.runpass):
        if fn is None:
            continue
        s = fn.args.args[0].arg
        for x in ast.walk(fn):
            tg = x.targets if isinstance(x, ast.Assign) else [x.target] if isinstance(x, (ast.AugAssign, ast.AnnAssign)) else []
            for t in tg:
                b = t
                while isinstance(b, ast.Subscript):
                    b = b.value
                if isinstance(b, ast.Attribute) and isinstance(b.value, ast.Name) and b.value.id in (s, pipe.cls.name):
                    # only state a compilation also reads decides anything about the next one
                    read = any(isinstance(r, ast.Attribute) and r.attr == b.attr and isinstance(r.ctx, ast.Load) and isinstance(r.value, ast.Name) and r.value.id in (s, pipe.cls.name)
                               for f2 in (comp, pipe.runpass) if f2 is not None for r in ast.walk(f2))
                    if read:
                        writes.append(unparse(t))
            if isinstance(x, ast.Call) and isinstance(x.func, ast.Attribute) and x.func.attr in ("append", "extend", "remove", "pop", "clear", "sort", "reverse", "insert", "update", "setdefault") \
                    and isinstance(x.func.value, ast.Attribute) and isinstance(x.func.value.value, ast.Name) and x.func.value.value.id in (s, pipe.cls.name):
                writes.append(unparse(x.func))
    col.check(not writes, rule, f"{COMPILER}::Compile leaves the compiler unchanged", "Compile / __RunPass write no attribute of the compiler object or class",
              f"Compile writes {sorted(set(writes))}: what one compilation (its options, its source) did decides how the next one on the same Compiler - or in the same process - is compiled", COMPILER, comp)
    # a program is rejected only by a pass: every path of Compile that returns None has just seen a pass (a list pass through
    # __RunPass, lowering, the wasm step) report failure.  The per-property rules decide what the passes accept; a verdict
    # that comes from anywhere else in the driver is one nobody decided.
    from .paths import paths

    pass_calls = ("__RunPass", "_Compiler__RunPass", "Process")
    odd = []
    nrej = 0
    for evs, status in paths(comp.body, loop_iters=(1,)):
        if status != "return":
            continue
        rv = evs[-1].node.value
        if not (rv is None or (isinstance(rv, ast.Constant) and rv.value is None)):
            continue
        nrej += 1
        held = {}
        for e in evs:
            if e.kind == "stmt" and isinstance(e.node, ast.Assign) and len(e.node.targets) == 1 and isinstance(e.node.targets[0], ast.Name):
                held[e.node.targets[0].id] = e.node.value
        conds = [e for e in evs if e.kind == "cond"]
        last = conds[-1] if conds else None
        t = last.node if last is not None else None
        while isinstance(t, ast.UnaryOp) and isinstance(t.op, ast.Not):
            t = t.operand
        if isinstance(t, ast.Name) and t.id in held:
            t = held[t.id]
        ok = isinstance(t, ast.Call) and last_attr(t) in pass_calls
        if not ok and isinstance(last.node if last is not None else None, ast.Compare) and len(last.node.ops) == 1 and isinstance(last.node.ops[0], (ast.Is, ast.IsNot)) \
                and isinstance(last.node.left, ast.Name) and last.node.left.id in held:
            # `module = <helper>(..)` read in place: `if module is None: return None`.  The path on which the helper produced
            # a module and the test still holds is not a path of the program; on the other one the None stands for a pass
            # that failed earlier on the path
            bound = held[last.node.left.id]
            if not (isinstance(bound, ast.Constant) and bound.value is None):
                nrej -= 1
                continue

            def failed(e_):
                n_, v_ = e_.node, e_.val
                while isinstance(n_, ast.UnaryOp) and isinstance(n_.op, ast.Not):
                    n_, v_ = n_.operand, not v_
                if isinstance(n_, ast.Name) and n_.id in held:
                    n_ = held[n_.id]
                return isinstance(n_, ast.Call) and last_attr(n_) in pass_calls and not v_

            ok = any(failed(e_) for e_ in conds[:-1])
        if not ok:
            odd.append((evs[-1].node, " ".join(unparse(last.node).split())[:70] if last is not None else "<unconditionally>"))
    col.check(not odd, rule, f"{COMPILER}::Compile rejects only on a pass's verdict", f"{nrej} rejecting path(s), each directly behind a failed pass",
              (f"Compile returns None under `{odd[0][1]}`, which is not the result of a pass" if odd else "") + ": programs every pass accepts are rejected (or the decision moved out of the passes "
              "the rules decide)", COMPILER, odd[0][0] if odd else comp)
    col.floor(rule, "rejecting paths of Compile", nrej, 2)
