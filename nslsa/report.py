"""E10: obligations, violations, known findings, evidence and replay files."""
from __future__ import annotations

import hashlib
import json
import os
import time
from typing import List, Optional

VERIF = os.path.dirname(os.path.dirname(os.path.abspath(__file__)))
KNOWN_FILE = os.path.join(VERIF, "known_findings.json")


class Obligation:
    __slots__ = ("rule", "construct", "ok", "detail", "file", "line", "info")

    def __init__(self, rule, construct, ok, detail, file=None, line=None, info=False):
        self.rule = rule
        self.construct = construct
        self.ok = ok
        self.detail = detail
        self.file = file
        self.line = line
        self.info = info

    def as_dict(self):
        d = {"rule": self.rule, "construct": self.construct, "ok": self.ok, "detail": self.detail}
        if self.file:
            d["at"] = f"{self.file}:{self.line}" if self.line else self.file
        return d


class Collector:
    """Collects the obligations of one property check."""

    def __init__(self, prop: str):
        self.prop = prop
        self.obligations: List[Obligation] = []
        self.infos: List[str] = []
        self.analysed: dict = {}
        self.not_decided: str = ""
        self.floors: List[tuple] = []

    # -- obligations ----------------------------------------------------
    def ok(self, rule, construct, detail=""):
        self.obligations.append(Obligation(rule, construct, True, detail))

    def bad(self, rule, construct, detail, file=None, node=None, line=None):
        if node is not None and line is None:
            line = getattr(node, "lineno", None)
            if line is None and getattr(node, "body", None):
                line = getattr(node.body[0], "lineno", None)  # match_case has no position
        self.obligations.append(Obligation(rule, construct, False, detail, file, line))

    def check(self, cond, rule, construct, ok_detail, bad_detail=None, file=None, node=None):
        if cond:
            self.ok(rule, construct, ok_detail)
        else:
            self.bad(rule, construct, bad_detail or ("NOT: " + ok_detail), file, node)
        return bool(cond)

    def info(self, text):
        self.infos.append(text)

    def note(self, key, value):
        """What was analysed (functions, tables, states ...) for the evidence."""
        self.analysed[key] = value

    def floor(self, rule, what, count, minimum):
        """A rule that matches fewer instances than were confirmed by hand is
        vacuous: ANALYSIS-ERROR."""
        self.floors.append((rule, what, count, minimum))

    @property
    def violations(self) -> List[Obligation]:
        return [o for o in self.obligations if not o.ok]


def load_known():
    if not os.path.exists(KNOWN_FILE):
        return []
    with open(KNOWN_FILE) as f:
        return json.load(f).get("findings", [])


def match_known(known, prop, ob: Obligation):
    for k in known:
        if k.get("status") != "known":
            continue
        if k["property"] == prop and k["rule"] == ob.rule and k["construct"] == ob.construct:
            return k
    return None


def write_replay(prop, ob: Obligation) -> str:
    d = os.path.join(VERIF, "replay", prop)
    os.makedirs(d, exist_ok=True)
    h = hashlib.sha1((ob.rule + "|" + ob.construct).encode()).hexdigest()[:10]
    p = os.path.join(d, f"{ob.rule}-{h}.json")
    with open(p, "w") as f:
        json.dump(
            {
                "property": prop,
                "rule": ob.rule,
                "construct": ob.construct,
                "detail": ob.detail,
                "at": f"{ob.file}:{ob.line}" if ob.file else None,
                "how_to_replay": f"./check {prop} --replay {p}  (re-evaluates rule {ob.rule} on the current /repo tree and reports whether this construct still violates it)",
            },
            f,
            indent=1,
        )
    return p


def write_evidence(prop, tier, seed, level, coverage, assumptions, wall, nviol, path=None):
    os.makedirs(os.path.join(VERIF, "evidence"), exist_ok=True)
    path = path or os.path.join(VERIF, "evidence", f"{prop}.json")
    ev = {
        "property_id": prop,
        "tier": tier,
        "seed": seed,
        "level": level,
        "coverage": coverage,
        "assumptions": assumptions,
        "wall_s": round(wall, 3),
        "violations": nviol,
    }
    tmp = path + ".tmp"
    with open(tmp, "w") as f:
        json.dump(ev, f, indent=1, default=str)
    os.replace(tmp, path)
    return path
