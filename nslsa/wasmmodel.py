"""E8 (binary writer part): abstract interpretation of the `WriteTo`/`Encode`
methods of nsl/WebAssembly.py into emission terms.

A term is a list of items per output buffer:
  ('byte', text, const?)   WriteByte(buf, X)
  ('leb', text, signed?)   WriteInteger(buf, X[, signed])
  ('name', text)           WriteString(buf, s)
  ('u32', text) ('f32', text)
  ('bytes', text)          buf.write(X)
  ('sub', text)            X.WriteTo(buf)
  ('each', iter text, var, [items])
  ('if', cond text, [items], [items])
  ('ret-if', cond text)    early `return` under a condition
The writer functions are pure sequences of appends, so a syntax-directed walk
gives the exact byte grammar each one emits."""
from __future__ import annotations

import ast
from typing import Dict, List

from .model import AnalysisError, Model, dotted, last_attr, unparse

WA = "nsl/WebAssembly.py"
WRITERS = {"WriteByte": "byte", "WriteInteger": "leb", "WriteString": "name", "WriteU32": "u32", "WriteFloat": "f32", "WriteVec": "vec32"}


def norm(e) -> str:
    return " ".join(unparse(e).split())


class Terms:
    def __init__(self, model: Model, func: ast.FunctionDef, env: Dict[str, object] = None):
        self.model = model
        # a method is read with the private (static) helpers of its class in place (`self.__WriteTypeVector(output, types)`)
        owner = next((c for c in model.classes.values() if any(m is func for m in c.methods.values())), None)
        if owner is not None:
            from .sem import expand_helpers

            try:
                func = expand_helpers(model, owner, func, skip=("v_", "WriteTo", "Encode"))
            except Exception:
                pass
            # ... and with module-level helpers of the writer that are not its primitives (`_WriteSizePrefixed(out, payload)`)
            try:
                from .sem import expand_module_helpers

                func = expand_module_helpers(model, owner.file, func, skip=("v_", "Write", "Pack"))
            except Exception:
                pass
        self.func = func
        self.buffers: Dict[str, List[tuple]] = {}
        self.local_buffers = set()
        self.assign: Dict[str, ast.AST] = {}
        self.returns: List[str] = []
        self._walk(func.body, None)

    def _buf(self, name):
        return self.buffers.setdefault(name, [])

    def _emit(self, bufname, item, ctx):
        if ctx is None:
            self._buf(bufname).append(item)
        else:
            ctx.setdefault(bufname, []).append(item)

    def _walk(self, body, ctx):
        for st in body:
            if isinstance(st, ast.Expr) and isinstance(st.value, ast.Constant):
                continue
            if isinstance(st, ast.AnnAssign) and isinstance(st.target, ast.Name) and st.value is not None:
                st = ast.copy_location(ast.Assign(targets=[st.target], value=st.value), st)
            if isinstance(st, ast.Assign) and len(st.targets) == 1 and isinstance(st.targets[0], ast.Name):
                nm = st.targets[0].id
                self.assign[nm] = st.value
                if isinstance(st.value, ast.Call) and dotted(st.value.func) in ("io.BytesIO", "BytesIO"):
                    self.local_buffers.add(nm)
                    self._buf(nm)
                continue
            if isinstance(st, ast.Expr) and isinstance(st.value, ast.Call):
                c = st.value
                la = last_attr(c)
                if la in WRITERS and c.args and isinstance(c.args[0], ast.Name):
                    kind = WRITERS[la]
                    val = c.args[1] if len(c.args) > 1 else None
                    if kind == "byte":
                        self._emit(c.args[0].id, ("byte", norm(val), self._const(val)), ctx)
                    elif kind == "leb":
                        sg = c.args[2] if len(c.args) > 2 else next((k.value for k in c.keywords if k.arg == "signed"), None)
                        self._emit(c.args[0].id, ("leb", norm(val), norm(sg) if sg is not None else None), ctx)
                    else:
                        self._emit(c.args[0].id, (kind, norm(val)), ctx)
                    continue
                if la == "write" and isinstance(c.func.value, ast.Name) and c.args:
                    self._emit(c.func.value.id, ("bytes", norm(c.args[0])), ctx)
                    continue
                if la == "WriteTo" and c.args and isinstance(c.args[0], ast.Name):
                    self._emit(c.args[0].id, ("sub", norm(c.func.value)), ctx)
                    continue
                if any(last_attr(x) in WRITERS or last_attr(x) in ("write", "WriteTo") for x in ast.walk(c) if isinstance(x, ast.Call)):
                    raise AnalysisError(f"{WA}::{self.func.name}: unmodelled writer statement `{norm(st)}`")
                continue
            if isinstance(st, ast.For):
                sub: Dict[str, List[tuple]] = {}
                self._walk(st.body, sub)
                it_node = st.iter
                if isinstance(it_node, ast.Name) and isinstance(self.assign.get(it_node.id), (ast.List, ast.Tuple)):
                    it_node = self.assign[it_node.id]
                # literal list of expressions (e.g. the sections, in order): unroll, substituting the loop variable
                if isinstance(it_node, (ast.List, ast.Tuple)) and it_node.elts and not all(isinstance(e, ast.Constant) for e in it_node.elts) and isinstance(st.target, ast.Name):
                    for e in it_node.elts:
                        for b, items in sub.items():
                            for it in items:
                                if len(it) >= 2 and it[1] == st.target.id:
                                    self._emit(b, (it[0], norm(e)) + tuple(it[2:]), ctx)
                                else:
                                    self._emit(b, it, ctx)
                    continue
                # literal list of constants: unroll
                if isinstance(st.iter, (ast.List, ast.Tuple)) and all(isinstance(e, ast.Constant) for e in st.iter.elts) and isinstance(st.target, ast.Name):
                    for e in st.iter.elts:
                        for b, items in sub.items():
                            for it in items:
                                if it[0] == "byte" and it[1] == st.target.id:
                                    self._emit(b, ("byte", repr(e.value), e.value), ctx)
                                else:
                                    self._emit(b, it, ctx)
                    continue
                for b, items in sub.items():
                    self._emit(b, ("each", norm(st.iter), norm(st.target), items), ctx)
                continue
            if isinstance(st, ast.If):
                if len(st.body) == 1 and isinstance(st.body[0], ast.Return) and not st.orelse:
                    # early return guard: applies to every buffer
                    self._emit("$guard", ("ret-if", norm(st.test)), ctx)
                    continue
                a: Dict[str, List[tuple]] = {}
                b_: Dict[str, List[tuple]] = {}
                self._walk(st.body, a)
                self._walk(st.orelse, b_)
                for bn in set(a) | set(b_):
                    self._emit(bn, ("if", norm(st.test), a.get(bn, []), b_.get(bn, [])), ctx)
                continue
            if isinstance(st, ast.Return):
                if st.value is not None:
                    self.returns.append(norm(st.value))
                continue
            if isinstance(st, (ast.Assert, ast.Pass)):
                continue
            if any(isinstance(x, ast.Call) and (last_attr(x) in WRITERS or last_attr(x) in ("write", "WriteTo")) for x in ast.walk(st)):
                raise AnalysisError(f"{WA}::{self.func.name}: unmodelled writer statement `{norm(st)[:80]}`")

    def _const(self, e):
        if isinstance(e, ast.Constant):
            return e.value
        # <module-level dict>['key'] of the writer module, e.g. opcodes['end']
        if isinstance(e, ast.Subscript) and isinstance(e.value, ast.Name) and isinstance(e.slice, ast.Constant):
            try:
                tbl = self.model.fold(self.model.module_assign(WA, e.value.id))
                v = tbl.get(e.slice.value) if isinstance(tbl, dict) else None
                return v if isinstance(v, int) else None
            except Exception:
                return None
        return None

    def out(self, name) -> List[tuple]:
        return self.buffers.get(name, [])

    def resolve(self, text: str) -> str:
        """Inline a local name: 'codeContent' -> 'code.Encode()'"""
        if text in self.assign:
            return norm(self.assign[text])
        return text


def is_vec(items, i):
    """items[i] = leb(len(V)), items[i+1] = each(V ...) -> (V, var, body) or None"""
    if i + 1 >= len(items):
        return None
    a, b = items[i], items[i + 1]
    if a[0] == "leb" and a[1].startswith("len(") and a[1].endswith(")") and b[0] == "each":
        v = a[1][4:-1]
        if b[1] == v and not a[2]:
            return v, b[2], b[3]
    return None
