"""Kind-level abstract interpretation of binary-operator typing, lowering and
execution (R04.5 / R05.3): the abstract domain is {Scalar, Vector, Matrix}
for each operand; sizes and component values are not modelled (conditions on
them stay symbolic and both outcomes are explored).

typing   : paths of types.ResolveBinaryExpressionType under (operation, left kind, right kind)
lowering : paths of LowerToIRVisitor.v_BinaryExpression + BinaryInstruction.FromOperation
execution: operand signature of the VM arm of the selected opcode"""
from __future__ import annotations

import ast
from typing import Dict, List, Optional, Tuple

from .model import AnalysisError, AnchorMissing, EnumRef, Model, dotted, find_assign, last_attr, unparse
from .paths import paths, cond_atoms
from .vmmodel import VMModel

TYPES = "nsl/types.py"
LOWER = "nsl/passes/LowerToIR.py"
IR = "nsl/LinearIR.py"
KINDS = ("S", "V", "M")
KNAME = {"S": "scalar", "V": "vector", "M": "matrix"}


def three(op, vals):
    if op == "and":
        if any(v is False for v in vals):
            return False
        return True if all(v is True for v in vals) else None
    if any(v is True for v in vals):
        return True
    return False if all(v is False for v in vals) else None


def make_fold(atom):
    """Lift an atom evaluator (returns True/False/None) to and/or/not."""

    def fold(t):
        if isinstance(t, ast.BoolOp):
            return three("and" if isinstance(t.op, ast.And) else "or", [fold(v) for v in t.values])
        if isinstance(t, ast.UnaryOp) and isinstance(t.op, ast.Not):
            v = fold(t.operand)
            return None if v is None else (not v)
        return atom(t)

    return fold


def _namedtuples_of(model: Model, rel: str = TYPES):
    out = {}
    for name, v in model.file(rel).assigns.items():
        if isinstance(v, ast.Call) and ((last_attr(v) or "") in ("namedtuple", "NamedTuple") or (isinstance(v.func, ast.Name) and v.func.id == "namedtuple")) and len(v.args) >= 2:
            f = v.args[1]
            if isinstance(f, ast.Constant) and isinstance(f.value, str):
                out[name] = f.value.replace(",", " ").split()
            elif isinstance(f, (ast.List, ast.Tuple)) and all(isinstance(e, ast.Constant) for e in f.elts):
                out[name] = [e.value for e in f.elts]
    return out


def typing_outcomes(model: Model, opname: str, lk: str, rk: str, comparisons: set):
    """[('accept', result kind, [operand kinds]) | ('raise', error)] for one abstract triple."""
    rb = model.func(TYPES, "ResolveBinaryExpressionType")
    # conditions are folded with the function's single-assignment locals inlined, so the model does not depend on local names;
    # the parameters are (operation, left type, right type)
    from .sem import local_env, resolve

    opn, ln, rn = (a.arg for a in rb.args.args[:3])
    kind_of = {ln: lk, rn: rk}
    renv = local_env(rb)
    SHL, SHR = f"_GetRowsColumns({ln})", f"_GetRowsColumns({rn})"

    def atom(t):
        s = " ".join(unparse(t).split())
        if s in (f"op.IsComparison({opn})", f"IsComparison({opn})"):
            return opname in comparisons
        for who in (ln, rn):
            for pred, k in (("IsScalar", "S"), ("IsVector", "V"), ("IsMatrix", "M")):
                if s == f"{who}.{pred}()":
                    return kind_of[who] == k
        if isinstance(t, ast.Compare) and len(t.ops) == 1:
            l, r = unparse(t.left), unparse(t.comparators[0])
            if l == opn and r.startswith("op.Operation."):
                eq = r.split(".")[-1] == opname
                return eq if isinstance(t.ops[0], ast.Eq) else (not eq) if isinstance(t.ops[0], ast.NotEq) else None
            if l == opn and isinstance(t.ops[0], (ast.In, ast.NotIn)) and isinstance(t.comparators[0], (ast.Set, ast.Tuple, ast.List)):
                mem = {dotted(e).split(".")[-1] for e in t.comparators[0].elts}
                return (opname in mem) == isinstance(t.ops[0], ast.In)
            if {l, r} == {f"{ln}.GetKind()", f"{rn}.GetKind()"}:
                ne = lk != rk
                return ne if isinstance(t.ops[0], ast.NotEq) else (not ne)
            if {l, r} == {ln, rn} and isinstance(t.ops[0], (ast.Eq, ast.NotEq)):
                eqv = None if lk == rk else False
                return eqv if isinstance(t.ops[0], ast.Eq) else (None if eqv is None else True)
            sc = s.replace(" ", "")
            # shapes carried in a namedtuple of the module: `NT(a, b)` is the pair, `.field` (not a call) its position
            import re as _re_nt

            for nt_name, nt_fields in _namedtuples_of(model).items():
                sc = sc.replace(f"{nt_name}(", "(")
                for i_, fld_ in enumerate(nt_fields):
                    sc = _re_nt.sub(rf"\.{fld_}\b(?!\()", f"[{i_}]", sc)
            if sc in (f"{SHL}[1]!={SHR}[0]", f"{SHR}[0]!={SHL}[1]"):
                if lk == "V":
                    return True  # (n,1) x (?,?): 1 != rows for the spellable sizes 2..4
                return None
            if sc in (f"{SHL}[1]=={SHR}[0]", f"{SHR}[0]=={SHL}[1]"):
                return False if lk == "V" else None
            RES1 = f"({SHL}[0],{SHR}[1])[1]"
            if sc in (f"{RES1}==1", f"{SHR}[1]==1"):
                return rk == "V"
            if sc in (f"{RES1}>1", f"{SHR}[1]>1"):
                return rk == "M"
        return None

    base_fold = make_fold(atom)

    def rfold(t):
        return base_fold(resolve(t, renv))

    out = []
    for evs, status in paths(rb.body, fold=rfold):
        if status == "raise":
            c = [x for x in ast.walk(evs[-1].node) if isinstance(x, ast.Call) and last_attr(x) == "Raise"]
            out.append(("raise", unparse(c[0].func.value).split(".")[-1] if c else "raise"))
            continue
        if status != "return":
            out.append(("fall", None))
            continue
        rv = evs[-1].node.value
        env = {}
        for e in evs:
            if e.kind == "stmt" and isinstance(e.node, ast.Assign) and isinstance(e.node.targets[0], ast.Name):
                env[e.node.targets[0].id] = e.node.value

        def kind_expr(x, depth=0):
            t = unparse(x)
            if isinstance(x, ast.Name) and x.id in kind_of:
                return kind_of[x.id]
            if isinstance(x, ast.Name) and x.id in env and depth < 5:
                return kind_expr(env[x.id], depth + 1)
            if isinstance(x, ast.Call):
                la = last_attr(x)
                if la == "VectorType":
                    return "V"
                if la == "MatrixType":
                    return "M"
                if la in ("Integer", "Float", "UnsignedInteger"):
                    return "S"
                if la == "WithComponentType" and isinstance(x.func, ast.Attribute):
                    return kind_expr(x.func.value, depth + 1)
                if la == "_GetCommonPrimitiveType" and x.args:
                    a = [kind_expr(y, depth + 1) for y in x.args]
                    return a[0] if a[0] == a[1] else None  # mixed kinds: falls off the end -> None
                if la == "GetComponentType":
                    return "S"
            return "?"

        if isinstance(rv, ast.Call) and last_attr(rv) == "ExpressionType" and len(rv.args) == 2:
            res = kind_expr(rv.args[0])
            opsk = [kind_expr(e) for e in rv.args[1].elts] if isinstance(rv.args[1], ast.List) else []
            out.append(("accept", res, opsk))
        else:
            out.append(("accept", "?", []))
    # de-duplicate
    uniq = []
    for o in out:
        if o not in uniq:
            uniq.append(o)
    return uniq


def vector_mapping_tables(model: Model):
    from .rules.c01 import scalar_mapping

    maps, fo, _ = scalar_mapping(model)
    return maps, fo


def from_operation(model: Model, maps, opname: str, reskind: str, k1: str, k2: str):
    """opcode member, or ('refuse', why) - kind-level model of BinaryInstruction.FromOperation."""
    fo = model.func(IR, "BinaryInstruction.FromOperation")
    src = " ".join(unparse(fo).split())
    table = maps.get({"S": "scalar", "V": "vector", "M": "matrix"}[reskind])
    if table is None:
        return ("refuse", f"FromOperation raises an internal compiler error for a {KNAME[reskind]} result")
    # special cases: fold the conditions of FromOperation under (operation, kind of v1, kind of v2); a feasible path that
    # returns BinaryInstruction(OpCode.<member>, .., a, b) decides the opcode and the operand order
    pk = {"IsScalar": "S", "IsVector": "V", "IsMatrix": "M"}
    fargs = [a.arg for a in fo.args.args if a.arg not in ("cls", "self")]
    opn_, a_n, b_n = fargs[0], fargs[-2], fargs[-1]
    kof = {a_n: k1, b_n: k2}

    def atom(t):
        if isinstance(t, ast.Compare) and len(t.ops) == 1 and unparse(t.left) == opn_ and isinstance(t.ops[0], (ast.Eq, ast.NotEq, ast.Is, ast.IsNot)):
            eq = unparse(t.comparators[0]).split(".")[-1] == opname
            return eq if isinstance(t.ops[0], (ast.Eq, ast.Is)) else (not eq)
        if isinstance(t, ast.Compare) and len(t.ops) == 1 and unparse(t.left) == opn_ and isinstance(t.ops[0], (ast.In, ast.NotIn)) and isinstance(t.comparators[0], (ast.Tuple, ast.List, ast.Set)):
            isin = opname in [unparse(e).split(".")[-1] for e in t.comparators[0].elts]
            return isin if isinstance(t.ops[0], ast.In) else (not isin)
        if isinstance(t, ast.Call) and isinstance(t.func, ast.Attribute) and t.func.attr in pk and unparse(t.func.value) in (f"{a_n}.Type", f"{b_n}.Type") and not t.args:
            return kof[unparse(t.func.value)[:-5]] == pk[t.func.attr]
        return None

    for evs, status in paths(fo.body, loop_iters=(1,), fold=make_fold(atom)):
        if status != "return":
            continue
        rv = evs[-1].node.value
        if isinstance(rv, ast.Call) and last_attr(rv) == "BinaryInstruction" and len(rv.args) >= 4 and (dotted(rv.args[0]) or "").split(".")[-2:-1] == ["OpCode"]:
            order = [unparse(a_) for a_ in rv.args[2:4]]
            ks = [kof.get(o, "?") for o in order]
            return (dotted(rv.args[0]).split(".")[-1], ks)
    if opname not in table:
        return ("refuse", f"`mapping[operation]` has no row for {opname} when the result is a {KNAME[reskind]} (KeyError while lowering)")
    return (table[opname], [k1, k2])


def lowering_outcomes(model: Model, maps, opname: str, lk: str, rk: str, reskind: str):
    """[(opcode | ('refuse', why), operand kinds passed to the instruction)]"""
    lv = model.cls(LOWER, "LowerToIRVisitor")
    vb = lv.own_method("v_BinaryExpression")
    # the locals holding the lowered left / right operand: assigned from a visit of <node>.GetLeft() / .GetRight()
    kind_of = {}
    opvars = set()
    rowvars = set()
    for n in ast.walk(vb):
        if isinstance(n, ast.Assign) and isinstance(n.targets[0], ast.Name):
            tv = unparse(n.value)
            if "v_Visit(" in tv or "v_Generic(" in tv:
                if ".GetLeft()" in tv:
                    kind_of[n.targets[0].id] = lk
                elif ".GetRight()" in tv:
                    kind_of[n.targets[0].id] = rk
            if "GetOperation()" in tv:
                opvars.add(n.targets[0].id)
            if "MatrixAccessInstruction(" in tv:
                rowvars.add(n.targets[0].id)
    if len(kind_of) != 2:
        raise AnalysisError(f"{LOWER}::v_BinaryExpression: cannot find the two locals holding the lowered operands (found {sorted(kind_of)})")

    def atom(t):
        s = " ".join(unparse(t).split())
        for who in kind_of:
            for pred, k in (("IsScalar", "S"), ("IsVector", "V"), ("IsMatrix", "M")):
                if s == f"{who}.Type.{pred}()":
                    return kind_of[who] == k
        if isinstance(t, ast.Compare) and len(t.ops) == 1 and (unparse(t.left) in opvars or unparse(t.left).endswith(".GetOperation()")) and unparse(t.comparators[0]).startswith("op.Operation."):
            eq = unparse(t.comparators[0]).split(".")[-1] == opname
            return eq if isinstance(t.ops[0], ast.Eq) else (not eq)
        return None

    out = []
    for evs, status in paths(vb.body, loop_iters=(1,), fold=make_fold(atom)):
        if status != "return":
            continue
        rv = evs[-1].node.value
        # find the instruction construction that produces the arithmetic on this path
        ctor = None
        for e in evs:
            if e.kind == "stmt":
                for c in ast.walk(e.node):
                    if isinstance(c, ast.Call) and last_attr(c) in ("FromOperation", "BinaryInstruction"):
                        ctor = c
        if ctor is None:
            out.append((("refuse", "no instruction is built"), []))
            continue
        row_loop = any(e.kind == "loop" and e.val == 1 for e in evs)
        if last_attr(ctor) == "BinaryInstruction":
            opc = dotted(ctor.args[0]).split(".")[-1]
            out.append((opc, [lk, rk]))
            continue
        # FromOperation(op, type, a, b)
        a, b = unparse(ctor.args[2]), unparse(ctor.args[3])
        # an operand that is a row taken out of a matrix (a MatrixAccessInstruction) is a vector; otherwise it is the lowered left / right operand
        ak = "V" if a in rowvars else kind_of.get(a, lk)
        bk = "V" if b in rowvars else kind_of.get(b, rk)
        rkind = "V" if row_loop else reskind
        r = from_operation(model, maps, opname, rkind, ak, bk)
        if r[0] == "refuse":
            out.append((r, [ak, bk]))
        else:
            out.append((r[0], r[1]))
    uniq = []
    for o in out:
        if o not in uniq:
            uniq.append(o)
    return uniq


def arm_signature(vm: VMModel, opcode: str) -> Optional[Tuple[str, str]]:
    """Operand kinds the VM arm of a binary opcode consumes, read off how the
    two operand names are used."""
    if opcode not in vm.arms:
        return None
    arm = vm.arms[opcode]
    src = " ".join(unparse(ast.Module(body=arm.body, type_ignores=[])).split())
    # the two names bound to the values of Values[0] / Values[1] in the enclosing binary-family arm
    names = {}
    holder = arm.outer.body if getattr(arm, "outer", None) is not None else arm.body
    from .sem import rtext as _rt_as

    binds = {}
    for st in holder:
        if isinstance(st, ast.Assign) and len(st.targets) == 1 and isinstance(st.targets[0], ast.Name):
            binds[st.targets[0].id] = None if st.targets[0].id in binds else st.value
    env_as = {k: v for k, v in binds.items() if v is not None}
    for st in holder:
        if isinstance(st, ast.Assign) and len(st.targets) == 1 and isinstance(st.targets[0], ast.Name):
            t = _rt_as(st.value, {k: v for k, v in env_as.items() if k != st.targets[0].id})  # `operands = instruction.Values` read in place
            for i in (0, 1):
                if f"Values[{i}]" in t and "localScope" in t:
                    names[i] = st.targets[0].id
    n0, n1 = names.get(0, "op1"), names.get(1, "op2")
    import re as _re

    if _re.search(rf"zip\({n0}, {n1}\)", src):
        return ("V", "V")
    if _re.search(rf"for \w+ in {n0}\b", src) and _re.search(rf"\b{n1}\b", src):
        return ("V", "S")
    if "__MatrixMatrixMultiply" in src:
        return ("M", "M")
    if _re.search(rf"\b{n0}\b", src) and _re.search(rf"\b{n1}\b", src):
        return ("S", "S")
    return None
