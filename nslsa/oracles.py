"""E9: the only constants of the checker.  Nothing here is copied from the
repository: these are the C operator table, the precedence levels stated in
property C08, the reference control-flow templates of C01, the WebAssembly 1.0
binary-format tables and the swizzle alphabet."""

# (a) binary operators: spelling -> (Operation member, python operator the VM
# must apply to (op1, op2), kind)
BINARY_OPERATORS = {
    "+": ("ADD", "Add", "arith"),
    "-": ("SUB", "Sub", "arith"),
    "*": ("MUL", "Mult", "arith"),
    "/": ("DIV", "Div", "div"),
    "%": ("MOD", "Mod", "arith"),
    "<": ("CMP_LT", "Lt", "cmp"),
    "<=": ("CMP_LE", "LtE", "cmp"),
    ">": ("CMP_GT", "Gt", "cmp"),
    ">=": ("CMP_GE", "GtE", "cmp"),
    "==": ("CMP_EQ", "Eq", "cmp"),
    "!=": ("CMP_NE", "NotEq", "cmp"),
    "&&": ("LG_AND", "And", "logic"),
    "||": ("LG_OR", "Or", "logic"),
}

# (b) precedence levels of C08 (1 = loosest); all left-associative
PRECEDENCE_LEVELS = {
    "||": 1,
    "&&": 2,
    "==": 3,
    "!=": 3,
    "<": 4,
    "<=": 4,
    ">": 4,
    ">=": 4,
    "+": 5,
    "-": 5,
    "*": 6,
    "/": 6,
    "%": 6,
}

COMPOUND_ASSIGN = {"+=": "ADD", "-=": "SUB", "*=": "MUL", "/=": "DIV"}

# (e) swizzle alphabet
SWIZZLE = {"x": 0, "y": 1, "z": 2, "w": 3, "r": 0, "g": 1, "b": 2, "a": 3}
SWIZZLE_FAMILIES = ("xyzw", "rgba")

# (d) WebAssembly 1.0 binary format
WASM_MAGIC = [0x00, 0x61, 0x73, 0x6D]
WASM_VERSION = [0x01, 0x00, 0x00, 0x00]
WASM_SECTION_IDS = {
    "custom": 0,
    "type": 1,
    "import": 2,
    "function": 3,
    "table": 4,
    "memory": 5,
    "global": 6,
    "export": 7,
    "start": 8,
    "element": 9,
    "code": 10,
    "data": 11,
}
WASM_VALTYPES = {"i32": 0x7F, "i64": 0x7E, "f32": 0x7D, "f64": 0x7C}
WASM_FUNCTYPE_TAG = 0x60
WASM_FUNCREF = 0x70
WASM_END = 0x0B
WASM_OPCODES = {
    "unreachable": 0x00,
    "nop": 0x01,
    "block": 0x02,
    "loop": 0x03,
    "if": 0x04,
    "else": 0x05,
    "end": 0x0B,
    "br": 0x0C,
    "br_if": 0x0D,
    "br_table": 0x0E,
    "return": 0x0F,
    "call": 0x10,
    "call_indirect": 0x11,
    "drop": 0x1A,
    "select": 0x1B,
    "local.get": 0x20,
    "local.set": 0x21,
    "local.tee": 0x22,
    "global.get": 0x23,
    "global.set": 0x24,
    "i32.load": 0x28,
    "i64.load": 0x29,
    "f32.load": 0x2A,
    "f64.load": 0x2B,
    "i32.store": 0x36,
    "i64.store": 0x37,
    "f32.store": 0x38,
    "f64.store": 0x39,
    "memory.size": 0x3F,
    "memory.grow": 0x40,
    "i32.const": 0x41,
    "i64.const": 0x42,
    "f32.const": 0x43,
    "f64.const": 0x44,
    "i32.eqz": 0x45,
    "i32.eq": 0x46,
    "i32.ne": 0x47,
    "i32.lt_s": 0x48,
    "i32.lt_u": 0x49,
    "i32.gt_s": 0x4A,
    "i32.gt_u": 0x4B,
    "i32.le_s": 0x4C,
    "i32.le_u": 0x4D,
    "i32.ge_s": 0x4E,
    "i32.ge_u": 0x4F,
    "f32.eq": 0x5B,
    "f32.ne": 0x5C,
    "f32.lt": 0x5D,
    "f32.gt": 0x5E,
    "f32.le": 0x5F,
    "f32.ge": 0x60,
    "i32.clz": 0x67,
    "i32.ctz": 0x68,
    "i32.popcnt": 0x69,
    "i32.add": 0x6A,
    "i32.sub": 0x6B,
    "i32.mul": 0x6C,
    "i32.div_s": 0x6D,
    "i32.div_u": 0x6E,
    "i32.rem_s": 0x6F,
    "i32.rem_u": 0x70,
    "i32.and": 0x71,
    "i32.or": 0x72,
    "i32.xor": 0x73,
    "i32.shl": 0x74,
    "i32.shr_s": 0x75,
    "i32.shr_u": 0x76,
    "f32.abs": 0x8B,
    "f32.neg": 0x8C,
    "f32.add": 0x92,
    "f32.sub": 0x93,
    "f32.mul": 0x94,
    "f32.div": 0x95,
    "f32.min": 0x96,
    "f32.max": 0x97,
    "i32.trunc_f32_s": 0xA8,
    "i32.trunc_f32_u": 0xA9,
    "f32.convert_i32_s": 0xB2,
    "f32.convert_i32_u": 0xB3,
}
# IR opcode -> wasm operator stem
WASM_OPSTEM = {
    "ADD": "add",
    "SUB": "sub",
    "MUL": "mul",
    "DIV": "div",
    "MOD": "rem",
    "CMP_EQ": "eq",
    "CMP_NE": "ne",
    "CMP_LT": "lt",
    "CMP_GT": "gt",
    "CMP_LE": "le",
    "CMP_GE": "ge",
}
# stems whose i32 form carries a signedness suffix
WASM_I32_SIGNED_STEMS = {"div", "rem", "lt", "gt", "le", "ge"}
