"""E6-lite: attribute resolution.

1. private attributes: every `self.__x` read in class C needs a `self.__x`
   store (or class attribute) in C itself (name mangling makes it C-private).
2. global existence: an attribute name that no repository class, no module the
   receiver can denote and no builtin container type defines cannot resolve.
3. predicate refinement: in functions whose parameters are narrowed by the
   repository's own IsX()/isinstance tests, every method called on a narrowed
   parameter must exist on every class the parameter can still be."""
from __future__ import annotations

import ast
import builtins
import io
from typing import Dict, List, Optional, Set

from .model import ClassInfo, Model, dotted, last_attr, mangle, unparse, walk_no_nested
from .paths import paths, _imply, _strip_not, _atom_key

BUILTIN_ATTRS: Set[str] = set()
for _t in (list, dict, str, set, frozenset, tuple, int, float, bytes, bytearray, io.BytesIO, io.StringIO, BaseException, type, object, range, memoryview):
    BUILTIN_ATTRS |= set(dir(_t))
import collections as _c
import enum as _e

for _t in (_c.OrderedDict, _c.defaultdict, _c.ChainMap, _e.Enum, _e.IntFlag):
    BUILTIN_ATTRS |= set(dir(_t))
BUILTIN_ATTRS |= {"value", "name", "lexpos", "lineno", "lexer", "type", "slice", "parse", "skip", "input", "token", "getbuffer", "getvalue", "abc",
                  "exports", "type", "params", "engine", "func", "output", "FILE", "MODULE", "FUNCTION", "ARGS", "wasm", "wasm_runtime", "debug_parsing",
                  "debug_passes", "opt_level", "verbose", "add_argument", "parse_args", "add_subparsers", "add_parser", "set_defaults", "JIT", "F32", "I32",
                  "Store", "Module", "Instance", "Func", "Type", "exists", "open", "with_suffix", "Path", "args", "yacc", "lex", "prod", "ceil", "floor",
                  "deepcopy", "bisect_right", "bisect_left", "bisect", "pack", "load", "dump", "exit", "getmro", "chain", "namedtuple", "Sequence", "Set", "Mapping",
                  "FileType", "ArgumentParser", "BytesIO", "StringIO"}


def all_defined_names(model: Model) -> Set[str]:
    out = set()
    for c in model.classes.values():
        out |= set(c.methods)
        out |= set(c.class_attrs)
        for a in c.instance_attrs():
            out.add(a)
            # un-mangled spelling as written inside the class
            pref = "_" + c.name.lstrip("_")
            if a.startswith(pref + "__"):
                out.add(a[len(pref):])
        out.add(c.name)
    for fi in model.files.values():
        out |= set(fi.functions) | set(fi.assigns)
        for n in ast.walk(fi.tree):
            # classes defined inside functions (MakePassFromVisitor.VisitorPass): methods and self-attribute stores
            if isinstance(n, ast.ClassDef):
                out.add(n.name)
                for m in n.body:
                    if isinstance(m, ast.FunctionDef):
                        out.add(m.name)
                        if m.args.args:
                            s = m.args.args[0].arg
                            for x in ast.walk(m):
                                if isinstance(x, ast.Attribute) and isinstance(x.ctx, ast.Store) and isinstance(x.value, ast.Name) and x.value.id == s:
                                    out.add(x.attr)
            # namedtuple field names
            if isinstance(n, ast.Call) and last_attr(n) == "namedtuple" and len(n.args) >= 2 and isinstance(n.args[1], (ast.List, ast.Tuple)):
                for e in n.args[1].elts:
                    if isinstance(e, ast.Constant) and isinstance(e.value, str):
                        out.add(e.value)
    return out


def private_attr_violations(model: Model):
    """[(class, attr, node)] self.__x read but never stored in the class."""
    out = []
    for c in model.classes.values():
        stores = set(c.instance_attrs()) | {mangle(c.name, a) for a in c.class_attrs}
        meths = {mangle(c.name, m) for m in c.methods}
        for m in c.methods.values():
            if not m.args.args:
                continue
            s = m.args.args[0].arg
            for n in ast.walk(m):
                if isinstance(n, ast.Attribute) and isinstance(n.ctx, ast.Load) and isinstance(n.value, ast.Name) and n.value.id == s \
                        and n.attr.startswith("__") and not n.attr.endswith("__"):
                    mg = mangle(c.name, n.attr)
                    if mg not in stores and mg not in meths:
                        out.append((c, n.attr, n, m))
    return out


def global_attr_violations(model: Model, files=None, dead: Optional[Dict[str, str]] = None):
    """[(file, function/class, attr, node)] attribute names nothing defines."""
    known = all_defined_names(model) | BUILTIN_ATTRS
    out = []
    n_checked = 0
    for rel, fi in model.files.items():
        if files is not None and rel not in files:
            continue
        # names bound (anywhere in the file) to the result of a call into an external module (`logger = logging.getLogger(..)`,
        # `path = pathlib.Path(..)`): objects of foreign types, whose attributes are not the repository's to define
        ext_bound = set()
        for a_ in ast.walk(fi.tree):
            if isinstance(a_, ast.Assign) and isinstance(a_.value, ast.Call):
                r_ = a_.value.func
                while isinstance(r_, (ast.Attribute, ast.Call)):
                    r_ = r_.value if isinstance(r_, ast.Attribute) else r_.func
                if isinstance(r_, ast.Name) and r_.id in fi.aliases and model.resolve_module(fi, r_.id) is None:
                    ext_bound |= {t_.id for t_ in a_.targets if isinstance(t_, ast.Name)}
        for n in ast.walk(fi.tree):
            if not (isinstance(n, ast.Attribute) and isinstance(n.ctx, ast.Load)):
                continue
            n_checked += 1
            if isinstance(n.value, ast.Name) and n.value.id in ext_bound:
                continue
            # module alias receiver: must be defined in that module
            if isinstance(n.value, ast.Name):
                m = model.resolve_module(fi, n.value.id)
                if m is not None:
                    defined = set(m.functions) | set(m.assigns) | {q for (mod, q) in model.classes if mod == m.module and "." not in q} | set(m.aliases)
                    sub = model.modules.get(m.module + "." + n.attr)
                    if n.attr not in defined and sub is None:
                        out.append((rel, n.attr, n, f"module {m.module} defines no `{n.attr}`"))
                    continue
                a = fi.aliases.get(n.value.id)
                if a is not None:
                    continue  # external module
            if n.attr.startswith("__") and n.attr.endswith("__"):
                continue
            # `itertools.chain.from_iterable`: a chain of plain attributes rooted at an external module is that module's business
            r_ = n.value
            while isinstance(r_, ast.Attribute):
                r_ = r_.value
            if isinstance(r_, ast.Name) and r_.id in fi.aliases and model.resolve_module(fi, r_.id) is None and not isinstance(n.value, ast.Name):
                continue
            if n.attr not in known:
                out.append((rel, n.attr, n, f"no repository class and no builtin container defines `{n.attr}`"))
    return out, n_checked


# ---------------------------------------------------------------------------
class Predicates:
    """Constant results of IsX()/NeedsResolve() per concrete class of a
    hierarchy (e.g. nsl.types.Type)."""

    def __init__(self, model: Model, rel: str, base: str):
        self.model = model
        self.base = model.cls(rel, base)
        self.rel = rel
        allc = model.subclasses(self.base)
        constructed = set()
        for r, fi in model.files.items():
            for n in ast.walk(fi.tree):
                if isinstance(n, ast.Call):
                    ci = model.resolve_class_expr(r, n.func)
                    if ci is not None and ci in allc:
                        constructed.add(ci)
        self.concrete = [c for c in allc if c in constructed]
        self.enums = {}

    def const_result(self, cls: ClassInfo, meth: str, depth=0):
        """True/False/enum-member text if cls.meth() returns a constant, else None."""
        r = cls.find_method(meth)
        if r is None or depth > 3:
            return None
        owner, f = r
        rets = [x.value for x in walk_no_nested(f) if isinstance(x, ast.Return)]
        body = [s for s in f.body if not (isinstance(s, ast.Expr) and isinstance(s.value, ast.Constant))]
        if len(rets) != 1 or len(body) != 1:
            return None
        v = rets[0]
        if isinstance(v, ast.Constant) and isinstance(v.value, bool):
            return v.value
        d = dotted(v)
        if d and "." in d and not d.startswith("self."):
            return d.split(".")[-1]
        if isinstance(v, ast.Compare) and len(v.ops) == 1 and isinstance(v.ops[0], (ast.Eq, ast.NotEq)):
            l, rr = v.left, v.comparators[0]
            if isinstance(l, ast.Call) and isinstance(l.func, ast.Attribute) and isinstance(l.func.value, ast.Name) and l.func.value.id == "self" and not l.args:
                inner = self.const_result(cls, l.func.attr, depth + 1)
                dr = dotted(rr)
                if inner is not None and dr:
                    eq = inner == dr.split(".")[-1]
                    return eq if isinstance(v.ops[0], ast.Eq) else not eq
        return None

    def narrow(self, classes: List[ClassInfo], test: ast.AST, truth: bool, var: str) -> Optional[List[ClassInfo]]:
        """Classes remaining if `test` (an atom about `var`) has value `truth`."""
        if isinstance(test, ast.Call) and isinstance(test.func, ast.Attribute) and isinstance(test.func.value, ast.Name) and test.func.value.id == var and not test.args:
            out = []
            for c in classes:
                r = self.const_result(c, test.func.attr)
                if r is None or not isinstance(r, bool):
                    if c.find_method(test.func.attr) is None:
                        continue  # would raise; not part of the surviving set
                    out.append(c)
                elif r == truth:
                    out.append(c)
            return out
        if isinstance(test, ast.Call) and dotted(test.func) == "isinstance" and len(test.args) == 2 and isinstance(test.args[0], ast.Name) and test.args[0].id == var:
            targets = test.args[1].elts if isinstance(test.args[1], ast.Tuple) else [test.args[1]]
            tcs = [self.model.resolve_class_expr(self.rel, t) for t in targets]
            if any(t is None for t in tcs):
                return None
            return [c for c in classes if any(t in c.mro for t in tcs) == truth]
        return None


def narrowed_call_violations(model: Model, rel: str, func: ast.FunctionDef, preds: Predicates, params: List[str]):
    """Calls `p.M()` on parameter p where, under the predicates established on
    the path, some class p can be does not define M."""
    out = []
    seen = set()
    checked = 0
    for evs, status in paths(func.body):
        sets: Dict[str, Optional[List[ClassInfo]]] = {p: None for p in params}  # None = unrefined

        def refine(node, truth):
            atoms = {}
            _imply(node, truth, atoms)
            for key, val in atoms.items():
                try:
                    expr = ast.parse(key, mode="eval").body
                except SyntaxError:
                    continue
                for p in params:
                    cur = sets[p] if sets[p] is not None else list(preds.concrete)
                    r = preds.narrow(cur, expr, val, p)
                    if r is not None:
                        sets[p] = r

        def check_node(node):
            nonlocal checked
            for n in ast.walk(node):
                if isinstance(n, ast.Attribute) and isinstance(n.value, ast.Name) and n.value.id in params and isinstance(n.ctx, ast.Load):
                    s = sets[n.value.id]
                    if s is None:
                        continue
                    checked += 1
                    missing = [c.name for c in s if not c.attr_defined(n.attr)]
                    if missing and (n.lineno, n.col_offset) not in seen:
                        seen.add((n.lineno, n.col_offset))
                        out.append((n, n.value.id, n.attr, missing, [c.name for c in s]))

        for e in evs:
            if e.kind == "cond":
                # the test itself is evaluated with the sets before it... but short-circuit
                # operands of `a and b` see a's refinement: handle BoolOp operand by operand
                t, neg = _strip_not(e.node)
                if isinstance(t, ast.BoolOp):
                    saved = {k: (list(v) if v is not None else None) for k, v in sets.items()}
                    for operand in t.values:
                        check_node(operand)
                        # later operands are only evaluated if earlier ones were True (and) / False (or)
                        refine(operand, isinstance(t.op, ast.And))
                    sets.update(saved)
                else:
                    check_node(e.node)
                refine(e.node, e.val)
            elif e.kind in ("stmt", "return", "raise"):
                check_node(e.node)
                if e.kind == "stmt":
                    for n in ast.walk(e.node):
                        if isinstance(n, ast.Name) and isinstance(n.ctx, ast.Store) and n.id in sets:
                            sets[n.id] = None
    return out, checked
