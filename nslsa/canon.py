"""Canonical form of the analysed syntax trees.

Rules look at the repository's code through the model; to keep them from
depending on spelling choices that do not change behaviour, every tree is
brought into one canonical form when it is loaded.  Each rewrite is an
equivalence of Python programs (nothing here changes what the analysed code
does); line numbers of the surviving nodes are kept.

C1  `if not C: A else: B`       ->  `if C: B else: A`          (else present, no elif involved)
C2  `K == x` / `K != x`          ->  `x == K` / `x != K`         (K a literal or an ALL_CAPS attribute such as an enum member)
C3  `t = E; return t`            ->  `return E`                  (t a plain local name that occurs nowhere else in the function)
C4  `not (a == b)` / `not (a != b)` / `not (a in b)` / `not (a is b)` -> the negated comparison
C5  statements following an unconditional return / raise / break / continue in the same block are dropped (dead)
C6  `if a != b: A else: B`      ->  `if a == b: B else: A`      (also `not in`, `is not`; else present, no elif involved)
C7  `a > b` / `a >= b`           ->  `b < a` / `b <= a`
C8  `x: T = v`                   ->  `x = v`                     (annotated assignment with a value; name or attribute target)
C9  `for x in (A, B): S(x)`      ->  `S(A); S(B)`                (display of <= 8 plain / dotted names; body neither re-binds x nor breaks / continues)
C9b the same for `for a, b in T` with T a display of tuples of names / literals, or a module-level name of this file bound once to such a tuple
C10 `a, b = x, y`               ->  `a = x; b = y`              (plain name targets, none of which occurs in x, y)
C11 `MappingProxyType({..})`     ->  `{..}` ;  `frozenset({..})` / `frozenset([..])` -> `{..}`
C12 (whole program, nslsa/optfold.py) an optional parameter added by a change that no call site uses is its default; so is the field it is stored in
C13 `_NAME = "literal"` at module level (ALL_CAPS, bound once in the file, a string or a number): reads of `_NAME` in that file are the literal
C13b the same for a private class-level `_NAME = <int/str literal>` never stored through an attribute: `self._NAME` inside the class is the literal
"""
from __future__ import annotations

import ast


def _is_const_like(e) -> bool:
    if isinstance(e, ast.Constant):
        return True
    if isinstance(e, ast.Attribute) and e.attr.isupper() and e.attr.replace("_", "").isalnum():
        return True
    if isinstance(e, ast.Tuple) and all(isinstance(x, ast.Constant) for x in e.elts):
        return True
    return False


_NEG = {ast.Eq: ast.NotEq, ast.NotEq: ast.Eq, ast.In: ast.NotIn, ast.NotIn: ast.In, ast.Is: ast.IsNot, ast.IsNot: ast.Is}


class _Canon(ast.NodeTransformer):
    def visit_AnnAssign(self, node):
        # C8  `x: T = v` -> `x = v` (the annotation is not evaluated for attribute / subscript targets and has no effect on
        # locals); a bare `x: T` declaration is left alone
        self.generic_visit(node)
        if node.value is not None and isinstance(node.target, (ast.Name, ast.Attribute)):
            return ast.copy_location(ast.Assign(targets=[node.target], value=node.value, type_comment=None), node)
        return node

    def visit_Assign(self, node):
        # C10  `a, b = x, y`  ->  `a = x; b = y`  when the targets are plain names none of which occurs in x, y
        self.generic_visit(node)
        if len(node.targets) == 1 and isinstance(node.targets[0], ast.Tuple) and isinstance(node.value, ast.Tuple) and len(node.targets[0].elts) == len(node.value.elts) >= 2 \
                and all(isinstance(t, ast.Name) for t in node.targets[0].elts):
            names = {t.id for t in node.targets[0].elts}
            if len(names) == len(node.targets[0].elts) and not any(isinstance(x, ast.Name) and x.id in names for v in node.value.elts for x in ast.walk(v)) \
                    and not any(isinstance(v, ast.Starred) for v in node.value.elts):
                return [ast.copy_location(ast.Assign(targets=[t], value=v, type_comment=None), node) for t, v in zip(node.targets[0].elts, node.value.elts)]
        return node

    def visit_Call(self, node):
        # C11  `MappingProxyType({..})` -> `{..}` ; `frozenset({..})` / `frozenset([..])` -> `{..}`   (a read-only view / an
        # immutable copy of a display reads exactly like the display; nothing in the analysed code can write to either)
        self.generic_visit(node)
        fn = node.func
        name = fn.attr if isinstance(fn, ast.Attribute) else fn.id if isinstance(fn, ast.Name) else None
        if name == "MappingProxyType" and len(node.args) == 1 and not node.keywords and isinstance(node.args[0], ast.Dict):
            return ast.copy_location(node.args[0], node)
        if name == "frozenset" and isinstance(fn, ast.Name) and len(node.args) == 1 and not node.keywords and isinstance(node.args[0], (ast.Set, ast.List, ast.Tuple)) and node.args[0].elts:
            return ast.copy_location(ast.Set(elts=node.args[0].elts), node)
        return node

    def visit_For(self, node):
        # C9  `for x in (A, B): S(x)`  ->  `S(A); S(B)`  for a display of at most 8 plain names / dotted names (a loop over
        # classes or enum members), x a name the body neither re-binds nor deletes, no break / continue / else
        # C9b the display may be a module-level constant tuple of this file (bound once), and its elements may be tuples of
        # names / literals unpacked by a tuple target: `for cls, name in _TABLE: S(cls, name)`
        self.generic_visit(node)
        it = node.iter
        if isinstance(it, ast.Name) and it.id in getattr(self, "module_tuples", {}):
            it = self.module_tuples[it.id]
        if not (isinstance(it, (ast.Tuple, ast.List)) and 1 <= len(it.elts) <= 8 and not node.orelse):
            return node

        def plain(e):
            return isinstance(e, ast.Constant) or (isinstance(e, (ast.Name, ast.Attribute)) and all(isinstance(x, (ast.Name, ast.Attribute)) for x in ast.walk(e) if not isinstance(x, ast.expr_context)))

        if isinstance(node.target, ast.Name):
            if not all(plain(e) and not isinstance(e, ast.Constant) for e in it.elts):
                return node
            tgts = [node.target.id]
            rows = [[e] for e in it.elts]
        elif isinstance(node.target, ast.Tuple) and all(isinstance(t, ast.Name) for t in node.target.elts) and len({t.id for t in node.target.elts}) == len(node.target.elts):
            tgts = [t.id for t in node.target.elts]
            if not all(isinstance(e, ast.Tuple) and len(e.elts) == len(tgts) and all(plain(x) for x in e.elts) for e in it.elts):
                return node
            rows = [list(e.elts) for e in it.elts]
        else:
            return node
        for s in node.body:
            for x in ast.walk(s):
                if isinstance(x, (ast.Break, ast.Continue)) or (isinstance(x, ast.Name) and x.id in tgts and not isinstance(x.ctx, ast.Load)) \
                        or isinstance(x, (ast.FunctionDef, ast.Lambda, ast.ClassDef)):
                    return node
        import copy

        class _S(ast.NodeTransformer):
            def __init__(self, m):
                self.m = m

            def visit_Name(self, n):
                return copy.deepcopy(self.m[n.id]) if n.id in self.m and isinstance(n.ctx, ast.Load) else n

        out = []
        for row in rows:
            for s in node.body:
                out.append(ast.copy_location(_S(dict(zip(tgts, row))).visit(copy.deepcopy(s)), s))
        return out

    def visit_UnaryOp(self, node):
        self.generic_visit(node)
        if isinstance(node.op, ast.Not) and isinstance(node.operand, ast.Compare) and len(node.operand.ops) == 1 and type(node.operand.ops[0]) in _NEG:
            c = node.operand
            return ast.copy_location(ast.Compare(left=c.left, ops=[_NEG[type(c.ops[0])]()], comparators=c.comparators), node)
        if isinstance(node.op, ast.Not) and isinstance(node.operand, ast.UnaryOp) and isinstance(node.operand.op, ast.Not):
            return node  # `not not x` is bool(x), not x: leave it
        return node

    def visit_Compare(self, node):
        self.generic_visit(node)
        # C7: `a > b` -> `b < a`, `a >= b` -> `b <= a` (one spelling for an order comparison)
        if len(node.ops) == 1 and isinstance(node.ops[0], (ast.Gt, ast.GtE)):
            flipped = ast.Lt() if isinstance(node.ops[0], ast.Gt) else ast.LtE()
            return ast.copy_location(ast.Compare(left=node.comparators[0], ops=[flipped], comparators=[node.left]), node)
        if len(node.ops) == 1 and isinstance(node.ops[0], (ast.Eq, ast.NotEq)) and _is_const_like(node.left) and not _is_const_like(node.comparators[0]):
            return ast.copy_location(ast.Compare(left=node.comparators[0], ops=node.ops, comparators=[node.left]), node)
        return node

    def visit_If(self, node):
        self.generic_visit(node)
        if node.orelse and isinstance(node.test, ast.UnaryOp) and isinstance(node.test.op, ast.Not) \
                and not (len(node.orelse) == 1 and isinstance(node.orelse[0], ast.If)):
            new = ast.If(test=node.test.operand, body=node.orelse, orelse=node.body)
            return ast.copy_location(new, node)
        # negative comparison with an else branch: positive polarity first
        if node.orelse and isinstance(node.test, ast.Compare) and len(node.test.ops) == 1 and isinstance(node.test.ops[0], (ast.NotEq, ast.NotIn, ast.IsNot)) \
                and not (len(node.orelse) == 1 and isinstance(node.orelse[0], ast.If)):
            c = node.test
            pos = ast.copy_location(ast.Compare(left=c.left, ops=[_NEG[type(c.ops[0])]()], comparators=c.comparators), c)
            return ast.copy_location(ast.If(test=pos, body=node.orelse, orelse=node.body), node)
        return node

    def visit_FunctionDef(self, node):
        self.generic_visit(node)
        _inline_return_temps(node)
        return node


def _inline_return_temps(fn: ast.FunctionDef):
    counts = {}
    for n in ast.walk(fn):
        if isinstance(n, ast.Name):
            counts[n.id] = counts.get(n.id, 0) + 1
    params = {a.arg for a in fn.args.args + fn.args.kwonlyargs + fn.args.posonlyargs}
    # a name may be used for several `t = E; return t` pairs (one per exit): it is a pure temp iff it occurs nowhere else
    pairs = {}

    def count_pairs(stmts):
        for i, st in enumerate(stmts):
            nxt = stmts[i + 1] if i + 1 < len(stmts) else None
            if isinstance(st, ast.Assign) and len(st.targets) == 1 and isinstance(st.targets[0], ast.Name) and isinstance(nxt, ast.Return) \
                    and isinstance(nxt.value, ast.Name) and nxt.value.id == st.targets[0].id:
                uses_self = sum(1 for x in ast.walk(st.value) if isinstance(x, ast.Name) and x.id == st.targets[0].id)
                if not uses_self:
                    pairs[st.targets[0].id] = pairs.get(st.targets[0].id, 0) + 1
            for fld in ("body", "orelse", "finalbody"):
                if hasattr(st, fld) and isinstance(getattr(st, fld), list) and not isinstance(st, (ast.FunctionDef, ast.ClassDef)):
                    count_pairs(getattr(st, fld))
            if isinstance(st, ast.Try):
                for h in st.handlers:
                    count_pairs(h.body)
            if isinstance(st, ast.Match):
                for c in st.cases:
                    count_pairs(c.body)

    count_pairs(fn.body)
    for nm, k in pairs.items():
        if counts.get(nm) == 2 * k:
            counts[nm] = 2  # every occurrence is part of a pair: each pair is inlined below
        else:
            counts[nm] = -1

    def fix(stmts):
        out = []
        i = 0
        # C5: statements after an unconditional return / raise / break / continue of the same block are dead
        for j, s_ in enumerate(stmts):
            if isinstance(s_, (ast.Return, ast.Raise, ast.Break, ast.Continue)) and j + 1 < len(stmts):
                stmts = stmts[: j + 1]
                break
        while i < len(stmts):
            st = stmts[i]
            nxt = stmts[i + 1] if i + 1 < len(stmts) else None
            if isinstance(st, ast.Assign) and len(st.targets) == 1 and isinstance(st.targets[0], ast.Name) and isinstance(nxt, ast.Return) \
                    and isinstance(nxt.value, ast.Name) and nxt.value.id == st.targets[0].id and counts.get(st.targets[0].id) == 2 and st.targets[0].id not in params:
                out.append(ast.copy_location(ast.Return(value=st.value), st))
                i += 2
                continue
            for fld in ("body", "orelse", "finalbody"):
                if hasattr(st, fld) and isinstance(getattr(st, fld), list) and not isinstance(st, (ast.FunctionDef, ast.ClassDef)):
                    setattr(st, fld, fix(getattr(st, fld)))
            if isinstance(st, ast.Try):
                for h in st.handlers:
                    h.body = fix(h.body)
            if isinstance(st, ast.Match):
                for c in st.cases:
                    c.body = fix(c.body)
            out.append(st)
            i += 1
        return out

    fn.body = fix(fn.body)


def _functions(tree):
    """[(qualname, FunctionDef)] in source order; methods as Class.method, nested functions as outer.<locals>.inner"""
    out = []

    def go(body, prefix):
        for st in body:
            if isinstance(st, ast.ClassDef):
                go(st.body, prefix + st.name + ".")
            elif isinstance(st, (ast.FunctionDef, ast.AsyncFunctionDef)):
                out.append((prefix + st.name, st))
                go(st.body, prefix + st.name + ".<locals>.")
            else:
                for fld in ("body", "orelse", "finalbody"):
                    sub = getattr(st, fld, None)
                    if isinstance(sub, list) and not isinstance(st, (ast.ClassDef, ast.FunctionDef)):
                        go([x for x in sub if isinstance(x, ast.stmt)], prefix)

    go(tree.body, "")
    return out


def _own_nodes(fn):
    """nodes of fn that belong to fn itself (not to nested functions / classes / lambdas)"""
    stack = list(ast.iter_child_nodes(fn))
    while stack:
        n = stack.pop()
        yield n
        if isinstance(n, (ast.FunctionDef, ast.AsyncFunctionDef, ast.ClassDef, ast.Lambda)):
            continue
        stack.extend(ast.iter_child_nodes(n))


def _names_of(fn):
    a = fn.args
    params = [x.arg for x in a.posonlyargs + a.args + a.kwonlyargs] + ([a.vararg.arg] if a.vararg else []) + ([a.kwarg.arg] if a.kwarg else [])
    stores = sorted(((n.lineno, n.col_offset, n.id) for n in _own_nodes(fn) if isinstance(n, ast.Name) and isinstance(n.ctx, ast.Store)), key=lambda t: (t[0], t[1]))
    locs = []
    for _, _, name in stores:
        if name not in locs and name not in params:
            locs.append(name)
    return params, locs


def function_vocab(tree: ast.Module) -> dict:
    voc = {}
    for q, fn in _functions(tree):
        if q in voc:
            continue  # overloaded name (e.g. property getter/setter): first one only
        p, l = _names_of(fn)
        voc[q] = {"params": p, "locals": l}
    return voc


_VOCAB = None


def _vocab():
    global _VOCAB
    if _VOCAB is None:
        import json
        import os

        p = os.path.join(os.path.dirname(__file__), "vocab.json")
        if os.environ.get("NSLSA_NO_VOCAB"):
            p = os.devnull  # used by tools/twinsweep.py to measure the rules without the convenience layer
        try:
            _VOCAB = json.load(open(p))
        except Exception:
            _VOCAB = {}
    return _VOCAB


def _unrename(tree: ast.Module, rel: str):
    """Undo pure renamings of parameters / locals against the recorded vocabulary (see tools/gen_vocab.py)."""
    voc = _vocab().get(rel)
    if not voc:
        return
    seen = set()
    for q, fn in _functions(tree):
        if q in seen or q not in voc:
            continue
        seen.add(q)
        cur_p, cur_l = _names_of(fn)
        mapping = {}
        for cur, ref in ((cur_p, voc[q]["params"]), (cur_l, voc[q]["locals"])):
            if len(cur) != len(ref):
                continue
            all_cur = set(cur_p) | set(cur_l)
            all_ref = set(voc[q]["params"]) | set(voc[q]["locals"])
            for c, r in zip(cur, ref):
                if c != r and c not in all_ref and r not in all_cur:
                    mapping[c] = r
        if not mapping:
            continue
        for n in _own_nodes(fn):
            if isinstance(n, ast.Name) and n.id in mapping:
                n.id = mapping[n.id]
            elif isinstance(n, ast.arg) and n.arg in mapping:
                n.arg = mapping[n.arg]
            elif isinstance(n, ast.keyword) and False:
                pass
        for a in fn.args.posonlyargs + fn.args.args + fn.args.kwonlyargs + ([fn.args.vararg] if fn.args.vararg else []) + ([fn.args.kwarg] if fn.args.kwarg else []):
            if a.arg in mapping:
                a.arg = mapping[a.arg]
        # names captured by nested functions / lambdas / comprehension scopes of this function
        for n in ast.walk(fn):
            if isinstance(n, ast.Name) and n.id in mapping and isinstance(n.ctx, ast.Load):
                n.id = mapping[n.id]


def canonicalise(tree: ast.Module, rel: str = None) -> ast.Module:
    if rel is not None:
        _unrename(tree, rel)
    cn = _Canon()
    # module-level names bound exactly once, to a tuple display, and never re-bound inside a function (`global`)
    counts, vals = {}, {}
    for n in ast.walk(tree):
        if isinstance(n, ast.Name) and isinstance(n.ctx, (ast.Store, ast.Del)):
            counts[n.id] = counts.get(n.id, 0) + 1
        elif isinstance(n, ast.Global):
            for g in n.names:
                counts[g] = counts.get(g, 0) + 2
    for st in tree.body:
        if isinstance(st, ast.Assign) and len(st.targets) == 1 and isinstance(st.targets[0], ast.Name) and isinstance(st.value, ast.Tuple):
            vals[st.targets[0].id] = st.value
        elif isinstance(st, ast.AnnAssign) and isinstance(st.target, ast.Name) and isinstance(st.value, ast.Tuple):
            vals[st.target.id] = st.value
    cn.module_tuples = {k: v for k, v in vals.items() if counts.get(k) == 1}
    # C13  a module-level name bound exactly once in this file, to a string or number literal, and never used as a parameter
    # name: reads of it in this file are the literal (`_METADATA_TYPES = "types"`; `_SHIFT = 16`)
    for n in ast.walk(tree):
        if isinstance(n, ast.arg):
            counts[n.arg] = counts.get(n.arg, 0) + 2
        elif isinstance(n, (ast.Import, ast.ImportFrom)):
            for a_ in n.names:
                nm_ = (a_.asname or a_.name).split(".")[0]
                counts[nm_] = counts.get(nm_, 0) + 2
        elif isinstance(n, (ast.FunctionDef, ast.AsyncFunctionDef, ast.ClassDef)):
            counts[n.name] = counts.get(n.name, 0) + 2
    scalars = {}
    for st in tree.body:
        if isinstance(st, ast.Assign) and len(st.targets) == 1 and isinstance(st.targets[0], ast.Name) and isinstance(st.value, ast.Constant) \
                and isinstance(st.value.value, (str, int, float)) and not isinstance(st.value.value, bool):
            nm_ = st.targets[0].id
            if counts.get(nm_) == 1 and not (nm_.startswith("__") and nm_.endswith("__")) and nm_.upper() == nm_ and nm_.lstrip("_")[:1].isalpha():
                scalars[nm_] = st.value.value
    # ... and names bound once to an expression over such names and literals (`_ALL = _A + _B`)
    if scalars:
        from .miniev import CannotEval, ev

        for _ in range(2):
            for st in tree.body:
                if isinstance(st, ast.Assign) and len(st.targets) == 1 and isinstance(st.targets[0], ast.Name) and not isinstance(st.value, ast.Constant) \
                        and isinstance(st.value, (ast.BinOp, ast.Name)):
                    nm_ = st.targets[0].id
                    if nm_ in scalars or counts.get(nm_) != 1 or nm_.upper() != nm_ or not nm_.lstrip("_")[:1].isalpha():
                        continue
                    try:
                        v_ = ev(st.value, scalars)
                    except (CannotEval, Exception):
                        continue
                    if isinstance(v_, (str, int, float)) and not isinstance(v_, bool):
                        scalars[nm_] = v_
    if scalars:
        class _Named(ast.NodeTransformer):
            def visit_Name(self, n):
                if isinstance(n.ctx, ast.Load) and n.id in scalars:
                    return ast.copy_location(ast.Constant(scalars[n.id]), n)
                return n

        tree = _Named().visit(tree)
    # C13b  a class-level `_NAME = <int or str literal>` (private, ALL_CAPS), bound in exactly one class body of the file and
    # never stored through an attribute anywhere in the file: `self._NAME` / `cls._NAME` / `Class._NAME` read inside that
    # class is the literal (`_LEFT_INDEX = 0`; `self.children[self._LEFT_INDEX]`)
    cbind, stored = {}, set()
    for n in ast.walk(tree):
        if isinstance(n, ast.Attribute) and not isinstance(n.ctx, ast.Load):
            stored.add(n.attr)
        elif isinstance(n, ast.ClassDef):
            for st in n.body:
                if isinstance(st, ast.Assign):
                    for t_ in st.targets:
                        if isinstance(t_, ast.Name):
                            cbind.setdefault(t_.id, []).append((n, st))
                elif isinstance(st, ast.AnnAssign) and isinstance(st.target, ast.Name):
                    cbind.setdefault(st.target.id, []).append((n, st))
    for nm_, sites in cbind.items():
        if len(sites) != 1 or nm_ in stored or counts.get(nm_) != 1 or not nm_.startswith("_") or nm_.startswith("__") \
                or nm_.upper() != nm_ or not nm_.lstrip("_")[:1].isalpha():
            continue
        cls_, st = sites[0]
        if not (isinstance(st, ast.Assign) and len(st.targets) == 1 and isinstance(st.value, ast.Constant)
                and isinstance(st.value.value, (str, int)) and not isinstance(st.value.value, bool)):
            continue
        val_ = st.value.value

        class _ClsNamed(ast.NodeTransformer):
            def visit_Attribute(self, n):
                self.generic_visit(n)
                if isinstance(n.ctx, ast.Load) and n.attr == nm_ and isinstance(n.value, ast.Name) and n.value.id in ("self", "cls", cls_.name):
                    return ast.copy_location(ast.Constant(val_), n)
                return n

        for i_, m_ in enumerate(cls_.body):
            if isinstance(m_, (ast.FunctionDef, ast.AsyncFunctionDef)):
                cls_.body[i_] = _ClsNamed().visit(m_)
        cls_.body = [m_ for m_ in cls_.body if m_ is not st] or [ast.Pass()]
    tree = cn.visit(tree)
    ast.fix_missing_locations(tree)
    return tree
