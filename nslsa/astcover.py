"""Which fields of AST node classes can hold a given kind of construct
(resolved through constructor parameter -> p[i] of the grammar action ->
grammar symbol -> derivability), and whether `_Traverse` hands them out."""
from __future__ import annotations

import ast
from typing import Dict, List, Set

from .dispatch import Dispatch, AST as ASTF
from .grammar import Grammar, PARSER
from .model import Model, last_attr, mangle, unparse


def can_contain(G: Grammar, symbols) -> set:
    """Non-terminals that derive a string containing one of `symbols`
    (terminals or non-terminals)."""
    out = set()
    changed = True
    while changed:
        changed = False
        for P in G.productions:
            if P.name in out:
                continue
            if any(s in symbols or s in out for s in P.syms):
                out.add(P.name)
                changed = True
    return out


def built_classes(model: Model, G: Grammar, D: Dispatch):
    """{ast class name: [(production, constructor call, p-name)]}"""
    from .rules.c08 import select_stmts

    built = {}
    for P in G.productions:
        stmts, pname = select_stmts(P.func, len(P.syms))
        for st in stmts:
            for c in ast.walk(st):
                if not isinstance(c, ast.Call):
                    continue
                ci = model.resolve_class_expr(PARSER, c.func)
                if ci is not None and ci.file == ASTF and D.ast_node in ci.mro:
                    built.setdefault(ci.name, []).append((P, c, pname))
    return built


def param_fields(ci, depth=0) -> Dict[str, str]:
    """{constructor parameter: (mangled) field it is stored in}, following
    super().__init__(...) chains; parameters passed in a list display to the
    base constructor land in `children`."""
    r = ci.find_method("__init__")
    if r is None or depth > 4:
        return {}
    owner, init = r
    params = [a.arg for a in init.args.args[1:]] + [a.arg for a in init.args.kwonlyargs]
    out = {}
    for x in ast.walk(init):
        if isinstance(x, ast.Assign) and isinstance(x.value, ast.Name) and x.value.id in params and isinstance(x.targets[0], ast.Attribute):
            out[x.value.id] = mangle(owner.name, x.targets[0].attr)
        if isinstance(x, ast.Call) and last_attr(x) == "__init__":
            # which base?
            base = None
            f = x.func
            if isinstance(f, ast.Attribute) and isinstance(f.value, ast.Call) and last_attr(f.value) == "super":
                idx = owner.mro.index(owner) if owner in owner.mro else 0
                nxt = [c for c in ci.mro[ci.mro.index(owner) + 1:] if "__init__" in c.methods]
                base = nxt[0] if nxt else None
                args = list(x.args)
            elif isinstance(f, ast.Attribute):
                base = ci.model.resolve_class_expr(owner.file, f.value)
                args = list(x.args[1:])
            else:
                args = []
            if base is None:
                continue
            binit = base.methods.get("__init__")
            if binit is None:
                continue
            bparams = [a.arg for a in binit.args.args[1:]]
            bmap = param_fields(base, depth + 1)
            pairs = list(zip(bparams, args)) + [(k.arg, k.value) for k in x.keywords if k.arg]
            for bp, a in pairs:
                elts = a.elts if isinstance(a, (ast.List, ast.Tuple)) else [a]
                for e in elts:
                    if isinstance(e, ast.Name) and e.id in params and bp in bmap and e.id not in out:
                        out[e.id] = bmap[bp]
    return out


def field_coverage(model: Model, G: Grammar, D: Dispatch, holders: Set[str], col, rule: str, what: str) -> int:
    """For every AST class the grammar builds: a constructor argument that
    comes from a grammar symbol in `holders` must land in a field that
    `_Traverse` hands to the traversal.  Returns number of fields checked."""
    from .rules.c08 import select_stmts, p_index

    n = 0
    for cname, sites in sorted(built_classes(model, G, D).items()):
        ci = model.cls(ASTF, cname)
        init = ci.find_method("__init__")
        if init is None:
            continue
        params = [a.arg for a in init[1].args.args[1:]] + [a.arg for a in init[1].args.kwonlyargs]
        pfield = param_fields(ci)
        trav = {f for f, g in D.traversed_fields(ci)}
        for P, c, pname in sites:
            for prm, a in list(zip(params, c.args)) + [(k.arg, k.value) for k in c.keywords if k.arg]:
                # list display of p[i]
                cand = [a] + (list(a.elts) if isinstance(a, ast.List) else [])
                for e in cand:
                    i = p_index(e, pname)
                    if i is None:
                        continue
                    sym = P.syms[i - 1]
                    if sym in holders:
                        n += 1
                        fld = pfield.get(prm)
                        col.check(fld in trav, rule, f"{ASTF}::{cname}._Traverse covers {prm}",
                                  f"field {fld} (grammar symbol `{sym}` of `{P}`) is handed to the traversal",
                                  f"{cname}.{prm} holds `{sym}` of `{P}`, which can contain {what}, but _Traverse does not hand field {fld} to the traversal: "
                                  "everything below it is invisible to the visitor", ASTF, ci.node)
    mod = model.cls(ASTF, "Module")
    mtrav = {f for f, g in D.traversed_fields(mod)}
    for P in G.productions:
        stmts, pname = select_stmts(P.func, len(P.syms))
        for st in stmts:
            for c in ast.walk(st):
                if isinstance(c, ast.Call) and isinstance(c.func, ast.Attribute) and c.func.attr.startswith("Add") and c.args:
                    i = p_index(c.args[0], pname)
                    if i is not None and P.syms[i - 1] in holders:
                        m = mod.find_method(c.func.attr)
                        if m is None:
                            continue
                        flds = set()
                        for x in ast.walk(m[1]):
                            if isinstance(x, ast.Call) and last_attr(x) in ("append", "add") and isinstance(x.func.value, ast.Attribute):
                                flds.add(mangle(mod.name, x.func.value.attr))
                            if isinstance(x, ast.Assign) and isinstance(x.targets[0], ast.Subscript) and isinstance(x.targets[0].value, ast.Attribute):
                                flds.add(mangle(mod.name, x.targets[0].value.attr))
                        n += 1
                        col.check(bool(flds) and flds <= mtrav, rule, f"{ASTF}::Module._Traverse covers {c.func.attr}",
                                  f"{c.func.attr} stores into {sorted(flds)}, which _Traverse hands out",
                                  f"{c.func.attr} stores `{P.syms[i-1]}` into {sorted(flds)}, which Module._Traverse does not hand out", ASTF, mod.node)
    return n
