"""Which fields of AST node classes can hold a given kind of construct
(resolved through constructor parameter -> p[i] of the grammar action ->
grammar symbol -> derivability), and whether `_Traverse` hands them out."""
from __future__ import annotations

import ast
from typing import Dict, List, Set

from .dispatch import Dispatch, AST as ASTF
from .grammar import Grammar, PARSER
from .model import Model, last_attr, mangle, unparse


def can_contain(G: Grammar, symbols) -> set:
    """Non-terminals that derive a string containing one of `symbols`
    (terminals or non-terminals)."""
    out = set()
    changed = True
    while changed:
        changed = False
        for P in G.productions:
            if P.name in out:
                continue
            if any(s in symbols or s in out for s in P.syms):
                out.add(P.name)
                changed = True
    return out


def built_classes(model: Model, G: Grammar, D: Dispatch):
    """{ast class name: [(production, constructor call, p-name)]}"""
    from .rules.c08 import select_stmts

    built = {}
    for P in G.productions:
        stmts, pname = select_stmts(P.func, len(P.syms))
        for st in stmts:
            for c in ast.walk(st):
                if not isinstance(c, ast.Call):
                    continue
                ci = model.resolve_class_expr(PARSER, c.func)
                if ci is not None and ci.file == ASTF and D.ast_node in ci.mro:
                    built.setdefault(ci.name, []).append((P, c, pname))
    return built


def param_fields(ci, depth=0) -> Dict[str, str]:
    """{constructor parameter: (mangled) field it is stored in}, following
    super().__init__(...) chains; parameters passed in a list display to the
    base constructor land in `children`."""
    r = ci.find_method("__init__")
    if r is None or depth > 4:
        return {}
    owner, init = r
    params = [a.arg for a in init.args.args[1:]] + [a.arg for a in init.args.kwonlyargs]
    out = {}
    for x in ast.walk(init):
        if isinstance(x, ast.Assign) and isinstance(x.value, ast.Name) and x.value.id in params and isinstance(x.targets[0], ast.Attribute):
            out[x.value.id] = mangle(owner.name, x.targets[0].attr)
        if isinstance(x, ast.Call) and last_attr(x) == "__init__":
            # which base?
            base = None
            f = x.func
            if isinstance(f, ast.Attribute) and isinstance(f.value, ast.Call) and last_attr(f.value) == "super":
                idx = owner.mro.index(owner) if owner in owner.mro else 0
                nxt = [c for c in ci.mro[ci.mro.index(owner) + 1:] if "__init__" in c.methods]
                base = nxt[0] if nxt else None
                args = list(x.args)
            elif isinstance(f, ast.Attribute):
                base = ci.model.resolve_class_expr(owner.file, f.value)
                args = list(x.args[1:])
            else:
                args = []
            if base is None:
                continue
            binit = base.methods.get("__init__")
            if binit is None:
                continue
            bparams = [a.arg for a in binit.args.args[1:]]
            bmap = param_fields(base, depth + 1)
            pairs = list(zip(bparams, args)) + [(k.arg, k.value) for k in x.keywords if k.arg]
            for bp, a in pairs:
                if isinstance(a, ast.Name) and a.id not in params:
                    # a local bound once in the constructor (`operands = [left, right]`) stands for its value
                    binds = [s.value for s in ast.walk(init) if isinstance(s, ast.Assign) and len(s.targets) == 1 and isinstance(s.targets[0], ast.Name) and s.targets[0].id == a.id]
                    a = binds[0] if len(binds) == 1 else a
                elts = a.elts if isinstance(a, (ast.List, ast.Tuple)) else [a]
                for e in elts:
                    if isinstance(e, ast.Name) and e.id in params and bp in bmap and e.id not in out:
                        out[e.id] = bmap[bp]
    return out


def field_coverage(model: Model, G: Grammar, D: Dispatch, holders: Set[str], col, rule: str, what: str) -> int:
    """For every AST class the grammar builds: a constructor argument that
    comes from a grammar symbol in `holders` must land in a field that
    `_Traverse` hands to the traversal.  Returns number of fields checked."""
    from .rules.c08 import select_stmts, p_index

    n = 0
    for cname, sites in sorted(built_classes(model, G, D).items()):
        ci = model.cls(ASTF, cname)
        init = ci.find_method("__init__")
        if init is None:
            continue
        params = [a.arg for a in init[1].args.args[1:]] + [a.arg for a in init[1].args.kwonlyargs]
        pfield = param_fields(ci)
        trav = {f for f, g in D.traversed_fields(ci)}
        for P, c, pname in sites:
            for prm, a in list(zip(params, c.args)) + [(k.arg, k.value) for k in c.keywords if k.arg]:
                # list display of p[i]
                cand = [a] + (list(a.elts) if isinstance(a, ast.List) else [])
                for e in cand:
                    i = p_index(e, pname)
                    if i is None:
                        continue
                    sym = P.syms[i - 1]
                    if sym in holders:
                        n += 1
                        fld = pfield.get(prm)
                        col.check(fld in trav, rule, f"{ASTF}::{cname}._Traverse covers {prm}",
                                  f"field {fld} (grammar symbol `{sym}` of `{P}`) is handed to the traversal",
                                  f"{cname}.{prm} holds `{sym}` of `{P}`, which can contain {what}, but _Traverse does not hand field {fld} to the traversal: "
                                  "everything below it is invisible to the visitor", ASTF, ci.node)
    mod = model.cls(ASTF, "Module")
    mtrav = {f for f, g in D.traversed_fields(mod)}
    for P in G.productions:
        stmts, pname = select_stmts(P.func, len(P.syms))
        for st in stmts:
            for c in ast.walk(st):
                if isinstance(c, ast.Call) and isinstance(c.func, ast.Attribute) and c.func.attr.startswith("Add") and c.args:
                    i = p_index(c.args[0], pname)
                    if i is not None and P.syms[i - 1] in holders:
                        m = mod.find_method(c.func.attr)
                        if m is None:
                            continue
                        flds = set()
                        for x in ast.walk(m[1]):
                            if isinstance(x, ast.Call) and last_attr(x) in ("append", "add") and isinstance(x.func.value, ast.Attribute):
                                flds.add(mangle(mod.name, x.func.value.attr))
                            if isinstance(x, ast.Assign) and isinstance(x.targets[0], ast.Subscript) and isinstance(x.targets[0].value, ast.Attribute):
                                flds.add(mangle(mod.name, x.targets[0].value.attr))
                        n += 1
                        col.check(bool(flds) and flds <= mtrav, rule, f"{ASTF}::Module._Traverse covers {c.func.attr}",
                                  f"{c.func.attr} stores into {sorted(flds)}, which _Traverse hands out",
                                  f"{c.func.attr} stores `{P.syms[i-1]}` into {sorted(flds)}, which Module._Traverse does not hand out", ASTF, mod.node)
    return n


def _getters_of(ci) -> Dict[str, tuple]:
    """accessor method -> (field it returns, index or None):  GetLeft -> ('children', 0), GetArguments -> ('children', None)"""
    out = {}
    for c in ci.mro:
        for name, m in c.methods.items():
            if name in out or len(m.args.args) != 1:
                continue
            body = [s for s in m.body if not (isinstance(s, ast.Expr) and isinstance(s.value, ast.Constant))]
            if len(body) == 1 and isinstance(body[0], ast.Return) and body[0].value is not None:
                v = body[0].value
                if isinstance(v, ast.Attribute) and isinstance(v.value, ast.Name) and v.value.id == m.args.args[0].arg:
                    out[name] = (mangle(c.name, v.attr), None)
                elif isinstance(v, ast.Subscript) and isinstance(v.value, ast.Attribute) and isinstance(v.value.value, ast.Name) and v.value.value.id == m.args.args[0].arg \
                        and isinstance(v.slice, ast.Constant) and isinstance(v.slice.value, int):
                    out[name] = (mangle(c.name, v.value.attr), v.slice.value)
    return out


def check_handler_coverage(model: Model, D: Dispatch, col, rule: str, visitor, rel: str, why: str) -> int:
    """Every explicit handler v_<Class> of `visitor` hands every child of its node on to the visitor (through dispatch) on
    every path: `node.AcceptVisitor(self, ..)`, or v_Generic / v_Visit of each child field (for a list field: of every element,
    or of each indexed accessor the class has).  `<child>.AcceptVisitor(self)` only reaches the grandchildren: it does not count
    for that child."""
    from .paths import paths, calls_on_path

    n = 0
    ast_by_name = {c.name: c for c in D.ast_classes()}
    for hname, h in sorted(visitor.methods.items()):
        if not hname.startswith("v_") or hname in ("v_Generic", "v_Visit", "v_Default") or len(h.args.args) < 2:
            continue
        ci = ast_by_name.get(hname[2:])
        if ci is None:
            continue
        fields = [f for f, _ in D.traversed_fields(ci)]
        if not fields:
            continue
        n += 1
        getters = _getters_of(ci)
        nodep = h.args.args[1].arg
        selfn = h.args.args[0].arg
        idx_getters = {}
        for g, (f, i) in getters.items():
            if i is not None:
                idx_getters.setdefault(f, set()).add(i)
        missing_somewhere = None
        for evs, status in paths(h.body):
            if status == "raise":
                continue
            covered = set()
            partial = {}
            whole = False
            loops = [e.node for e in evs if e.kind == "loop" and isinstance(e.node, ast.For)]
            for c in calls_on_path(evs):
                la = last_attr(c)
                if la == "AcceptVisitor" and isinstance(c.func, ast.Attribute) and unparse(c.func.value) == nodep and c.args and unparse(c.args[0]) == selfn:
                    whole = True
                if la in ("v_Generic", "v_Visit") and c.args:
                    a = c.args[0]
                    # direct child: node.GetX()
                    if isinstance(a, ast.Call) and isinstance(a.func, ast.Attribute) and unparse(a.func.value) == nodep and a.func.attr in getters:
                        f, i = getters[a.func.attr]
                        if i is None:
                            covered.add(f)
                        else:
                            partial.setdefault(f, set()).add(i)
                    # element of a loop over a list-valued accessor / the node itself / node.children
                    if isinstance(a, ast.Name):
                        for lp in loops:
                            if a.id in {x.id for x in ast.walk(lp.target) if isinstance(x, ast.Name)}:
                                it = lp.iter
                                if isinstance(it, ast.Call) and dotted_name(it.func) == "zip" and it.args:
                                    it = it.args[0]
                                if isinstance(it, ast.Call) and isinstance(it.func, ast.Attribute) and unparse(it.func.value) == nodep and it.func.attr in getters and getters[it.func.attr][1] is None:
                                    covered.add(getters[it.func.attr][0])
                                elif unparse(it) in (nodep, f"{nodep}.children"):
                                    covered.add(mangle(ci.name, "children") if mangle(ci.name, "children") in fields else "children")
            # a loop that visits each element unconditionally covers the list it runs over, whether or not the path iterates it
            for lp in loops:
                tnames = {x.id for x in ast.walk(lp.target) if isinstance(x, ast.Name)}
                visits_elem = any(isinstance(s, ast.Expr) and isinstance(s.value, ast.Call) and last_attr(s.value) in ("v_Generic", "v_Visit") and s.value.args
                                  and isinstance(s.value.args[0], ast.Name) and s.value.args[0].id in tnames for s in lp.body)
                if not visits_elem:
                    continue
                it = lp.iter
                if isinstance(it, ast.Call) and dotted_name(it.func) == "zip" and it.args:
                    it = it.args[0]
                if isinstance(it, ast.Call) and isinstance(it.func, ast.Attribute) and unparse(it.func.value) == nodep and it.func.attr in getters and getters[it.func.attr][1] is None:
                    covered.add(getters[it.func.attr][0])
                elif unparse(it) in (nodep, f"{nodep}.children"):
                    covered.add("children")
            for f, got in partial.items():
                if idx_getters.get(f) and got >= idx_getters[f]:
                    covered.add(f)
            miss = [f for f in fields if not whole and f not in covered]
            if miss and missing_somewhere is None:
                missing_somewhere = miss
        col.check(missing_somewhere is None, rule, f"{rel}::{hname} hands every child on", f"children {fields} are all visited through dispatch on every path",
                  f"{hname} does not visit {missing_somewhere} of its node (a `<child>.AcceptVisitor(..)` call only reaches the grandchildren): {why}", rel, h)
    return n


def dotted_name(e):
    if isinstance(e, ast.Name):
        return e.id
    if isinstance(e, ast.Attribute):
        b = dotted_name(e.value)
        return f"{b}.{e.attr}" if b else None
    return None
