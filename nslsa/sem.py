"""Normalisation helpers that make rules insensitive to behaviour-preserving
refactorings: inlining of single-assignment pure locals, module-level constant
lookup, inlining of same-class helper methods, loop/comprehension-agnostic
iteration queries."""
from __future__ import annotations

import ast
import copy
from typing import Dict, List, Optional

from .model import ClassInfo, Model, dotted, last_attr, mangle, unparse, walk_no_nested

IMPURE_CALLS = {"v_Visit", "v_Generic", "Visit", "AcceptVisitor", "AddInstruction", "CreateBasicBlock", "CreateConstant", "CreateFunction", "EndLoop", "BeginLoop",
                "append", "add", "pop", "update", "extend", "insert", "remove", "write", "Load", "load", "dump", "Raise", "Process", "RegisterValue", "SetStore",
                "AddLocal", "AddFunction", "AddFunctionType", "AddExport", "AddCode", "AddType", "Add", "next", "open", "parse", "input", "token", "BytesIO", "StringIO"}


def is_pure(e) -> bool:
    """Expression without observable effects (by the repository's conventions:
    getters GetX()/IsX(), attribute chains, operators, len/isinstance/str...)."""
    for n in ast.walk(e):
        if isinstance(n, ast.Call):
            la = last_attr(n)
            if la in IMPURE_CALLS:
                return False
            if la is None:
                return False
            if la[:1].isupper() and not (la.startswith(("Get", "Is", "Has", "With")) or la in ("Integer", "Float", "UnsignedInteger", "VectorType", "MatrixType", "Path")):
                # constructor or unknown capitalised call: treat as impure (object identity / effects)
                return False
        if isinstance(n, (ast.Yield, ast.Await, ast.NamedExpr, ast.Lambda)):
            return False
    return True


def local_env(func: ast.FunctionDef, model: Optional[Model] = None, rel: Optional[str] = None, allow_impure: bool = False) -> Dict[str, ast.AST]:
    """{name: value expression} for locals assigned exactly once with a pure
    value that does not mention itself; plus module-level constants of `rel`."""
    counts: Dict[str, int] = {}
    vals: Dict[str, ast.AST] = {}
    params = {a.arg for a in func.args.args} | {a.arg for a in func.args.kwonlyargs}
    for n in walk_no_nested(func):
        tgts = []
        if isinstance(n, ast.Assign):
            tgts = n.targets
            v = n.value
        elif isinstance(n, ast.AnnAssign) and n.value is not None:
            tgts = [n.target]
            v = n.value
        elif isinstance(n, ast.AugAssign):
            if isinstance(n.target, ast.Name):
                counts[n.target.id] = counts.get(n.target.id, 0) + 2
            continue
        elif isinstance(n, (ast.For, ast.comprehension)):
            for x in ast.walk(n.target):
                if isinstance(x, ast.Name):
                    counts[x.id] = counts.get(x.id, 0) + 2
            continue
        elif isinstance(n, ast.With):
            for it in n.items:
                if it.optional_vars is not None:
                    for x in ast.walk(it.optional_vars):
                        if isinstance(x, ast.Name):
                            counts[x.id] = counts.get(x.id, 0) + 2
            continue
        for t in tgts:
            if isinstance(t, ast.Name):
                counts[t.id] = counts.get(t.id, 0) + 1
                vals[t.id] = v
            elif isinstance(t, ast.Tuple) and isinstance(v, ast.Tuple) and len(t.elts) == len(v.elts) and all(isinstance(x, ast.Name) for x in t.elts):
                # a, b = x, y
                for x, y in zip(t.elts, v.elts):
                    counts[x.id] = counts.get(x.id, 0) + 1
                    vals[x.id] = y
            else:
                for x in ast.walk(t):
                    if isinstance(x, ast.Name) and isinstance(x.ctx, ast.Store):
                        counts[x.id] = counts.get(x.id, 0) + 2
    env = {}
    for name, c in counts.items():
        if c == 1 and name not in params and name in vals:
            v = vals[name]
            if (allow_impure or is_pure(v)) and name not in {x.id for x in ast.walk(v) if isinstance(x, ast.Name)}:
                env[name] = v
    if model is not None and rel is not None and rel in model.files:
        for k, v in model.files[rel].assigns.items():
            if k not in env and k not in counts and k not in params:
                env.setdefault(k, v)
    return env


class _Subst(ast.NodeTransformer):
    def __init__(self, env, depth=0):
        self.env = env
        self.depth = depth

    def visit_Name(self, n):
        if isinstance(n.ctx, ast.Load) and n.id in self.env and self.depth < 6:
            v = copy.deepcopy(self.env[n.id])
            return _Subst(self.env, self.depth + 1).visit(v)
        return n


def resolve(e, env: Dict[str, ast.AST]):
    """Copy of expression e with pure single-assignment locals inlined."""
    if e is None or not env:
        return e
    return ast.fix_missing_locations(_Subst(env).visit(copy.deepcopy(e)))


def rtext(e, env=None) -> str:
    return " ".join(unparse(resolve(e, env or {})).split())


# ---------------------------------------------------------------------------
def _all_tail(stmts) -> bool:
    """every Return of this statement list is in tail position: the list ends in a return / a raise / an if-else whose arms
    do, and nothing before that contains a return"""
    if not stmts:
        return False
    for s in stmts[:-1]:
        if any(isinstance(x, ast.Return) for x in walk_no_nested(s)) or isinstance(s, ast.Return):
            return False
    last = stmts[-1]
    if isinstance(last, (ast.Return, ast.Raise)):
        return True
    if isinstance(last, ast.If):
        return bool(last.orelse) and _all_tail(last.body) and _all_tail(last.orelse)
    return False


def _terminates(stmts) -> bool:
    if not stmts:
        return False
    last = stmts[-1]
    if isinstance(last, (ast.Return, ast.Raise)):
        return True
    if isinstance(last, ast.If):
        return bool(last.orelse) and _terminates(last.body) and _terminates(last.orelse)
    return False


def _guards_to_else(stmts):
    """`if C: ..return A` followed by REST  ->  `if C: ..return A` `else: REST`  (a guard clause is the if-else it abbreviates);
    a copy, applied recursively, so that a helper written with early returns has all its returns in tail position."""
    out = []
    for i, s in enumerate(stmts):
        if isinstance(s, ast.If) and s.orelse and i + 1 < len(stmts):
            # an if / elif chain without a final else, every branch of which returns: what follows is that missing else
            chain, node = [], s
            while True:
                chain.append(node)
                if len(node.orelse) == 1 and isinstance(node.orelse[0], ast.If):
                    node = node.orelse[0]
                else:
                    break
            if not node.orelse and all(_terminates(_guards_to_else(c_.body)) for c_ in chain):
                rest = _guards_to_else(stmts[i + 1:])

                def rebuild(k):
                    n_ = copy.copy(chain[k])
                    n_.body = _guards_to_else(chain[k].body)
                    n_.orelse = [rebuild(k + 1)] if k + 1 < len(chain) else rest
                    return n_

                out.append(rebuild(0))
                return out
        if isinstance(s, ast.If) and not s.orelse and _terminates(s.body) and i + 1 < len(stmts):
            n = copy.copy(s)
            n.body = _guards_to_else(s.body)
            n.orelse = _guards_to_else(stmts[i + 1:])
            out.append(n)
            return out
        if isinstance(s, ast.If):
            n = copy.copy(s)
            n.body = _guards_to_else(s.body)
            n.orelse = _guards_to_else(s.orelse)
            out.append(n)
        else:
            out.append(s)
    return out


def _tail_replace(stmts, make):
    """copy of a tail-return statement list with every `return E` replaced by make(E)"""
    if not stmts:
        return []
    out = [copy.deepcopy(s) for s in stmts[:-1]]
    last = stmts[-1]
    if isinstance(last, ast.Return):
        out += make(copy.deepcopy(last.value))
    elif isinstance(last, ast.If):
        n = copy.copy(last)
        n.test = copy.deepcopy(last.test)
        n.body = _tail_replace(last.body, make)
        n.orelse = _tail_replace(last.orelse, make)
        out.append(n)
    else:
        out.append(copy.deepcopy(last))
    return out


def expand_module_helpers(model: Model, rel: str, func: ast.FunctionDef, depth: int = 2, skip=("v_",)) -> ast.FunctionDef:
    """expand_helpers for a module-level function: calls `helper(args)` to small module-level functions of the same file are
    read in place (`return _IsCompatiblePrimitive(left, right)`)."""
    return expand_helpers(model, None, func, depth, skip, module_rel=rel)


def expand_helpers(model: Model, cls: ClassInfo, func: ast.FunctionDef, depth: int = 2, skip=("v_",), module_rel: Optional[str] = None) -> ast.FunctionDef:
    """Copy of `func` in which statement-level calls `self.helper(args)` (also
    `return self.helper(args)` and `x = self.helper(args)` for helpers whose
    only return is the last statement) to small non-handler methods of the
    same class are replaced by the helper's body with parameters substituted."""
    if depth <= 0 or (not func.args.args and module_rel is None):
        return func
    selfn = func.args.args[0].arg if module_rel is None else "\0none"
    f2 = copy.deepcopy(func)
    inlined = set(getattr(func, "_nslsa_inlined", ()))
    caller_names = {n.id for n in ast.walk(func) if isinstance(n, ast.Name)} | {a.arg for a in func.args.args}
    mod_funcs = model.file(module_rel).functions if module_rel is not None else {}

    def helper_of(call) -> Optional[ast.FunctionDef]:
        if module_rel is not None:
            if not (isinstance(call, ast.Call) and isinstance(call.func, ast.Name) and call.func.id in mod_funcs and not call.func.id.startswith(skip)):
                return None
            h = mod_funcs[call.func.id]
            if h is func or h.name == func.name or len(h.body) > 25 or h.args.vararg or h.args.kwarg or h.decorator_list:
                return None
            rets = [n for n in walk_no_nested(h) if isinstance(n, ast.Return)]
            if rets and not (len(rets) == 1 and h.body and h.body[-1] is rets[0]):
                if not _all_tail(_guards_to_else(h.body)):
                    return None
            return h
        if not (isinstance(call, ast.Call) and isinstance(call.func, ast.Attribute) and isinstance(call.func.value, ast.Name) and call.func.value.id == selfn):
            return None
        name = call.func.attr
        if name.startswith(skip) or name in ("Visit", "v_Visit", "v_Generic", "Print", "SetOutput", "SetErrorHandler", "OnEnter", "OnLeave"):
            return None
        r = cls.find_method(name) or cls.find_method(mangle(cls.name, name))
        if r is None or r[0].file != cls.file:
            return None
        h = r[1]
        if h is func or h.name == func.name or len(h.body) > 25 or h.args.vararg or h.args.kwarg:
            return None
        if any(unparse(d) != "staticmethod" for d in h.decorator_list):
            return None
        # returns only as the last top-level statement
        rets = [n for n in walk_no_nested(h) if isinstance(n, ast.Return)]
        if rets and not (len(rets) == 1 and h.body and h.body[-1] is rets[0]):
            # several returns are fine when each is the last thing its branch does (an if/elif/else ladder of results)
            if not _all_tail(_guards_to_else(h.body)):
                return None
        return h

    def verdict_helper_of(call) -> Optional[ast.FunctionDef]:
        """a private method of the class whose every return is the constant False, except a `return True` as its last statement"""
        if module_rel is not None or not (isinstance(call, ast.Call) and isinstance(call.func, ast.Attribute) and isinstance(call.func.value, ast.Name) and call.func.value.id == selfn):
            return None
        name = call.func.attr
        if name.startswith(skip):
            return None
        r = cls.find_method(name) or cls.find_method(mangle(cls.name, name))
        if r is None or r[0].file != cls.file:
            return None
        h = r[1]
        if h is func or h.name == func.name or len(h.body) > 25 or h.args.vararg or h.args.kwarg or any(unparse(d) != "staticmethod" for d in h.decorator_list):
            return None
        rets = [n for n in walk_no_nested(h) if isinstance(n, ast.Return)]
        if len(rets) < 2 or not (h.body and h.body[-1] is rets[-1] or h.body[-1] in rets):
            return None
        last = h.body[-1]
        if not (isinstance(last, ast.Return) and isinstance(last.value, ast.Constant) and last.value.value is True):
            return None
        for r_ in rets:
            if r_ is last:
                continue
            if not (isinstance(r_.value, ast.Constant) and r_.value.value is False):
                return None
        return h

    def instantiate(h: ast.FunctionDef, call: ast.Call, keep=()):
        static = any(unparse(d) == "staticmethod" for d in h.decorator_list) or module_rel is not None
        params = [a.arg for a in (h.args.args if static else h.args.args[1:])]
        env = {}
        for p, a in zip(params, call.args):
            env[p] = a
        for k in call.keywords:
            if k.arg:
                env[k.arg] = k.value
        defaults = dict(zip(reversed(params), reversed(h.args.defaults)))
        for p in params:
            if p not in env and p in defaults:
                env[p] = defaults[p]
        # only substitute parameters that are never re-bound in the helper; re-bound ones get an explicit assignment
        rebound = {n.id for n in walk_no_nested(h) if isinstance(n, ast.Name) and isinstance(n.ctx, ast.Store)} | \
                  {n.target.id for n in walk_no_nested(h) if isinstance(n, ast.AugAssign) and isinstance(n.target, ast.Name)}
        pre = []
        sub_env = {}
        for p, a in env.items():
            if p in rebound:
                pre.append(ast.Assign(targets=[ast.Name(id=p, ctx=ast.Store())], value=copy.deepcopy(a), lineno=call.lineno, col_offset=0))
            else:
                sub_env[p] = a
        hself = h.args.args[0].arg if (h.args.args and not static) else selfn
        if hself != selfn:
            sub_env[hself] = ast.Name(id=selfn, ctx=ast.Load())
        # a local of the helper that the caller also uses as a name is the helper's own: renamed, so it cannot clobber the
        # caller's variable once the statements sit side by side
        ren = {loc: f"{loc}__{h.name.strip('_')}" for loc in sorted((rebound - set(params)) & caller_names) if loc not in keep}

        class _Ren(ast.NodeTransformer):
            def visit_Name(self, n):
                if n.id in ren:
                    n.id = ren[n.id]
                return n

        hbody = h.body
        if any(isinstance(x, ast.Return) and x is not h.body[-1] for x in walk_no_nested(h)):
            hbody = _guards_to_else(h.body)
        body = [ast.fix_missing_locations(_Subst(sub_env).visit(_Ren().visit(copy.deepcopy(s)) if ren else copy.deepcopy(s))) for s in hbody
                if not (isinstance(s, ast.Expr) and isinstance(s.value, ast.Constant))]
        for s in pre + body:
            for n in ast.walk(s):
                # inlined statements sit at the call site (order comparisons by line number stay meaningful)
                if isinstance(n, (ast.stmt, ast.expr)):
                    n.lineno = call.lineno
                    n.end_lineno = call.lineno
                    n.col_offset = 0
                    n.end_col_offset = 0
        return pre + body

    def rewrite(stmts: List[ast.stmt]) -> List[ast.stmt]:
        out = []
        for st in stmts:
            for fld in ("body", "orelse", "finalbody"):
                if hasattr(st, fld) and isinstance(getattr(st, fld), list) and not isinstance(st, (ast.FunctionDef, ast.ClassDef)):
                    setattr(st, fld, rewrite(getattr(st, fld)))
            if isinstance(st, ast.Match):
                for c in st.cases:
                    c.body = rewrite(c.body)
            if isinstance(st, ast.If) and not st.orelse and isinstance(st.test, ast.UnaryOp) and isinstance(st.test.op, ast.Not) and st.body and isinstance(st.body[-1], (ast.Return, ast.Raise)):
                # `if not self.h(..): <exit>` with h a verdict helper (returns False at its failure points - also from inside a
                # loop - and True as its last statement): h's statements in place, each `return False` being the caller's exit
                hb = verdict_helper_of(st.test.operand)
                full_ = instantiate(hb, st.test.operand) if hb is not None else []
                if hb is not None and full_ and isinstance(full_[-1], ast.Return) and isinstance(full_[-1].value, ast.Constant) and full_[-1].value.value is True:
                    inlined.add(hb.name)
                    body_ = full_[:-1]
                    exit_ = st.body

                    class _Exit(ast.NodeTransformer):
                        def visit_Return(self, r):
                            return [copy.deepcopy(x) for x in exit_]

                        def visit_FunctionDef(self, f_):
                            return f_

                        def visit_Lambda(self, f_):
                            return f_

                    new_ = []
                    for s_ in body_:
                        v_ = _Exit().visit(s_)
                        new_.extend(v_ if isinstance(v_, list) else [v_])
                    out.extend(new_)
                    continue
            if isinstance(st, ast.For) and helper_of(st.iter) is not None:
                # `for x in self.h(..):`  ->  the helper's statements, then the loop over what it returned
                tmp = f"_iter{getattr(st, 'lineno', 0)}"
                pre_ = ast.Assign(targets=[ast.Name(id=tmp, ctx=ast.Store())], value=st.iter, lineno=st.lineno, col_offset=0)
                exp_ = rewrite([pre_])
                if not (len(exp_) == 1 and exp_[0] is pre_):
                    last_ = exp_[-1]
                    if isinstance(last_, ast.Assign) and isinstance(last_.targets[0], ast.Name) and last_.targets[0].id == tmp and isinstance(last_.value, ast.Name):
                        st.iter = ast.Name(id=last_.value.id, ctx=ast.Load())
                        exp_ = exp_[:-1]
                    else:
                        st.iter = ast.Name(id=tmp, ctx=ast.Load())
                    out.extend(exp_)
            call = None
            mode = None
            if isinstance(st, ast.Expr):
                call, mode = st.value, "stmt"
            elif isinstance(st, ast.Return) and st.value is not None:
                call, mode = st.value, "return"
            elif isinstance(st, ast.Assign) and len(st.targets) == 1:
                call, mode = st.value, "assign"
            h = helper_of(call) if call is not None else None
            if h is None:
                out.append(st)
                continue
            inlined.add(h.name)
            # the local the helper returns may keep its name when it is the very variable the call's result is assigned to
            # (`opCode = self.h(..)` with `return opCode` in h) and no argument reads that variable
            keep = set()
            if mode == "assign" and isinstance(st.targets[0], ast.Name) and not any(isinstance(x, ast.Name) and x.id == st.targets[0].id for a_ in list(call.args) + [k.value for k in call.keywords] for x in ast.walk(a_)):
                keep.add(st.targets[0].id)
            body = instantiate(h, call, keep)
            last = body[-1] if body else None
            nret_ = sum(1 for s_ in body for x_ in ast.walk(s_) if isinstance(x_, ast.Return))
            if (nret_ > 1 or (nret_ == 1 and not isinstance(last, ast.Return))) and _all_tail(body):
                # a ladder of results: every `return E` becomes what the call site does with the result
                if mode == "assign":
                    mk = lambda v, st=st: [ast.Assign(targets=copy.deepcopy(st.targets), value=v if v is not None else ast.Constant(None), lineno=st.lineno, col_offset=0)]
                elif mode == "return":
                    mk = lambda v, st=st: [ast.Return(value=v, lineno=st.lineno, col_offset=0)]
                else:
                    mk = lambda v, st=st: ([ast.Expr(value=v, lineno=st.lineno, col_offset=0)] if v is not None else [ast.Pass(lineno=st.lineno, col_offset=0)])
                out.extend(_tail_replace(body, mk))
                continue
            if mode == "stmt":
                if isinstance(last, ast.Return):
                    body = body[:-1] + ([ast.Expr(value=last.value, lineno=st.lineno, col_offset=0)] if last.value is not None else [])
                out.extend(body)
            elif mode == "return":
                if not isinstance(last, ast.Return):
                    body = body + [ast.Return(value=None, lineno=st.lineno, col_offset=0)]
                out.extend(body)
            else:
                if isinstance(last, ast.Return) and last.value is not None:
                    body = body[:-1] + [ast.Assign(targets=st.targets, value=last.value, lineno=st.lineno, col_offset=0)]
                    out.extend(body)
                else:
                    out.append(st)
        return out

    f2.body = rewrite(f2.body)
    ast.fix_missing_locations(f2)
    changed = unparse(f2) != unparse(func)
    if changed:
        # the instantiated bodies are brought back into canonical form (`a, b = x, y` from a helper that returned a pair is
        # two assignments; `x = x` from a parameter bound to a local of the same name is nothing)
        from .canon import _Canon

        class _DropSelf(ast.NodeTransformer):
            def visit_Assign(self, n):
                if len(n.targets) == 1 and isinstance(n.targets[0], ast.Name) and isinstance(n.value, ast.Name) and n.value.id == n.targets[0].id:
                    return ast.copy_location(ast.Pass(), n)
                return n

        f2 = _Canon().visit(f2)
        f2 = _DropSelf().visit(f2)
        if not f2.body:
            f2.body = [ast.Pass()]
        ast.fix_missing_locations(f2)
    f2._nslsa_inlined = inlined
    if depth > 1:
        return expand_helpers(model, cls, f2, depth - 1, skip, module_rel) if changed else f2
    return f2


def constant_params(model: Model, func: ast.FunctionDef, method: bool = True) -> Dict[str, object]:
    """{parameter: value} for the parameters of `func` that receive the same literal constant at every call site of that name
    in the repository (or are omitted everywhere and default to a literal): an option nobody uses yet.  Tests on them fold."""
    params = [a.arg for a in func.args.args[(1 if method else 0):]]
    defaults = dict(zip(reversed(params), reversed(func.args.defaults)))
    for a, d in zip(func.args.kwonlyargs, func.args.kw_defaults):
        params.append(a.arg)
        if d is not None:
            defaults[a.arg] = d
    names = {func.name, func.name.lstrip("_"), "__" + func.name.split("__")[-1]}
    sites = [c for fi in model.files.values() for c in ast.walk(fi.tree) if isinstance(c, ast.Call) and (last_attr(c) in names or (isinstance(c.func, ast.Name) and c.func.id in names))]
    out = {}
    if not sites:
        return out
    npos = len(func.args.args) - (1 if method else 0)
    for i, p in enumerate(params):
        vals = []
        for c in sites:
            if any(isinstance(a, ast.Starred) for a in c.args) or any(k.arg is None for k in c.keywords):
                vals.append(None)
                continue
            v = c.args[i] if i < npos and i < len(c.args) else next((k.value for k in c.keywords if k.arg == p), defaults.get(p))
            vals.append(v)
        if vals and all(isinstance(v, ast.Constant) for v in vals) and len({repr(v.value) for v in vals}) == 1:
            out[p] = vals[0].value
    return out


def inline_pure_calls(cls: ClassInfo, expr: ast.AST, selfn: str = "self", depth: int = 2) -> ast.AST:
    """Copy of `expr` in which calls `self.h(args)` / `Cls.h(args)` to methods of `cls` whose body is a single `return E`
    (after an optional docstring) are replaced by E with the parameters substituted (a predicate extracted into a helper)."""
    if depth <= 0:
        return expr

    class _In(ast.NodeTransformer):
        def visit_Call(self, node):
            self.generic_visit(node)
            f = node.func
            if not (isinstance(f, ast.Attribute) and isinstance(f.value, ast.Name) and f.value.id in (selfn, cls.name)) or node.keywords:
                return node
            r = cls.find_method(f.attr) or cls.find_method(mangle(cls.name, f.attr))
            if r is None:
                return node
            h = r[1]
            body = [s for s in h.body if not (isinstance(s, ast.Expr) and isinstance(s.value, ast.Constant))]
            if len(body) != 1 or not isinstance(body[0], ast.Return) or body[0].value is None or h.args.vararg or h.args.kwarg:
                return node
            static = any(unparse(d) in ("staticmethod",) for d in h.decorator_list)
            params = [a.arg for a in h.args.args[(0 if static else 1):]]
            if len(params) != len(node.args):
                return node
            env = dict(zip(params, node.args))
            if not static and h.args.args:
                env[h.args.args[0].arg] = ast.Name(id=selfn, ctx=ast.Load())
            return ast.copy_location(inline_pure_calls(cls, _Subst(env).visit(copy.deepcopy(body[0].value)), selfn, depth - 1), node)

    return ast.fix_missing_locations(_In().visit(copy.deepcopy(expr)))


def visits_each_in_order(model: Model, cls: ClassInfo, func: ast.FunctionDef, source_texts) -> bool:
    """Does `func` (helpers expanded) visit every element of one of `source_texts`
    (e.g. 'expr', 'expr.GetArguments()') in order, unfiltered - as a
    comprehension or as a loop that appends?"""
    f = expand_helpers(model, cls, func)
    for it, tgt, body, kind in iterations(f):
        if " ".join(unparse(it).split()) not in source_texts:
            continue
        if kind == "comp":
            # find the comprehension node to make sure there is no filter
            ok = True
            for n in ast.walk(f):
                if isinstance(n, (ast.ListComp, ast.GeneratorExp)) and n.generators[0].iter is it and n.generators[0].ifs:
                    ok = False
            if ok and any(isinstance(c, ast.Call) and last_attr(c) in ("v_Visit", "v_Generic") and c.args and unparse(c.args[0]) == unparse(tgt) for b in body for c in ast.walk(b)):
                return True
        else:
            stmts = [s for s in body]
            guarded = any(isinstance(s, (ast.If, ast.Continue, ast.Break)) for s in stmts)
            visits = any(isinstance(c, ast.Call) and last_attr(c) in ("v_Visit", "v_Generic") and c.args and unparse(c.args[0]) == unparse(tgt) for s in stmts for c in ast.walk(s))
            appends = any(isinstance(c, ast.Call) and last_attr(c) == "append" for s in stmts for c in ast.walk(s))
            if visits and appends and not guarded:
                return True
    return False


def alpha(func: ast.FunctionDef, inline: bool = False) -> str:
    """Source text of `func`'s body with every name it binds replaced by a positional one: parameters p0, p1, ..
    (the first parameter stays `self` when it is called self/cls), locals v0, v1, .. in order of first binding.
    Two functions that differ only in how locals / parameters are called have the same alpha text.  With
    inline=True single-assignment pure locals are inlined first (see local_env)."""
    f = copy.deepcopy(func)
    if inline:
        env = local_env(f)
        if env:
            class _Drop(ast.NodeTransformer):
                def visit_Assign(self, n):
                    if len(n.targets) == 1 and isinstance(n.targets[0], ast.Name) and n.targets[0].id in env:
                        return None
                    return self.generic_visit(n)

            f = _Subst(env).visit(f)
            f = _Drop().visit(f)
            for n in ast.walk(f):
                if hasattr(n, "body") and isinstance(n.body, list) and not n.body:
                    n.body = [ast.Pass()]
            ast.fix_missing_locations(f)
    mapping = {}
    args = f.args.posonlyargs + f.args.args + f.args.kwonlyargs + ([f.args.vararg] if f.args.vararg else []) + ([f.args.kwarg] if f.args.kwarg else [])
    k = 0
    for i, a in enumerate(args):
        if i == 0 and a.arg in ("self", "cls"):
            continue
        mapping[a.arg] = f"p{k}"
        k += 1
    stores = sorted(((n.lineno, n.col_offset, n.id) for n in ast.walk(f) if isinstance(n, ast.Name) and isinstance(n.ctx, ast.Store)), key=lambda t: (t[0], t[1]))
    j = 0
    for _, _, name in stores:
        if name not in mapping:
            mapping[name] = f"v{j}"
            j += 1
    for n in ast.walk(f):
        if isinstance(n, ast.Name) and n.id in mapping:
            n.id = mapping[n.id]
        elif isinstance(n, ast.arg) and n.arg in mapping:
            n.arg = mapping[n.arg]
        elif isinstance(n, ast.ExceptHandler) and n.name in mapping:
            n.name = mapping[n.name]
    body = [s for s in f.body if not (isinstance(s, ast.Expr) and isinstance(s.value, ast.Constant))]
    return " ".join(unparse(ast.Module(body=body, type_ignores=[])).split())


def appends_once_per_iteration(loop: ast.For, listname: str):
    """-> (ok, why): on every path through the loop body (also those leaving through `continue`) exactly one element is
    appended to `listname`; `break`/`return` inside the body count as a violation."""
    from .paths import paths, calls_on_path

    for evs, status in paths(loop.body, loop_iters=(1,)):
        if status == "raise":
            continue
        n = sum(1 for c in calls_on_path(evs) if last_attr(c) == "append" and isinstance(c.func, ast.Attribute) and unparse(c.func.value) == listname)
        conds = [(" ".join(unparse(e.node).split())[:50], e.val) for e in evs if e.kind == "cond"]
        if status in ("break", "return"):
            return False, f"the loop is left early ({status}) under {conds}"
        if n != 1:
            return False, f"{n} elements are appended on the path {conds}"
    return True, ""


def iterations(node) -> List[tuple]:
    """[(iter expression, target, body-or-element, kind)] for every for-loop and
    comprehension generator inside node."""
    out = []
    for n in ast.walk(node):
        if isinstance(n, ast.For):
            out.append((n.iter, n.target, n.body, "for"))
        elif isinstance(n, (ast.ListComp, ast.SetComp, ast.GeneratorExp)):
            for g in n.generators:
                out.append((g.iter, g.target, [n.elt], "comp"))
        elif isinstance(n, ast.DictComp):
            for g in n.generators:
                out.append((g.iter, g.target, [n.key, n.value], "comp"))
    return out
