"""Model of the compiler driver (nsl/Compiler.py) and of the pass factories
(`GetPass` of each nsl/passes/*.py): pass order, gating, validator wiring."""
from __future__ import annotations

import ast
from typing import Dict, List, Optional, Tuple

from .model import AnalysisError, AnchorMissing, Model, dotted, find_assign, last_attr, unparse
from .paths import paths, calls_on_path

COMPILER = "nsl/Compiler.py"
PASS = "nsl/Pass.py"


class Pipeline:
    def __init__(self, model: Model):
        self.model = model
        cc = model.cls(COMPILER, "Compiler")
        self.cls = cc
        self.oneshot = []
        init = cc.own_method("__init__")
        self.ast_passes = self._pass_list(init, "astPasses")
        self.ir_passes = self._pass_list(init, "irPasses")
        self.compile = cc.own_method("Compile")
        if self.compile is not None:
            # small single-exit helpers of the compiler class (e.g. an extracted "generate wasm" step) are read in place
            from .sem import expand_helpers

            # (the pass runner stays a call: the gating rules name it)
            self.compile = expand_helpers(model, cc, self.compile, skip=("v_", "__RunPass", "_Compiler__RunPass"))
        self.runpass = cc.own_method("__RunPass")

    def _pass_list(self, init, attr) -> List[str]:
        for n in ast.walk(init):
            if isinstance(n, ast.Assign) and isinstance(n.targets[0], ast.Attribute) and n.targets[0].attr == attr:
                # list(..) / tuple(..) around the display change nothing; enumerate/iter/map/.. make it a one-shot iterator
                def _local(v):
                    # a local of __init__ bound exactly once stands for what it was bound to
                    if isinstance(v, ast.Name):
                        binds = [a for a in ast.walk(init) if isinstance(a, ast.Assign) and any(isinstance(t, ast.Name) and t.id == v.id for t in a.targets)]
                        others = [a for a in ast.walk(init) if isinstance(a, (ast.AugAssign, ast.For)) and any(isinstance(t, ast.Name) and t.id == v.id and isinstance(t.ctx, ast.Store) for t in ast.walk(a))]
                        muts = [c for c in ast.walk(init) if isinstance(c, ast.Call) and isinstance(c.func, ast.Attribute) and isinstance(c.func.value, ast.Name) and c.func.value.id == v.id]
                        if len(binds) == 1 and not others and not muts:
                            return binds[0].value
                    return v

                n = ast.Assign(targets=n.targets, value=_local(n.value), lineno=n.lineno)
                while isinstance(n.value, ast.Call) and isinstance(n.value.func, ast.Name) and len(n.value.args) >= 1 and isinstance(_local(n.value.args[0]), (ast.List, ast.Tuple, ast.Call)) \
                        and n.value.func.id in ("list", "tuple", "enumerate", "iter", "reversed", "zip", "map", "filter"):
                    if n.value.func.id not in ("list", "tuple"):
                        self.oneshot = getattr(self, "oneshot", []) + [(attr, n.value.func.id, n)]
                    n = ast.Assign(targets=n.targets, value=_local(n.value.args[-1] if n.value.func.id in ("map", "filter") else n.value.args[0]), lineno=n.lineno)
                if isinstance(n.value, ast.Tuple):
                    n = ast.Assign(targets=n.targets, value=ast.List(elts=n.value.elts, ctx=ast.Load()), lineno=n.lineno)
                if not isinstance(n.value, ast.List):
                    raise AnalysisError(f"{COMPILER}::Compiler.{attr} is not a list display")
                out = []
                for e in n.value.elts:
                    if isinstance(e, ast.Call) and last_attr(e) == "GetPass" and isinstance(e.func, ast.Attribute):
                        out.append(dotted(e.func.value).split(".")[-1])
                    else:
                        raise AnalysisError(f"{COMPILER}::Compiler.{attr}: element `{unparse(e)}` is not <PassModule>.GetPass()")
                return out
        raise AnchorMissing(f"{COMPILER}::Compiler.__init__ does not assign self.{attr}")

    def mentions(self, node, text: str, depth: int = 2) -> bool:
        """does `node` contain `text`, directly or through a private method of the compiler that it calls (a step of Compile
        extracted into a helper)?"""
        if text in unparse(node):
            return True
        if depth <= 0:
            return False
        for c in ast.walk(node):
            if isinstance(c, ast.Call) and isinstance(c.func, ast.Attribute) and isinstance(c.func.value, ast.Name):
                m = self.cls.methods.get(c.func.attr) or self.cls.methods.get("_" + self.cls.name + c.func.attr)
                r = self.cls.find_method(c.func.attr)
                m = m or (r[1] if r else None)
                if m is not None and m.name not in ("Compile", "__init__") and self.mentions(m, text, depth - 1):
                    return True
        return False

    def pass_file(self, name: str) -> str:
        return f"nsl/passes/{name}.py"

    # -- freshness ---------------------------------------------------------
    def check_pass_freshness(self, col, rule, names=None):
        """Every Compiler gets pass objects (and visitors, which hold the verdict flag) of its own: GetPass is not
        memoised, and the visitor it hands to the pass is constructed inside the call, not at import time."""
        n = 0
        for pname in (names or sorted(set(self.ast_passes + self.ir_passes))):
            rel = self.pass_file(pname)
            if rel not in self.model.files:
                raise AnchorMissing(f"{rel}: pass module not found")
            fi = self.model.files[rel]
            gp = fi.functions.get("GetPass")
            if gp is None:
                raise AnchorMissing(f"{rel}::GetPass")
            n += 1
            memo = [unparse(d) for d in gp.decorator_list]
            col.check(not memo, rule, f"{rel}::GetPass is not memoised", "each call builds a new pass",
                      f"GetPass is decorated with {memo}: every Compiler in the process shares one pass object and one visitor, so a verdict flag cleared by one compilation "
                      "is still cleared in the next (valid programs are rejected after an invalid one)", rel, gp)
            # module-level visitor/pass instances handed out by GetPass
            shared = []
            for r in ast.walk(gp):
                if isinstance(r, ast.Name) and isinstance(r.ctx, ast.Load) and r.id in fi.assigns and isinstance(fi.assigns[r.id], ast.Call):
                    callee = last_attr(fi.assigns[r.id]) or ""
                    if callee[:1].isupper() or callee in ("GetPass", "MakePassFromVisitor"):
                        shared.append(r.id)
            col.check(not shared, rule, f"{rel}::GetPass builds its visitor per call", "the visitor/pass object is constructed inside GetPass",
                      f"GetPass hands out module-level object(s) {sorted(set(shared))} created at import time: all Compilers share their state", rel, gp)
        col.floor(rule, "pass factories", n, 1)

    # -- gating ------------------------------------------------------------
    def check_gating(self, col, rule):
        """A pass that returns False stops compilation with no Result."""
        c = self.compile
        # loop over astPasses: `if not self.__RunPass(...): return None`
        for attr in ("astPasses", "irPasses"):
            loops = [n for n in ast.walk(c) if isinstance(n, ast.For) and attr in unparse(n.iter)]
            good = False
            for lp in loops:
                for n in ast.walk(lp):
                    if isinstance(n, ast.If) and "RunPass" in unparse(n.test) and isinstance(n.test, ast.UnaryOp) and isinstance(n.test.op, ast.Not):
                        rets = [s for s in n.body if isinstance(s, ast.Return)]
                        if rets and (rets[0].value is None or (isinstance(rets[0].value, ast.Constant) and rets[0].value.value is None)):
                            good = True
            if not good:
                good = any(self._gated_by_paths(lp)[0] for lp in loops)
            col.check(good, rule, f"{COMPILER}::Compiler.Compile {attr} loop",
                      f"every pass of {attr} is run and a failing pass makes Compile return None",
                      f"the {attr} loop does not stop compilation (return None) when a pass reports failure", COMPILER, c)
        rp = self.runpass
        good = False
        from .sem import local_env, rtext

        rp_env = local_env(rp, allow_impure=True)
        for n in ast.walk(rp):
            if isinstance(n, ast.If) and "Process" in rtext(n.test, rp_env) and isinstance(n.test, ast.UnaryOp):
                if any(isinstance(s, ast.Return) and isinstance(s.value, ast.Constant) and s.value.value is False for s in n.body):
                    good = True
        last = rp.body[-1]
        good = good and isinstance(last, ast.Return) and isinstance(last.value, ast.Constant) and last.value.value is True
        col.check(good, rule, f"{COMPILER}::Compiler.__RunPass", "returns False iff the pass's Process returned false",
                  "does not propagate a pass's failure as False", COMPILER, rp)
        # no try/except around the pass loops that would swallow a CompileException
        tries = [n for n in ast.walk(c) if isinstance(n, ast.Try)] + [n for n in ast.walk(rp) if isinstance(n, ast.Try)]
        # ... and no recovery region (`with CompileExceptionToErrorHandler(...)`) around a pass run
        regions = [n for f_ in (c, rp) for n in ast.walk(f_) if isinstance(n, ast.With) and any("ErrorHandler" in unparse(it.context_expr) for it in n.items)
                   and any(isinstance(x, ast.Call) and last_attr(x) in ("Process", "__RunPass") for x in ast.walk(n))]
        col.check(not tries and not regions, rule, f"{COMPILER}::Compiler.Compile exceptions", "a CompileException raised by a pass propagates out of Compile (no Result)",
                  "Compile/__RunPass catch exceptions or run passes inside a recovery region: an error that a pass reports by raising (parameter clashes, errors in lowering) is swallowed and the program yields a Result", COMPILER, (tries + regions + [c])[0])
        # the verdict tested is that of the pass just run: the loop does not collect results to test them later
        for attr in ("astPasses", "irPasses"):
            for lp in [n for n in ast.walk(c) if isinstance(n, ast.For) and attr in unparse(n.iter)]:
                deferred = [n for n in ast.walk(lp) if isinstance(n, (ast.Assign, ast.AugAssign)) and any(isinstance(x, ast.Call) and last_attr(x) in ("__RunPass", "Process") for x in ast.walk(n))]
                if deferred and self._gated_by_paths(lp)[1]:
                    # the result is held in a local, and that local is tested on every path before the iteration ends
                    deferred = []
                col.check(not deferred, rule, f"{COMPILER}::Compiler.Compile {attr} verdict is tested per pass", "`if not self.__RunPass(...)` inside the loop",
                          f"`{unparse(deferred[0])[:60] if deferred else ''}` stores the pass result instead of testing it at once: a later pass overwrites it, only the last pass decides", COMPILER, deferred[0] if deferred else lp)
        # lowering happens after the AST pass loop
        order = []
        for st in c.body:
            t = unparse(st)
            if isinstance(st, ast.For) and "astPasses" in t:
                order.append("ast")
            elif self.mentions(st, "LowerToIR.GetPass"):
                order.append("lower")
            elif isinstance(st, ast.For) and "irPasses" in t:
                order.append("ir")
            elif self.mentions(st, "GenerateWasm.GetPass"):
                order.append("wasm")
        col.check(order[:3] == ["ast", "lower", "ir"], rule, f"{COMPILER}::Compiler.Compile stage order",
                  f"stages run in the order {order}", f"stage order is {order}; expected AST passes, lowering, IR passes", COMPILER, c)

    def _gated_by_paths(self, lp):
        """(a failing pass ends Compile with None on every path, every pass result is tested in its own iteration), decided
        on the paths of one pass loop's body; the result may be held in a local."""
        from .paths import cond_atoms

        stops = tested = True
        seen = 0
        for evs, status in paths(lp.body):
            runs = [x for x in calls_on_path(evs) if last_attr(x) == "__RunPass"]
            if not runs:
                continue
            seen += 1
            held = {t.id for e in evs if e.kind == "stmt" and isinstance(e.node, ast.Assign) and isinstance(e.node.value, ast.Call) and last_attr(e.node.value) == "__RunPass"
                    for t in e.node.targets if isinstance(t, ast.Name)}
            a = cond_atoms(evs)
            v = next((val for k, val in a.items() if "__RunPass(" in k or k in held), None)
            if v is None:
                tested = False
                stops = False
            elif v is False:
                rv = evs[-1].node.value if status == "return" and isinstance(evs[-1].node, ast.Return) else "no return"
                if not (status == "return" and (rv is None or (isinstance(rv, ast.Constant) and rv.value is None))):
                    stops = False
        return (seen > 0 and stops), (seen > 0 and tested)

    def check_runpass_wellformed(self, col, rule):
        """Every attribute __RunPass uses on the pass object exists on Pass."""
        p = self.model.cls(PASS, "Pass")
        rp = self.runpass
        pname = rp.args.args[3].arg if len(rp.args.args) > 3 else "p"
        for n in ast.walk(rp):
            if isinstance(n, ast.Attribute) and isinstance(n.value, ast.Name) and n.value.id == pname:
                defined = p.attr_defined(n.attr)
                col.check(defined, rule, f"{COMPILER}::Compiler.__RunPass uses pass.{n.attr}",
                          f"Pass defines {n.attr}", f"`{pname}.{n.attr}` is not defined by nsl.Pass.Pass: every rejection by a validator surfaces as AttributeError", COMPILER, n)

    # -- validator wiring ----------------------------------------------------
    def validator_info(self, passname: str) -> dict:
        """GetPass of a validation pass: visitor class, validator function
        return expression, flag initialisation."""
        rel = self.pass_file(passname)
        gp = self.model.func(rel, "GetPass")
        mk = [c for c in ast.walk(gp) if isinstance(c, ast.Call) and last_attr(c) == "MakePassFromVisitor"]
        info = {"file": rel, "getpass": gp, "visitor": None, "validator_ret": None, "validator": None, "custom": None}
        if not mk:
            # custom Pass subclass (ComputeTypes)
            rets = [r for r in ast.walk(gp) if isinstance(r, ast.Return) and isinstance(r.value, ast.Call)]
            if rets:
                info["custom"] = self.model.resolve_class_expr(rel, rets[0].value.func)
            return info
        call = mk[0]
        if call.args and isinstance(call.args[0], ast.Call):
            info["visitor"] = self.model.resolve_class_expr(rel, call.args[0].func)
            info["visitor_ctor"] = call.args[0]
        val = None
        for k in call.keywords:
            if k.arg == "validator":
                val = k.value
        if val is None and len(call.args) > 2:
            val = call.args[2]
        if isinstance(val, ast.Name):
            # a function nested in GetPass, or one at module level of the pass's file
            cands = [n for n in ast.walk(gp) if isinstance(n, ast.FunctionDef) and n.name == val.id]
            if not cands and val.id in self.model.file(rel).functions:
                cands = [self.model.file(rel).functions[val.id]]
            for n in cands:
                info["validator"] = n
                rets = [r for r in ast.walk(n) if isinstance(r, ast.Return)]
                info["validator_ret"] = [unparse(r.value) for r in rets]
        elif isinstance(val, ast.Lambda):
            info["validator"] = val
            info["validator_ret"] = [unparse(val.body)]
        for k in call.keywords:
            if k.arg == "flags":
                info["flags"] = unparse(k.value)
        return info

    def check_validator(self, col, rule, passname: str, flag: str = "valid"):
        """Sibling discipline of validation visitors: flag initialised True,
        returned by the validator, pass listed in astPasses."""
        info = self.validator_info(passname)
        rel = info["file"]
        v = info["visitor"]
        if v is None:
            raise AnchorMissing(f"{rel}::GetPass does not build its pass from a visitor")
        col.check(passname in self.ast_passes, rule, f"{COMPILER}::astPasses contains {passname}",
                  f"{passname} runs before lowering", f"{passname} is not in Compiler.astPasses: the validation never runs", COMPILER, self.cls.node)
        rets = info["validator_ret"]
        arg = info["validator"].args.args[0].arg if info["validator"] is not None and info["validator"].args.args else "visitor"
        col.check(rets == [f"{arg}.{flag}"], rule, f"{rel}::GetPass validator",
                  f"the pass result is the visitor's `{flag}` flag", f"the validator returns {rets}, not the visitor's `{flag}` flag: the pass can never reject", rel, info["getpass"])
        init = v.find_method("__init__")
        inits = []
        if init is not None and init[0] is v:
            from .model import walk_no_nested

            for n in walk_no_nested(init[1]):
                if isinstance(n, ast.Assign) and isinstance(n.targets[0], ast.Attribute) and n.targets[0].attr == flag:
                    inits.append(n.value)
        col.check(len(inits) == 1 and isinstance(inits[0], ast.Constant) and inits[0].value is True, rule, f"{rel}::{v.name}.__init__ flag",
                  f"`{flag}` starts as True", f"`{flag}` is initialised as {[unparse(i) for i in inits]}", rel, v.node)
        # fresh visitor per GetPass call
        col.check(info.get("visitor_ctor") is not None, rule, f"{rel}::GetPass builds a fresh visitor", "the visitor is constructed inside GetPass", None, rel, info["getpass"])
        return info

    def makepass_process(self, col, rule):
        """MakePassFromVisitor.Process returns validator(visitor) when a
        validator is given."""
        f = self.model.func(PASS, "MakePassFromVisitor")
        proc = None
        for n in ast.walk(f):
            if isinstance(n, ast.FunctionDef) and n.name == "Process":
                proc = n
        if proc is None:
            raise AnchorMissing(f"{PASS}::MakePassFromVisitor.VisitorPass.Process")
        rets = [unparse(r.value) for r in ast.walk(proc) if isinstance(r, ast.Return)]
        col.check(any(r.startswith("validator(") for r in rets) and "True" in rets, rule, f"{PASS}::MakePassFromVisitor.Process result",
                  "returns validator(visitor) when a validator was given, True otherwise", f"returns {rets}", PASS, proc)
        visits = [c for c in ast.walk(proc) if isinstance(c, ast.Call) and last_attr(c) == "Visit"]
        col.check(bool(visits), rule, f"{PASS}::MakePassFromVisitor.Process visits the root", "calls visitor.Visit(root)", None, PASS, proc)
        # every run collects its diagnostics in a handler of its own (created in Process and handed to the visitor before the visit)
        seth = [c for c in ast.walk(proc) if isinstance(c, ast.Call) and last_attr(c) == "SetErrorHandler" and c.args]
        fresh_h = False
        if seth:
            a0 = seth[0].args[0]
            src_ = a0
            if isinstance(a0, ast.Name):
                vals = [n.value for n in ast.walk(proc) if isinstance(n, ast.Assign) and isinstance(n.targets[0], ast.Name) and n.targets[0].id == a0.id]
                src_ = vals[0] if len(vals) == 1 else None
            fresh_h = isinstance(src_, ast.Call) and last_attr(src_) == "ErrorHandler" and (not visits or seth[0].lineno < visits[0].lineno)
        # (the contracts of Pass / Visitor / Errors themselves are checked once per property by driver.run_rules: nslsa/infra.py)
        col.check(fresh_h, rule, f"{PASS}::MakePassFromVisitor.Process uses a fresh error handler", "ErrorHandler() is created per Process call and installed before the visit",
                  "the error handler is not created inside Process: diagnostics of an earlier run (with positions of an earlier text) are kept and printed again", PASS, proc)
