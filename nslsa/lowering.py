"""E8 (lowering part): abstract interpretation of the statement handlers of
LowerToIRVisitor.  No program and no values: a handler is executed on
*roles* (the child that a getter returns) and yields the stream of labels,
child visits and branch instructions it emits; from the stream the template
control-flow graph is derived and compared with the reference template of the
construct (oracle (c)).  Roles are resolved through the grammar: getter ->
field -> constructor parameter -> p[i] of the parser action -> position in
the production (`FOR ( init ; cond ; next ) body`)."""
from __future__ import annotations

import ast
from typing import Dict, List, Optional

from .grammar import Grammar, PARSER
from .model import AnalysisError, AnchorMissing, Model, dotted, find_assign, last_attr, mangle, unparse
from .paths import paths, Ev, calls_on_path

LOWER = "nsl/passes/LowerToIR.py"
ASTF = "nsl/ast/__init__.py"
IR = "nsl/LinearIR.py"

API = {
    "CreateBasicBlock", "AddInstruction", "SetTrueBlock", "SetFalseBlock", "BeginLoop", "EndLoop",
    "SetBreakTarget", "SetContinueTarget", "EndBasicBlock", "RegisterLoopBreak", "RegisterLoopContinue",
    "BranchInstruction", "ReturnInstruction", "v_Visit", "v_Generic",
}

# reference templates (oracle (c)); node -> successor; ('br', predicate role, T, F)
REFERENCE = {
    "for": {"entry": "init", "init": "cond", "cond": ("br", "cond", "body", "exit"), "body": "next", "next": "cond",
            "break": "exit", "continue": "next"},
    "while": {"entry": "cond", "cond": ("br", "cond", "body", "exit"), "body": "cond", "break": "exit", "continue": "cond"},
    "do": {"entry": "body", "body": "cond", "cond": ("br", "cond", "body", "exit"), "break": "exit", "continue": "cond"},
    "if": {"entry": "cond", "cond": ("br", "cond", "then", "exit"), "then": "exit"},
    "if-else": {"entry": "cond", "cond": ("br", "cond", "then", "else"), "then": "exit", "else": "exit"},
}


# ---------------------------------------------------------------------------
def production_slots(P) -> Dict[int, str]:
    """Structural oracle: which symbol of a statement production plays which
    role (1-based symbol index -> slot)."""
    syms = P.syms
    head = syms[0]
    slots = {}

    def between_parens():
        if "(" not in syms or ")" not in syms:
            return []
        a, b = syms.index("("), len(syms) - 1 - syms[::-1].index(")")
        return list(range(a + 2, b + 1))  # 1-based indices strictly between

    if head == "FOR":
        inner = between_parens()
        groups, cur = [], []
        for i in inner:
            if syms[i - 1] == ";":
                groups.append(cur)
                cur = []
            else:
                cur.append(i)
        groups.append(cur)
        for g, name in zip(groups, ("init", "cond", "next")):
            if len(g) == 1:
                slots[g[0]] = name
        slots[len(syms)] = "body"
    elif head == "WHILE":
        inner = between_parens()
        if len(inner) == 1:
            slots[inner[0]] = "cond"
        slots[len(syms)] = "body"
    elif head == "DO":
        slots[2] = "body"
        inner = between_parens()
        if len(inner) == 1:
            slots[inner[0]] = "cond"
    elif head == "IF":
        inner = between_parens()
        if len(inner) == 1:
            slots[inner[0]] = "cond"
        close = len(syms) - syms[::-1].index(")")
        slots[close + 1] = "then"
        if "ELSE" in syms:
            slots[syms.index("ELSE") + 2] = "else"
    return slots


def getter_roles(model: Model, G: Grammar, clsname: str, col=None, rule=None) -> Dict[str, str]:
    """{getter method name: slot} for an AST statement class, resolved through
    constructor and grammar action."""
    from .rules.c08 import p_index, select_stmts

    ci = model.cls(ASTF, clsname)
    init = ci.own_method("__init__")
    params = [a.arg for a in init.args.args[1:]]
    field_of_param = {}
    for n in ast.walk(init):
        if isinstance(n, ast.Assign) and isinstance(n.value, ast.Name) and n.value.id in params:
            for t in n.targets:
                if isinstance(t, ast.Attribute):
                    field_of_param[n.value.id] = mangle(ci.name, t.attr)
    getter_field = {}
    for name, m in ci.methods.items():
        rets = [r for r in ast.walk(m) if isinstance(r, ast.Return) and r.value is not None]
        if len(rets) == 1 and isinstance(rets[0].value, ast.Attribute) and isinstance(rets[0].value.value, ast.Name):
            getter_field[name] = mangle(ci.name, rets[0].value.attr)
    param_slot: Dict[str, set] = {}
    nprods = 0
    for P in G.productions:
        stmts, pname = select_stmts(P.func, len(P.syms))
        for st in stmts:
            for c in ast.walk(st):
                if isinstance(c, ast.Call) and last_attr(c) == clsname:
                    slots = production_slots(P)
                    nprods += 1
                    for prm, a in list(zip(params, c.args)) + [(k.arg, k.value) for k in c.keywords]:
                        i = p_index(a, pname)
                        if i is not None and i in slots:
                            param_slot.setdefault(prm, set()).add(slots[i])
                        elif i is not None:
                            param_slot.setdefault(prm, set()).add(f"sym{i}")
    if nprods == 0:
        raise AnchorMissing(f"{PARSER}: no grammar action constructs ast.{clsname}")
    roles = {}
    for g, f in getter_field.items():
        for prm, fld in field_of_param.items():
            if fld == f and prm in param_slot:
                s = param_slot[prm]
                if len(s) != 1:
                    raise AnalysisError(f"ast.{clsname}.{g}: parameter {prm} receives different grammar slots {s}")
                roles[g] = next(iter(s))
    return roles


# ---------------------------------------------------------------------------
class Label:
    n = 0

    def __init__(self):
        Label.n += 1
        self.id = Label.n

    def __repr__(self):
        return f"L{self.id}"


class Branch:
    def __init__(self, true=None, false=None, pred=None):
        self.true, self.false, self.pred = true, false, pred
        self.had_pred = pred is not None

    def __repr__(self):
        return f"br(pred={self.pred}, T={self.true}, F={self.false})"


class Visit:
    def __init__(self, role):
        self.role = role

    def __repr__(self):
        return f"visit:{self.role}"


class Child:
    def __init__(self, role):
        self.role = role


class LoopCtl:
    def __init__(self):
        self.brk = None
        self.cont = None
        self.set_brk = 0
        self.set_cont = 0


class Ret:
    def __init__(self, value):
        self.value = value


class Unmodelled(AnalysisError):
    pass


def interpret(handler: ast.FunctionDef, roles: Dict[str, str], branch_params: List[str], fold=None):
    """Abstractly execute every path of a lowering handler.
    -> [(path conditions, stream, env)]"""
    nodep = handler.args.args[1].arg
    out = []
    for evs, status in paths(handler.body, fold=fold):
        if status == "raise":
            continue
        env: Dict[str, object] = {}
        stream: List[tuple] = []

        def role_of(e):
            if isinstance(e, ast.Call) and isinstance(e.func, ast.Attribute) and isinstance(e.func.value, ast.Name) and e.func.value.id == nodep and not e.args:
                g = e.func.attr
                return roles.get(g, g)
            return None

        def ev(e):
            if e is None:
                return None
            if isinstance(e, ast.Constant):
                return e.value
            if isinstance(e, ast.Name):
                return env.get(e.id)
            if isinstance(e, ast.Call):
                la = last_attr(e)
                r = role_of(e)
                if r is not None:
                    return Child(r)
                if la == "CreateBasicBlock":
                    L = Label()
                    stream.append(("LABEL", L))
                    return L
                if la in ("v_Visit", "v_Generic"):
                    a = e.args[0] if e.args else None
                    v = ev(a)
                    role = v.role if isinstance(v, Child) else (unparse(a) if a is not None else "?")
                    vis = Visit(role)
                    stream.append(("VISIT", vis))
                    return vis
                if la == "BranchInstruction":
                    kw = {}
                    for p, a in zip(branch_params, e.args):
                        kw[p] = ev(a)
                    for k in e.keywords:
                        kw[k.arg] = ev(k.value)
                    return Branch(kw.get(branch_params[0]), kw.get(branch_params[1]), kw.get(branch_params[2]))
                if la == "ReturnInstruction":
                    return Ret(ev(e.args[0]) if e.args else None)
                if la == "AddInstruction":
                    v = ev(e.args[0]) if e.args else None
                    stream.append(("EMIT", v))
                    return v
                if la in ("SetTrueBlock", "SetFalseBlock"):
                    tgt = ev(e.func.value)
                    v = ev(e.args[0])
                    if not isinstance(tgt, Branch):
                        raise Unmodelled(f"{la} on a value that is not a tracked branch: {unparse(e)}")
                    if la == "SetTrueBlock":
                        tgt.true = v
                    else:
                        tgt.false = v
                    return None
                if la == "BeginLoop":
                    stream.append(("LOOPBEGIN",))
                    return None
                if la == "EndLoop":
                    stream.append(("LOOPEND",))
                    return LoopCtl()
                if la in ("SetBreakTarget", "SetContinueTarget"):
                    tgt = ev(e.func.value)
                    v = ev(e.args[0])
                    if tgt is None and isinstance(e.func.value, ast.Name) and e.func.value.id in env:
                        # a fix-up record built by hand (`_BreakContinueStatements([], [])`) instead of taken from EndLoop(): a
                        # loop control without a BeginLoop/EndLoop bracket on this path - the bracket rule reports it
                        tgt = env[e.func.value.id] = LoopCtl()
                    if not isinstance(tgt, LoopCtl):
                        raise Unmodelled(f"{la} on a value that is not the result of EndLoop(): {unparse(e)}")
                    if la == "SetBreakTarget":
                        tgt.brk = v
                        tgt.set_brk += 1
                    else:
                        tgt.cont = v
                        tgt.set_cont += 1
                    return None
                if la == "EndBasicBlock":
                    stream.append(("ENDBLOCK",))
                    return None
                if la in ("RegisterLoopBreak", "RegisterLoopContinue"):
                    stream.append(("REG" + la[12:].upper(), ev(e.args[0])))
                    return None
                if la in ("isinstance", "len"):
                    return None
                names = {last_attr(c) for c in ast.walk(e) if isinstance(c, ast.Call)}
                if names & API:
                    # API used inside an unknown call: evaluate arguments for effect
                    for a in e.args:
                        ev(a)
                    return None
                return None
            if isinstance(e, ast.Attribute):
                return None
            return None

        for e in evs:
            if e.kind in ("stmt",):
                st = e.node
                if isinstance(st, ast.Assign):
                    v = ev(st.value)
                    for t in st.targets:
                        if isinstance(t, ast.Name):
                            env[t.id] = v
                elif isinstance(st, ast.AnnAssign) and st.value is not None and isinstance(st.target, ast.Name):
                    env[st.target.id] = ev(st.value)
                elif isinstance(st, ast.Expr):
                    ev(st.value)
                elif isinstance(st, ast.Assert):
                    pass
            elif e.kind == "return":
                if e.node.value is not None:
                    env["$return"] = ev(e.node.value)
            elif e.kind == "cond":
                # a test may itself call getters; no effects
                pass
            elif e.kind in ("loop", "with", "try"):
                names = {last_attr(c) for c in ast.walk(e.node) if isinstance(c, ast.Call)}
                if names & (API - {"v_Visit", "v_Generic"}) and e.kind == "loop":
                    raise Unmodelled(f"loop around block/branch API in {handler.name}")
        conds = [(" ".join(unparse(x.node).split()), x.val) for x in evs if x.kind == "cond"]
        out.append((conds, stream, env))
    return out


def derive_graph(stream) -> dict:
    """Template CFG of an emitted stream: node -> successor."""
    label_pos = {}
    for i, el in enumerate(stream):
        if el[0] == "LABEL":
            label_pos[el[1].id] = i

    def succ(pos, seen=()):
        while pos < len(stream):
            el = stream[pos]
            if el[0] == "VISIT":
                return el[1].role
            if el[0] == "EMIT" and isinstance(el[1], Branch):
                b = el[1]
                if b.had_pred or b.pred is not None:
                    p = b.pred.role if isinstance(b.pred, Visit) else repr(b.pred)
                    return ("br", p, target(b.true, seen), target(b.false, seen))
                return target(b.true, seen)
            if el[0] == "EMIT" and isinstance(el[1], Ret):
                return "return"
            pos += 1
        return "exit"

    def target(lbl, seen):
        if not isinstance(lbl, Label):
            return "UNSET"
        if lbl.id not in label_pos:
            return "UNPLACED"
        if lbl.id in seen:
            return "cycle"
        return succ(label_pos[lbl.id], seen + (lbl.id,))

    g = {"entry": succ(0)}
    for i, el in enumerate(stream):
        if el[0] == "VISIT":
            g[el[1].role] = succ(i + 1)
    g["$target"] = target
    return g


def check_emit_receivers(model: Model, col, rule: str):
    """Every AddInstruction of a lowering handler goes to the *current* block: the context's BasicBlock
    property, or a local that still is the current block (created by CreateBasicBlock with no visit,
    block creation or block end since)."""
    lv = model.cls(LOWER, "LowerToIRVisitor")
    n = 0
    for name, h in sorted(lv.methods.items()):
        if not name.startswith("v_") or len(h.args.args) < 3:
            continue
        ctxp = h.args.args[2].arg
        bad = {}
        seen_here = 0
        for evs, status in paths(h.body):
            if status == "raise":
                continue
            current = set()
            for e in evs:
                node = e.node if e.kind in ("stmt", "return") else None
                if node is None:
                    continue
                calls = [c for c in ast.walk(node) if isinstance(c, ast.Call)]
                for c in calls:
                    if last_attr(c) == "AddInstruction" and isinstance(c.func, ast.Attribute):
                        seen_here += 1
                        r = c.func.value
                        ok = (isinstance(r, ast.Attribute) and r.attr == "BasicBlock" and isinstance(r.value, ast.Name) and r.value.id == ctxp) or \
                             (isinstance(r, ast.Name) and r.id in current)
                        if not ok:
                            bad[(c.lineno, unparse(c)[:60])] = c
                if any(last_attr(c) in ("v_Visit", "v_Generic", "EndBasicBlock", "BeginLoop", "EndLoop", "CreateBasicBlock") or (last_attr(c) or "").startswith("v_") for c in calls):
                    current = set()
                if isinstance(node, ast.Assign) and isinstance(node.value, ast.Call) and last_attr(node.value) == "CreateBasicBlock" and isinstance(node.targets[0], ast.Name):
                    current = {node.targets[0].id}
        if seen_here:
            n += 1
            col.check(not bad, rule, f"{LOWER}::{name} emits into the current block", "every instruction is added to the context's current block",
                      "; ".join(f"`{k[1]}` adds to a block that need not be the current one (the visited child may have started new blocks): the instruction lands in the middle of other control flow"
                                for k in sorted(bad)[:2]), LOWER, (list(bad.values()) or [h])[0])
    col.floor(rule, "handlers that add instructions", n, 12)


def check_function_bracket(model: Model, col, rule: str):
    """Lowering a function is bracketed by OnEnterFunction ... OnLeaveFunction on every path, and leaving computes the
    function's use lists (the optimisation passes rewire users through them)."""
    lv = model.cls(LOWER, "LowerToIRVisitor")
    vf = lv.own_method("v_Function")
    ok_ = True
    why = ""
    np_ = 0
    for evs, status in paths(vf.body):
        if status == "raise":
            continue
        np_ += 1
        seq = [last_attr(c) for c in calls_on_path(evs) if last_attr(c) in ("OnEnterFunction", "OnLeaveFunction")]
        if seq != ["OnEnterFunction", "OnLeaveFunction"]:
            ok_, why = False, f"a path through v_Function calls {seq}"
    col.check(ok_ and np_ > 0, rule, f"{LOWER}::v_Function enter/leave bracket", "OnEnterFunction ... OnLeaveFunction on every path",
              why + ": without OnLeaveFunction the function's use lists are never computed (optimisation passes then find no users to rewire) and the context keeps the function open", LOWER, vf)
    ctx = next((c for c in model.classes.values() if c.file == LOWER and c.name.endswith("Context")), None)
    olf = ctx.own_method("OnLeaveFunction") if ctx else None
    upd = [c for c in ast.walk(olf) if isinstance(c, ast.Call) and last_attr(c) == "UpdateUses"] if olf else []
    col.check(bool(upd), rule, f"{LOWER}::Context.OnLeaveFunction computes the use lists", "function.UpdateUses()",
              "OnLeaveFunction does not call UpdateUses: the lowered function has empty use lists", LOWER, olf or vf)


def check_scope_tables(model: Model, col, rule: str):
    """The lowering context's per-function name tables: every dict field that is written while a function is
    lowered is reset when a function is entered, and a field that aliases such tables (the ChainMap used for
    lookups) is rebuilt after every rebinding of a table."""
    ctx = model.cls(LOWER, "LowerToIRVisitor.Context") if "LowerToIRVisitor.Context" in {c.name for c in model.classes.values() if c.file == LOWER} else None
    if ctx is None:
        ctx = next((c for c in model.classes.values() if c.file == LOWER and c.name.endswith("Context")), None)
    if ctx is None:
        raise AnchorMissing(f"{LOWER}: lowering Context class")
    init = ctx.own_method("__init__")
    enter = ctx.own_method("OnEnterFunction")
    selfn = init.args.args[0].arg
    dict_fields = set()
    for n in ast.walk(init):
        if isinstance(n, ast.Assign) and isinstance(n.targets[0], ast.Attribute) and (isinstance(n.value, ast.Dict) or (isinstance(n.value, ast.Call) and dotted(n.value.func) in ("dict", "collections.OrderedDict"))):
            dict_fields.add(n.targets[0].attr)
    written = {}
    for mname, m in ctx.methods.items():
        if mname in ("__init__", "OnEnterModule"):
            continue
        for n in ast.walk(m):
            if isinstance(n, (ast.Assign, ast.AugAssign)):
                for t in (n.targets if isinstance(n, ast.Assign) else [n.target]):
                    if isinstance(t, ast.Subscript) and isinstance(t.value, ast.Attribute) and t.value.attr in dict_fields:
                        written.setdefault(t.value.attr, []).append((mname, n))
    col.floor(rule, "per-function name tables of the lowering context", len(written), 1)
    rebinds = {}
    for n in ast.walk(enter):
        if isinstance(n, ast.Assign) and isinstance(n.targets[0], ast.Attribute):
            rebinds.setdefault(n.targets[0].attr, []).append(n)
    for f, ws in sorted(written.items()):
        fresh = [n for n in rebinds.get(f, []) if isinstance(n.value, ast.Dict) and not n.value.keys or (isinstance(n.value, ast.Call) and dotted(n.value.func) == "dict" and not n.value.args)]
        cleared = [c for c in ast.walk(enter) if isinstance(c, ast.Call) and last_attr(c) == "clear" and isinstance(c.func.value, ast.Attribute) and c.func.value.attr == f]
        first_write = min([n.lineno for mname, n in ws if mname == "OnEnterFunction"] or [10 ** 9])
        reset_line = min([n.lineno for n in fresh] + [c.lineno for c in cleared] or [10 ** 9])
        col.check(reset_line < first_write and reset_line < 10 ** 9, rule, f"{LOWER}::Context.OnEnterFunction resets {f}", "the table is emptied when a function is entered",
                  f"the name table `{f}` (written by {sorted({m for m, _ in ws})}) is not emptied when a function is entered: names of a previously lowered function leak into the next one and change which scope a name resolves to",
                  LOWER, enter)
    # aliases
    for mname, m in ctx.methods.items():
        for n in ast.walk(m):
            if isinstance(n, ast.Assign) and isinstance(n.targets[0], ast.Attribute) and isinstance(n.value, ast.Call):
                parts = [a.attr for a in n.value.args if isinstance(a, ast.Attribute) and a.attr in dict_fields]
                if not parts:
                    continue
                alias = n.targets[0].attr
                for m2name, m2 in ctx.methods.items():
                    for r in ast.walk(m2):
                        if isinstance(r, ast.Assign) and isinstance(r.targets[0], ast.Attribute) and r.targets[0].attr in parts and not (m2name == "__init__" and mname != "__init__"):
                            later = [x for x in ast.walk(m2) if isinstance(x, ast.Assign) and isinstance(x.targets[0], ast.Attribute) and x.targets[0].attr == alias and x.lineno > r.lineno]
                            col.check(bool(later), rule, f"{LOWER}::Context.{m2name} rebuilds {alias} after rebinding {r.targets[0].attr}", "the lookup view is rebuilt from the new table",
                                      f"`{unparse(r)[:50]}` rebinds a table that `{alias}` (built in {mname}) still refers to by its old object: lookups keep reading the old table", LOWER, r)


def _expanded(model, cls, func):
    """a handler read with the private helpers of its class in place (`self.__LowerLoopBody(body, ctx)`)"""
    if func is None:
        return None
    from .sem import expand_helpers

    return expand_helpers(model, cls, func)


def run_templates(model: Model, col, G: Grammar, rule: str):
    lv = model.cls(LOWER, "LowerToIRVisitor")
    bi = model.cls(IR, "BranchInstruction").own_method("__init__")
    bparams = [a.arg for a in bi.args.args[1:]]
    if len(bparams) != 3:
        raise AnalysisError(f"{IR}::BranchInstruction.__init__ no longer takes (true, false, predicate)")
    # which parameter is the predicate / true / false: resolve through the fields the VM reads
    bic = model.cls(IR, "BranchInstruction")
    fieldmap = {}
    for n in ast.walk(bi):
        if isinstance(n, (ast.Assign, ast.AnnAssign)):
            tgt = n.targets[0] if isinstance(n, ast.Assign) else n.target
            if isinstance(tgt, ast.Attribute) and isinstance(n.value, ast.Name) and n.value.id in bparams:
                fieldmap[n.value.id] = tgt.attr
    props = {}
    for pname in ("TrueBlock", "FalseBlock", "Predicate"):
        m = bic.own_method(pname)
        r = [x for x in ast.walk(m) if isinstance(x, ast.Return)]
        props[pname] = r[0].value.attr if r and isinstance(r[0].value, ast.Attribute) else None
    order = []
    for want in ("TrueBlock", "FalseBlock", "Predicate"):
        prm = next((p for p, f in fieldmap.items() if f == props[want]), None)
        order.append(prm)
    col.check(None not in order and order == bparams, rule, f"{IR}::BranchInstruction fields",
              f"constructor parameters {bparams} feed the fields read back as TrueBlock/FalseBlock/Predicate",
              f"constructor parameters {bparams} feed fields read back as {order}: true/false/predicate are crossed", IR, bi)
    for setter, prop in (("SetTrueBlock", "TrueBlock"), ("SetFalseBlock", "FalseBlock")):
        m = bic.own_method(setter)
        st = [n for n in ast.walk(m) if isinstance(n, ast.Assign) and isinstance(n.targets[0], ast.Attribute)]
        col.check(len(st) == 1 and st[0].targets[0].attr == props[prop] and isinstance(st[0].value, ast.Name) and st[0].value.id == m.args.args[1].arg,
                  rule, f"{IR}::BranchInstruction.{setter}", f"writes the field {prop} reads", f"does not write the field that {prop} returns", IR, m)

    check_emit_receivers(model, col, rule)
    constructs = [
        ("for", "ForStatement", "v_ForStatement"),
        ("while", "WhileStatement", "v_WhileStatement"),
        ("do", "DoStatement", "v_DoStatement"),
        ("if", "IfStatement", "v_IfStatement"),
    ]
    analysed = {}
    for kind, clsname, hname in constructs:
        roles = getter_roles(model, G, clsname)
        h = _expanded(model, lv, lv.own_method(hname))
        try:
            results = interpret(h, roles, bparams)
        except Unmodelled as e:
            raise AnalysisError(f"{LOWER}::{hname}: {e}")
        if not results:
            raise AnalysisError(f"{LOWER}::{hname}: no path could be interpreted")
        analysed[hname] = {"roles": roles, "paths": len(results)}
        for conds, stream, env in results:
            g = derive_graph(stream)
            target = g.pop("$target")
            variant = kind
            if kind == "if":
                has_else = None
                for t, v in conds:
                    if "HasElsePath" in t or "GetElsePath" in t:
                        has_else = v if "not" not in t else (not v)
                visited_else = any(el[0] == "VISIT" and el[1].role == "else" for el in stream)
                if has_else is None:
                    has_else = visited_else
                variant = "if-else" if has_else else "if"
            ref = dict(REFERENCE[variant])
            ctl = [v for v in env.values() if isinstance(v, LoopCtl)]
            if kind in ("for", "while", "do"):
                if len(ctl) != 1:
                    col.bad(rule, f"{LOWER}::{hname} loop bracket", f"expected exactly one BeginLoop/EndLoop bracket on the path, found {len(ctl)}", LOWER, h)
                    continue
                c = ctl[0]
                g["break"] = target(c.brk, ()) if c.set_brk else "UNSET"
                g["continue"] = target(c.cont, ()) if c.set_cont else "UNSET"
                # bracket must enclose exactly the body visit
                depth = 0
                inside = []
                outside = []
                for el in stream:
                    if el[0] == "LOOPBEGIN":
                        depth += 1
                    elif el[0] == "LOOPEND":
                        depth -= 1
                    elif el[0] == "VISIT":
                        (inside if depth > 0 else outside).append(el[1].role)
                col.check(inside == ["body"] and "body" not in outside, rule, f"{LOWER}::{hname} loop bracket",
                          "BeginLoop/EndLoop enclose exactly the body visit",
                          f"BeginLoop/EndLoop enclose {inside} (outside: {outside}); break/continue of the body would register with the wrong loop", LOWER, h)
            pathname = variant + ("" if not conds else " " + ",".join(f"{t}={v}" for t, v in conds))
            for node, want in ref.items():
                got = g.get(node, "MISSING")
                ck = f"{LOWER}::{hname} [{variant}] {node}"
                if got == want:
                    col.ok(rule, ck, f"{node} -> {fmt(want)}")
                else:
                    col.bad(rule, ck, f"template of `{variant}`: after {node} control goes to {fmt(got)}; the source semantics require {fmt(want)}", LOWER, h)
            extra = [n for n in g if n not in ref and n not in ("entry",)]
            for n in extra:
                col.bad(rule, f"{LOWER}::{hname} [{variant}] visits {n}", f"unexpected child visit {n} in the {variant} template", LOWER, h)

    # ---- break / continue / return handlers --------------------------------
    for hname, reg, other in (("v_BreakStatement", "REGBREAK", "REGCONTINUE"), ("v_ContinueStatement", "REGCONTINUE", "REGBREAK")):
        h = _expanded(model, lv, lv.own_method(hname))
        res = interpret(h, {}, bparams)
        for conds, stream, env in res:
            emits = [el[1] for el in stream if el[0] == "EMIT" and isinstance(el[1], Branch)]
            regs = [el for el in stream if el[0] in ("REGBREAK", "REGCONTINUE")]
            good = len(emits) == 1 and len(regs) == 1 and regs[0][0] == reg and regs[0][1] is emits[0] and emits[0].pred is None
            col.check(good, rule, f"{LOWER}::{hname}",
                      f"emits one unconditional branch and registers that branch with {reg[3:].lower()} of the innermost loop",
                      f"emits {emits}, registers {[(r[0], r[1]) for r in regs]}: expected one unconditional branch registered via {reg}", LOWER, h)
    h = _expanded(model, lv, lv.own_method("v_ReturnStatement"))
    rroles = getter_roles_simple(model, "ReturnStatement")
    for conds, stream, env in interpret(h, rroles, bparams):
        kinds = [el[0] for el in stream]
        rets = [el[1] for el in stream if el[0] == "EMIT" and isinstance(el[1], Ret)]
        visits = [el[1] for el in stream if el[0] == "VISIT"]
        good = len(rets) == 1 and kinds and kinds[-1] == "ENDBLOCK" and kinds.index("ENDBLOCK") > kinds.index("EMIT")
        if visits:
            good = good and rets and rets[0].value is visits[-1]
        col.check(good, rule, f"{LOWER}::v_ReturnStatement [{'value' if visits else 'void'}]",
                  "emits a return of the visited value and ends the basic block (following code starts a new one)",
                  f"stream {kinds}: the return is not emitted with the visited value or the block is not ended", LOWER, h)

    # ---- break/continue bookkeeping chain -----------------------------------
    ctx = model.cls(LOWER, "LowerToIRVisitor.Context")
    bc = model.cls(LOWER, "_BreakContinueStatements")
    reg_field = {}
    for meth, key in (("RegisterLoopBreak", "break"), ("RegisterLoopContinue", "continue")):
        m = ctx.own_method(meth)
        ap = [c for c in ast.walk(m) if isinstance(c, ast.Call) and last_attr(c) == "append"]
        fld = ap[0].func.value.attr if ap and isinstance(ap[0].func.value, ast.Attribute) else None
        top = ap and "[-1]" in unparse(ap[0].func.value)
        reg_field[key] = fld
        col.check(bool(ap) and top and ap[0].args and unparse(ap[0].args[0]) == m.args.args[1].arg, rule, f"{LOWER}::Context.{meth}",
                  f"appends the branch to the innermost loop's `{fld}`", "does not append the branch to the innermost (top of stack) loop record", LOWER, m)
    col.check(reg_field["break"] != reg_field["continue"] and None not in reg_field.values(), rule, f"{LOWER}::Context break/continue lists distinct",
              f"break -> {reg_field['break']}, continue -> {reg_field['continue']}", f"break and continue branches go to the same list {reg_field}", LOWER, ctx.node)
    el = ctx.own_method("EndLoop")
    mk = [c for c in ast.walk(el) if isinstance(c, ast.Call) and last_attr(c) == "_BreakContinueStatements"]
    pops = [c for c in ast.walk(el) if isinstance(c, ast.Call) and last_attr(c) == "pop"]
    binit = bc.own_method("__init__")
    bprm = [a.arg for a in binit.args.args[1:]]
    passed = [a.attr if isinstance(a, ast.Attribute) else unparse(a) for a in mk[0].args] if mk else []
    fld_of = {}
    for n in ast.walk(binit):
        if isinstance(n, ast.Assign) and isinstance(n.value, ast.Name) and isinstance(n.targets[0], ast.Attribute):
            fld_of[n.value.id] = n.targets[0].attr
    chain = {}
    for prm, src in zip(bprm, passed):
        chain[fld_of.get(prm)] = src
    for meth, key in (("SetBreakTarget", "break"), ("SetContinueTarget", "continue")):
        m = bc.own_method(meth)
        loops = [n for n in ast.walk(m) if isinstance(n, ast.For)]
        it = loops[0].iter.attr if loops and isinstance(loops[0].iter, ast.Attribute) else None
        sets = [c for c in ast.walk(m) if isinstance(c, ast.Call) and last_attr(c) == "SetTrueBlock"]
        good = bool(pops) and it is not None and chain.get(it) == reg_field[key] and bool(sets) and unparse(sets[0].args[0]) == m.args.args[1].arg
        col.check(good, rule, f"{LOWER}::_BreakContinueStatements.{meth}",
                  f"patches every branch registered by Register{'LoopBreak' if key == 'break' else 'LoopContinue'} (list {reg_field[key]}) to the given block",
                  f"iterates field {it}, which EndLoop fills from `{chain.get(it)}`, but {key} branches are registered in `{reg_field[key]}`", LOWER, m)
    bl = ctx.own_method("BeginLoop")
    fresh = [n for n in ast.walk(bl) if (isinstance(n, ast.List) and not n.elts) or (isinstance(n, ast.Call) and dotted(n.func) == "list" and not n.args)]
    app = [c for c in ast.walk(bl) if isinstance(c, ast.Call) and last_attr(c) == "append"]
    col.check(len(fresh) >= 2 and bool(app), rule, f"{LOWER}::Context.BeginLoop", "pushes a record with two fresh lists",
              "does not push a record with fresh break/continue lists per loop (lists shared between loops patch the wrong branches)", LOWER, bl)
    col.note("lowering templates", analysed)


def getter_roles_simple(model, clsname):
    ci = model.cls(ASTF, clsname)
    out = {}
    for name, m in ci.methods.items():
        if name.startswith("Get"):
            out[name] = name[3:].lower()
    return out


def fmt(x):
    if isinstance(x, tuple) and x and x[0] == "br":
        return f"branch on {x[1]}: true -> {fmt(x[2])}, false -> {fmt(x[3])}"
    return str(x)
