"""Model of the interpreter `ExecutionContext.__Execute` in nsl/VM.py: the
interpreter loop, its opcode arms and per-arm statements."""
from __future__ import annotations

import ast
from typing import Dict, List, Optional, Tuple

from .model import AnalysisError, AnchorMissing, Model, dotted, unparse, walk_no_nested

VM = "nsl/VM.py"
IR = "nsl/LinearIR.py"


class Arm:
    def __init__(self, opcode, body, case, guard=None, outer=None):
        self.opcode = opcode  # OpCode member name or None for catch-all
        self.body = body
        self.case = case
        self.guard = guard
        self.outer = outer  # enclosing Arm for nested matches


# locals of the pinned interpreter that hold a field of the instruction being executed; the rules are written with these names.
# Any *other* local bound once, inside one arm, to a plain field chain of `instruction` (`variable = instruction.Variable`) is
# presented inlined: the VM never assigns fields of IR instructions, so the local and the chain denote the same object
# wherever the local is read.  (Inlining these seven as well would be equally sound; it is a choice of spelling.)
KEPT_FIELD_ALIASES = {"ref", "indices", "array", "operation", "varType", "targetType", "opCode"}


def _inline_field_aliases(match: ast.Match, root: str = "instruction"):
    import copy

    def is_chain(e):
        while isinstance(e, ast.Attribute):
            e = e.value
        return isinstance(e, ast.Name) and e.id == root

    for case in match.cases:
        binds = {}
        for n in ast.walk(case):
            if isinstance(n, (ast.Assign, ast.AugAssign, ast.AnnAssign, ast.For, ast.With, ast.NamedExpr, ast.comprehension)):
                tg = n.targets if isinstance(n, ast.Assign) else [getattr(n, "target", None)] if not isinstance(n, ast.With) else [i.optional_vars for i in n.items]
                for t in tg:
                    for x in ast.walk(t) if t is not None else []:
                        if isinstance(x, ast.Name) and isinstance(x.ctx, ast.Store):
                            binds.setdefault(x.id, []).append(n)
        env = {}
        for name, sites in binds.items():
            s = sites[0]
            if len(sites) == 1 and name not in KEPT_FIELD_ALIASES and isinstance(s, ast.Assign) and len(s.targets) == 1 and isinstance(s.targets[0], ast.Name) \
                    and isinstance(s.value, ast.Attribute) and is_chain(s.value):
                env[name] = s

        if not env:
            continue

        class _S(ast.NodeTransformer):
            def visit_Name(self, n):
                if isinstance(n.ctx, ast.Load) and n.id in env:
                    return ast.copy_location(copy.deepcopy(env[n.id].value), n)
                return n

        def strip(stmts):
            out = []
            for st in stmts:
                if any(st is a for a in env.values()):
                    continue
                for fld in ("body", "orelse", "finalbody"):
                    if hasattr(st, fld) and isinstance(getattr(st, fld), list):
                        setattr(st, fld, strip(getattr(st, fld)) or [ast.copy_location(ast.Pass(), st)])
                if isinstance(st, ast.Match):
                    for c in st.cases:
                        c.body = strip(c.body) or [ast.copy_location(ast.Pass(), st)]
                out.append(st)
            return out

        case.body = strip(case.body) or [ast.copy_location(ast.Pass(), case.pattern)]
        for i, st in enumerate(case.body):
            case.body[i] = ast.fix_missing_locations(_S().visit(st))


class VMModel:
    def __init__(self, model: Model):
        self.model = model
        self.ec = model.cls(VM, "ExecutionContext")
        self.execute = self.ec.own_method("__Execute")
        if self.execute is not None:
            # helper methods the pinned interpreter does not have (an extracted `__GetScalarConversion(targetType)`) are read
            # in place; the pinned ones stay calls because the rules name them
            from .sem import expand_helpers

            kept = ("v_", "Invoke", "_Invoke", "__MatrixMatrixMultiply", "__CastValue", "__CreateInstance", "__CreatePrimitiveInstance", "__CreateStructureInstance", "__Execute")
            try:
                orig = self.execute
                if not getattr(orig, "_nslsa_expanded", False):
                    self.execute = expand_helpers(model, self.ec, orig, skip=kept + tuple("_ExecutionContext" + k for k in kept if k.startswith("__")))
                    self.execute._nslsa_expanded = True
                    # helpers that are now read in place and that nothing else calls are not separate units of analysis
                    inl = set(getattr(self.execute, "_nslsa_inlined", ()))
                    for h_ in list(inl):
                        for k_, v_ in self.ec.methods.items():
                            if v_ is orig or v_.name == h_:
                                continue
                            if any(isinstance(c_, ast.Attribute) and c_.attr in (h_, "__" + h_.split("__")[-1]) for c_ in ast.walk(v_)) and v_.name not in inl:
                                inl.discard(h_)
                    self.ec.inlined_helpers = inl
                    # every rule sees the same tree: the class's method table now holds the expanded interpreter
                    for k_, v_ in list(self.ec.methods.items()):
                        if v_ is orig:
                            self.ec.methods[k_] = self.execute
            except Exception:
                self.execute = self.ec.own_method("__Execute")
        self.opcodes: Dict[str, int] = model.enum_members(IR, "OpCode")
        if not self.opcodes:
            raise AnchorMissing(f"{IR}::OpCode has no members")
        # interpreter loop = the outermost while/for that contains a match
        self.loop = None
        for st in self.execute.body:
            if isinstance(st, (ast.While, ast.For)) and any(isinstance(n, ast.Match) for n in ast.walk(st)):
                self.loop = st
                break
        if self.loop is None:
            raise AnchorMissing(f"{VM}::ExecutionContext.__Execute has no interpreter loop containing a match statement")
        self.prologue = self.execute.body[: self.execute.body.index(self.loop)]
        self.main_match = next(n for n in self.loop.body if isinstance(n, ast.Match)) if any(
            isinstance(n, ast.Match) for n in self.loop.body) else next(n for n in ast.walk(self.loop) if isinstance(n, ast.Match))
        self.arms: Dict[str, Arm] = {}
        self.catchalls: List[Arm] = []
        _inline_field_aliases(self.main_match)
        self._collect(self.main_match, None)

    def _pattern_members(self, pat) -> Optional[List[str]]:
        if isinstance(pat, ast.MatchValue):
            d = dotted(pat.value)
            if d and "OpCode." in d + ".":
                return [d.split(".")[-1]]
            return None
        if isinstance(pat, ast.MatchOr):
            out = []
            for p in pat.patterns:
                m = self._pattern_members(p)
                if m is None:
                    return None
                out += m
            return out
        return None

    def _guard_members(self, guard) -> Optional[List[str]]:
        """Fold a guard such as `(opCode.value >> 16) == 0x1` over the enum."""
        if guard is None:
            return None
        out = []
        for name, val in self.opcodes.items():
            if not isinstance(val, int):
                continue

            fi_ = self.model.files[VM]
            model_ = self.model

            class T(ast.NodeTransformer):
                def visit_Attribute(self_inner, n):
                    if n.attr == "value":
                        return ast.copy_location(ast.Constant(val), n)
                    # a member of an integer enum of the interpreter's own module (`_OpCodeGroup.BINARY_OPERATION`)
                    if isinstance(n.value, ast.Name) and model_.has_cls(VM, n.value.id):
                        try:
                            mem = model_.enum_members(VM, n.value.id)
                        except Exception:
                            mem = {}
                        if isinstance(mem.get(n.attr), int):
                            return ast.copy_location(ast.Constant(mem[n.attr]), n)
                    return self_inner.generic_visit(n)

                def visit_Name(self_inner, n):
                    # a module-level integer constant (`_OPCODE_GROUP_SHIFT = 16`)
                    v_ = fi_.assigns.get(n.id)
                    if isinstance(v_, ast.Constant) and isinstance(v_.value, int):
                        return ast.copy_location(ast.Constant(v_.value), n)
                    return n

            g = T().visit(ast.parse(unparse(guard), mode="eval").body)
            try:
                v = eval(compile(ast.fix_missing_locations(ast.Expression(g)), "<guard>", "eval"), {"__builtins__": {}}, {})
            except Exception:
                return None
            if v:
                out.append(name)
        return out

    def _collect(self, match, outer: Optional[Arm], allowed: Optional[List[str]] = None):
        for case in match.cases:
            pat = case.pattern
            mem = self._pattern_members(pat)
            if mem is not None and case.guard is None:
                for m in mem:
                    if allowed is not None and m not in allowed:
                        continue
                    if m not in self.arms:
                        self.arms[m] = Arm(m, case.body, case, None, outer)
                continue
            if isinstance(pat, ast.MatchAs) and pat.pattern is None:
                if case.guard is not None:
                    gm = self._guard_members(case.guard)
                    inner = [s for s in case.body if isinstance(s, ast.Match)]
                    arm = Arm(None, case.body, case, case.guard, outer)
                    if gm is not None and inner:
                        remaining = [m for m in gm if m not in self.arms]
                        self._collect(inner[0], arm, remaining)
                        # members selected by the guard but not handled by the inner match
                        # fall to the inner catch-all
                        continue
                    raise AnalysisError(f"{VM}::__Execute: cannot model guarded catch-all arm `{unparse(case.guard)}`")
                self.catchalls.append(Arm(None, case.body, case, None, outer))
                continue
            raise AnalysisError(f"{VM}::__Execute: unmodelled case pattern `{unparse(pat)}`")

    def arm(self, opcode: str) -> Arm:
        if opcode not in self.arms:
            raise AnchorMissing(f"{VM}::__Execute has no arm for OpCode.{opcode}")
        return self.arms[opcode]

    def guard_selected(self) -> List[str]:
        """Opcodes routed through the guarded `case _ if ...` arm."""
        for case in self.main_match.cases:
            if case.guard is not None:
                return self._guard_members(case.guard) or []
        return []
