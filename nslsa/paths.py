"""E4: structured path enumeration over a function body.

A syntax-directed walk (the repository uses only structured control flow) that
yields every path through a statement list as a list of events.  Conditions
that are tested more than once get one boolean symbol per path (keyed by
their normalised text and invalidated when a name they mention is
re-assigned), so infeasible mixes of a double-tested condition are not
explored."""
from __future__ import annotations

import ast
from typing import Callable, Dict, Iterator, List, Optional, Tuple

from .model import AnalysisError, dotted, last_attr, names_in, unparse

MAX_PATHS = 20000


class Ev:
    __slots__ = ("kind", "node", "val")

    def __init__(self, kind, node=None, val=None):
        self.kind = kind  # stmt | cond | case | nocase | loop | with | return | raise | fall | break | continue
        self.node = node
        self.val = val

    def __repr__(self):
        if self.kind == "cond":
            return f"[{unparse(self.node)} is {self.val}]"
        if self.kind in ("stmt", "return", "raise"):
            return f"{self.kind}:{unparse(self.node)[:60]}"
        return self.kind


def is_noreturn_stmt(st) -> bool:
    if isinstance(st, ast.Raise):
        return True
    if isinstance(st, ast.Expr) and isinstance(st.value, ast.Call):
        la = last_attr(st.value)
        d = dotted(st.value.func)
        if la == "Raise" or d in ("sys.exit", "exit", "os._exit"):
            return True
    if isinstance(st, ast.Assert) and isinstance(st.test, ast.Constant) and st.test.value is False:
        return True
    return False


def _assigned_names(st) -> set:
    out = set()
    for n in ast.walk(st):
        if isinstance(n, ast.Name) and isinstance(n.ctx, (ast.Store, ast.Del)):
            out.add(n.id)
    return out


def _strip_not(test):
    neg = False
    while isinstance(test, ast.UnaryOp) and isinstance(test.op, ast.Not):
        neg = not neg
        test = test.operand
    return test, neg


def _atom_key(e):
    """Normalised text of an atomic condition and whether the atom is the
    negation of that text: `a != b` -> ('a == b', True)."""
    if isinstance(e, ast.Compare) and len(e.ops) == 1:
        op = e.ops[0]
        flip = {ast.NotEq: ast.Eq, ast.IsNot: ast.Is, ast.NotIn: ast.In}
        if type(op) in flip:
            pos = ast.Compare(left=e.left, ops=[flip[type(op)]()], comparators=e.comparators)
            return " ".join(unparse(pos).split()), True
    return " ".join(unparse(e).split()), False


def _truth_of(e, conds):
    """Truth of expression e under the recorded atoms, or None."""
    e, neg = _strip_not(e)
    if isinstance(e, ast.BoolOp):
        v = _eval_known(e, conds)
        return None if v is None else (v != neg)
    key, kneg = _atom_key(e)
    if key in conds:
        return (conds[key] != kneg) != neg
    return None


def _eval_known(e, conds):
    if isinstance(e, ast.BoolOp):
        vals = [_truth_of(v, conds) for v in e.values]
        if isinstance(e.op, ast.And):
            if any(v is False for v in vals):
                return False
            if all(v is True for v in vals):
                return True
        else:
            if any(v is True for v in vals):
                return True
            if all(v is False for v in vals):
                return False
    return None


def _imply(e, truth, conds):
    """Record what `e == truth` implies for the atoms of e."""
    e, neg = _strip_not(e)
    truth = truth != neg
    if isinstance(e, ast.BoolOp):
        if (isinstance(e.op, ast.Or) and not truth) or (isinstance(e.op, ast.And) and truth):
            for v in e.values:
                _imply(v, truth, conds)
        return
    key, kneg = _atom_key(e)
    conds.setdefault(key, truth != kneg)


def paths(body: List[ast.stmt], loop_iters=(0, 1), fold: Optional[Callable] = None) -> List[Tuple[List[Ev], str]]:
    """All paths through `body`: [(events, status)], status in
    fall | return | raise.  `fold(test)` may return True/False to prune."""
    out: List[Tuple[List[Ev], str]] = []
    count = [0]

    def decide(test, conds):
        """-> list of (bool, conds') feasible valuations"""
        if fold is not None:
            v = fold(test)
            if v is not None:
                return [(bool(v), conds)]
        # test == base XOR neg ; base == atom(key) XOR kneg ; conds stores the truth of atom(key)
        base, neg = _strip_not(test)
        key, kneg = _atom_key(base)
        if key in conds:
            return [((conds[key] != kneg) != neg, conds)]
        # a compound test whose atoms are all known is determined
        known = _eval_known(base, conds)
        if known is not None:
            return [(known != neg, conds)]
        res = []
        for b in (True, False):
            c = dict(conds)
            base_truth = b != neg
            c[key] = base_truth != kneg
            _imply(base, base_truth, c)
            res.append((b, c))
        return res

    def invalidate(conds, names):
        if not names:
            return conds
        c = {}
        for k, v in conds.items():
            try:
                kn = names_in(ast.parse(k, mode="eval"))
            except SyntaxError:
                kn = set()
            if not (kn & names):
                c[k] = v
        return c

    def seq(stmts, i, evs, conds) -> Iterator[Tuple[List[Ev], str, dict]]:
        """yield (events, status, conds) for stmts[i:]; status fall/return/raise/break/continue"""
        if i >= len(stmts):
            yield evs, "fall", conds
            return
        st = stmts[i]
        for evs2, status, conds2 in one(st, evs, conds):
            if status == "fall":
                yield from seq(stmts, i + 1, evs2, conds2)
            else:
                yield evs2, status, conds2

    def one(st, evs, conds):
        count[0] += 1
        if count[0] > 400000:
            raise AnalysisError("path explosion")
        if isinstance(st, ast.If):
            for b, c in decide(st.test, conds):
                e = evs + [Ev("cond", st.test, b)]
                yield from seq(st.body if b else st.orelse, 0, e, c)
        elif isinstance(st, (ast.For, ast.While)):
            for n in loop_iters:
                if n == 0:
                    e = evs + [Ev("loop", st, 0)]
                    yield from seq(st.orelse, 0, e, conds)
                else:
                    e = evs + [Ev("loop", st, 1)]
                    c = invalidate(conds, _assigned_names(st))
                    for e2, status, c2 in seq(st.body, 0, e, c):
                        if status in ("fall", "continue"):
                            yield from seq(st.orelse, 0, e2 + [Ev("loopend", st)], c2)
                        elif status == "break":
                            yield e2 + [Ev("loopend", st)], "fall", c2
                        else:
                            yield e2, status, c2
        elif isinstance(st, ast.With):
            e = evs + [Ev("with", st)]
            for e2, status, c2 in seq(st.body, 0, e, conds):
                yield e2 + [Ev("withend", st)], status, c2
        elif isinstance(st, ast.Try):
            for e2, status, c2 in seq(st.body, 0, evs + [Ev("try", st)], conds):
                if status == "fall":
                    for e3, s3, c3 in seq(st.orelse, 0, e2, c2):
                        if s3 == "fall":
                            yield from seq(st.finalbody, 0, e3, c3)
                        else:
                            yield e3, s3, c3
                else:
                    yield e2, status, c2
            for h in st.handlers:
                for e2, status, c2 in seq(h.body, 0, evs + [Ev("except", h)], conds):
                    if status == "fall":
                        yield from seq(st.finalbody, 0, e2, c2)
                    else:
                        yield e2, status, c2
        elif isinstance(st, ast.Match):
            wildcard = False
            for case in st.cases:
                e = evs + [Ev("case", case, st.subject)]
                if isinstance(case.pattern, ast.MatchAs) and case.pattern.pattern is None and case.guard is None:
                    wildcard = True
                # `case Cls():` without sub-patterns or guard is isinstance(subject, Cls): let the caller's fold decide it
                if fold is not None and case.guard is None:
                    pats = case.pattern.patterns if isinstance(case.pattern, ast.MatchOr) else [case.pattern]
                    if all(isinstance(p_, ast.MatchClass) and not p_.patterns and not p_.kwd_patterns for p_ in pats):
                        vals = [fold(ast.Call(func=ast.Name(id="isinstance", ctx=ast.Load()), args=[st.subject, p_.cls], keywords=[])) for p_ in pats]
                        if any(v_ is True for v_ in vals):
                            wildcard = True  # this case certainly matches: later cases and the fall-through are unreachable
                            yield from seq(case.body, 0, e, conds)
                            break
                        if all(v_ is False for v_ in vals):
                            continue
                yield from seq(case.body, 0, e, conds)
            if not wildcard:
                yield evs + [Ev("nocase", st)], "fall", conds
        elif isinstance(st, ast.Return):
            yield evs + [Ev("return", st)], "return", conds
        elif isinstance(st, ast.Break):
            yield evs + [Ev("break", st)], "break", conds
        elif isinstance(st, ast.Continue):
            yield evs + [Ev("continue", st)], "continue", conds
        elif is_noreturn_stmt(st):
            yield evs + [Ev("raise", st)], "raise", conds
        elif isinstance(st, (ast.FunctionDef, ast.ClassDef, ast.Import, ast.ImportFrom, ast.Pass, ast.Global, ast.Nonlocal)):
            yield evs + [Ev("stmt", st)], "fall", conds
        else:
            c = invalidate(conds, _assigned_names(st))
            yield evs + [Ev("stmt", st)], "fall", c

    for evs, status, _c in seq(body, 0, [], {}):
        if status in ("break", "continue"):
            status = "fall"
        if status == "fall":
            evs = evs + [Ev("fall")]
        out.append((evs, status))
        if len(out) > MAX_PATHS:
            raise AnalysisError("more than %d paths" % MAX_PATHS)
    return out


def calls_on_path(evs: List[Ev], name: Optional[str] = None) -> List[ast.Call]:
    """Calls executed along a path, in order (statement order; inside one
    statement: source order)."""
    out = []
    for e in evs:
        node = None
        if e.kind in ("stmt", "return", "raise"):
            node = e.node
        elif e.kind == "cond":
            node = e.node
        elif e.kind == "with":
            node = ast.Module(body=[ast.Expr(i.context_expr) for i in e.node.items], type_ignores=[])
        elif e.kind == "loop" and isinstance(e.node, ast.For):
            node = e.node.iter
        elif e.kind == "loop" and isinstance(e.node, ast.While):
            node = e.node.test
        if node is None:
            continue
        cs = [n for n in ast.walk(node) if isinstance(n, ast.Call)
              and not isinstance(n, (ast.FunctionDef,))]
        cs.sort(key=lambda c: (getattr(c, "end_lineno", 0), getattr(c, "end_col_offset", 0)))
        for c in cs:
            if name is None or last_attr(c) == name:
                out.append(c)
    return out


def cond_atoms(evs: List[Ev], env: Optional[dict] = None) -> Dict[str, bool]:
    """Truth of the normalised atomic conditions established along a path
    (`a != b` is recorded as 'a == b': False; conjunctions that hold and
    disjunctions that fail are split into their operands)."""
    atoms: Dict[str, bool] = {}
    for e in evs:
        if e.kind == "cond":
            node = e.node
            if env:
                from .sem import resolve

                node = resolve(node, env)
            _imply(node, e.val, atoms)
            # isinstance(x, C) being true implies x is not None
            for k, v in list(atoms.items()):
                if v and k.startswith("isinstance(") and "," in k:
                    subj = k[len("isinstance("):k.index(",")].strip()
                    atoms.setdefault(f"{subj} is None", False)
            base, neg = _strip_not(node)
            if isinstance(base, ast.BoolOp):
                key, kneg = _atom_key(base)
                atoms.setdefault(key, (e.val != neg) != kneg)
    return atoms


def path_conditions(evs: List[Ev]) -> List[Tuple[str, bool]]:
    return [(" ".join(unparse(e.node).split()), e.val) for e in evs if e.kind == "cond"]
