"""E5 (effects part): per-method summaries of in-place mutations of `self`
attributes, closed transitively over calls to methods of the same class."""
from __future__ import annotations

import ast
from typing import Dict, Set

from .model import ClassInfo, Model, last_attr, mangle, unparse

MUTATORS = {"append", "extend", "add", "update", "pop", "insert", "remove", "clear", "discard", "setdefault", "popitem", "sort", "reverse", "__setitem__", "appendleft"}


def self_attr(node, selfname):
    """`self.x` / `self.x[...]` / `self.x.y` -> 'x' (first attribute on self)"""
    while isinstance(node, (ast.Subscript, ast.Attribute)):
        if isinstance(node, ast.Attribute) and isinstance(node.value, ast.Name) and node.value.id == selfname:
            return node.attr
        node = node.value
    return None


def direct_mutations(cls: ClassInfo, m: ast.FunctionDef) -> Dict[str, ast.AST]:
    """{mangled attribute: node} mutated in place (not merely re-bound) by m."""
    if not m.args.args:
        return {}
    s = m.args.args[0].arg
    out = {}
    for n in ast.walk(m):
        if isinstance(n, ast.Call) and isinstance(n.func, ast.Attribute) and n.func.attr in MUTATORS:
            a = self_attr(n.func.value, s)
            if a and isinstance(n.func.value, ast.Attribute) and n.func.value.attr == a:
                out.setdefault(mangle(cls.name, a), n)
        elif isinstance(n, (ast.Assign, ast.AugAssign, ast.Delete)):
            tgts = n.targets if isinstance(n, (ast.Assign, ast.Delete)) else [n.target]
            for t in tgts:
                if isinstance(t, ast.Subscript):
                    a = self_attr(t.value, s)
                    if a and isinstance(t.value, ast.Attribute) and t.value.attr == a:
                        out.setdefault(mangle(cls.name, a), n)
    return out


def rebinds(cls: ClassInfo, m: ast.FunctionDef) -> Set[str]:
    if not m.args.args:
        return set()
    s = m.args.args[0].arg
    out = set()
    for n in ast.walk(m):
        if isinstance(n, ast.Assign):
            for t in n.targets:
                if isinstance(t, ast.Attribute) and isinstance(t.value, ast.Name) and t.value.id == s:
                    out.add(mangle(cls.name, t.attr))
    return out


def self_calls(cls: ClassInfo, node) -> Set[str]:
    out = set()
    for n in ast.walk(node):
        if isinstance(n, ast.Call) and isinstance(n.func, ast.Attribute) and isinstance(n.func.value, ast.Name) and n.func.value.id in ("self",):
            out.add(n.func.attr)
    return out


def transitive_mutations(cls: ClassInfo, node, depth=0, seen=None) -> Dict[str, str]:
    """Attributes mutated in place by executing `node` (a statement list or
    function), following self.method() calls.  {attr: via}"""
    seen = seen if seen is not None else set()
    out = {}
    fake = ast.Module(body=node, type_ignores=[]) if isinstance(node, list) else node
    holder = ast.FunctionDef(name="_", args=ast.arguments(posonlyargs=[], args=[ast.arg(arg="self")], kwonlyargs=[], kw_defaults=[], defaults=[]),
                             body=fake.body if hasattr(fake, "body") else [fake], decorator_list=[], lineno=0)
    for a, n in direct_mutations(cls, holder).items():
        out.setdefault(a, "directly")
    if depth < 4:
        for name in self_calls(cls, fake):
            r = cls.find_method(name) or cls.find_method(mangle(cls.name, name))
            if r is None or (r[0].name, name) in seen:
                continue
            seen.add((r[0].name, name))
            for a, via in transitive_mutations(r[0], r[1], depth + 1, seen).items():
                out.setdefault(a, f"via self.{name}()" + ("" if via == "directly" else " " + via))
    return out


def iteration_mutation_conflicts(model: Model):
    """[(class, method, for-node, attr, via)]: loops over a self container whose
    body mutates that container."""
    out = []
    for cls in model.classes.values():
        for m in cls.methods.values():
            if not m.args.args:
                continue
            s = m.args.args[0].arg
            for n in ast.walk(m):
                if not isinstance(n, ast.For):
                    continue
                it = n.iter
                if isinstance(it, ast.Call) and isinstance(it.func, ast.Attribute) and it.func.attr in ("items", "values", "keys") and not it.args:
                    it = it.func.value
                if isinstance(it, ast.Attribute) and isinstance(it.value, ast.Name) and it.value.id == s:
                    attr = mangle(cls.name, it.attr)
                    muts = transitive_mutations(cls, n.body)
                    if attr in muts:
                        out.append((cls, m, n, attr, muts[attr]))
    return out
