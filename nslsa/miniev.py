"""Folding of *pure* expressions (comparisons, boolean and integer arithmetic,
slices of literal strings/tuples) over a finite grid of symbolic inputs.
Used to abstract a guard such as `v < 0 or n <= v` to the set of (v, n) it
rejects.  Nothing from the repository is executed: only the expression's own
operators are interpreted, by this module."""
from __future__ import annotations

import ast
import operator


class CannotEval(Exception):
    pass


_BIN = {
    ast.Add: operator.add, ast.Sub: operator.sub, ast.Mult: operator.mul, ast.FloorDiv: operator.floordiv,
    ast.Mod: operator.mod, ast.BitAnd: operator.and_, ast.BitOr: operator.or_, ast.LShift: operator.lshift, ast.RShift: operator.rshift,
}
_CMP = {
    ast.Eq: operator.eq, ast.NotEq: operator.ne, ast.Lt: operator.lt, ast.LtE: operator.le, ast.Gt: operator.gt, ast.GtE: operator.ge,
    ast.In: lambda a, b: a in b, ast.NotIn: lambda a, b: a not in b, ast.Is: operator.is_, ast.IsNot: operator.is_not,
}
_CALLS = {"len": len, "range": range, "abs": abs, "min": min, "max": max, "int": int, "set": set, "tuple": tuple, "list": list, "any": any, "all": all,
          "bool": bool, "frozenset": frozenset, "sorted": sorted, "sum": sum}
_TYPES = {"int": int, "float": float, "str": str, "bool": bool, "tuple": tuple, "list": list, "set": set, "frozenset": frozenset, "dict": dict, "bytes": bytes}
_STRM = ("strip", "lstrip", "rstrip", "lower", "upper", "startswith", "endswith", "find", "count", "replace", "translate", "isalpha")
_SETM = ("isdisjoint", "intersection", "issubset", "issuperset", "union", "difference")


def ev(node, env, calls=None):
    calls = calls or {}

    def go(n):
        if isinstance(n, ast.Constant):
            return n.value
        if isinstance(n, ast.Name):
            if n.id in env:
                return env[n.id]
            raise CannotEval(f"name {n.id}")
        if isinstance(n, ast.BoolOp):
            if isinstance(n.op, ast.And):
                r = True
                for v in n.values:
                    r = go(v)
                    if not r:
                        return r
                return r
            r = False
            for v in n.values:
                r = go(v)
                if r:
                    return r
            return r
        if isinstance(n, ast.UnaryOp):
            v = go(n.operand)
            if isinstance(n.op, ast.Not):
                return not v
            if isinstance(n.op, ast.USub):
                return -v
            raise CannotEval("unary")
        if isinstance(n, ast.BinOp) and type(n.op) in _BIN:
            return _BIN[type(n.op)](go(n.left), go(n.right))
        if isinstance(n, ast.Compare):
            left = go(n.left)
            for op, c in zip(n.ops, n.comparators):
                right = go(c)
                if type(op) not in _CMP:
                    raise CannotEval("cmp")
                if not _CMP[type(op)](left, right):
                    return False
                left = right
            return True
        if isinstance(n, (ast.Tuple, ast.List, ast.Set)):
            vals = [go(e) for e in n.elts]
            return tuple(vals) if isinstance(n, ast.Tuple) else vals if isinstance(n, ast.List) else set(vals)
        if isinstance(n, ast.Subscript):
            base = go(n.value)
            if isinstance(n.slice, ast.Slice):
                lo = go(n.slice.lower) if n.slice.lower else None
                hi = go(n.slice.upper) if n.slice.upper else None
                st = go(n.slice.step) if n.slice.step else None
                return base[lo:hi:st]
            return base[go(n.slice)]
        if isinstance(n, ast.IfExp):
            return go(n.body) if go(n.test) else go(n.orelse)
        if isinstance(n, ast.Call):
            key = ast.unparse(n.func)
            if key in calls:
                return calls[key](*[go(a) for a in n.args])
            if isinstance(n.func, ast.Name) and n.func.id in _CALLS and not n.keywords:
                return _CALLS[n.func.id](*[go(a) for a in n.args])
            text = " ".join(ast.unparse(n).split())
            if text in env:
                return env[text]
            if isinstance(n.func, ast.Attribute) and n.func.attr in _SETM and not n.keywords:
                recv = go(n.func.value)
                if isinstance(recv, (set, frozenset)):
                    return getattr(recv, n.func.attr)(*[go(a) for a in n.args])
            if isinstance(n.func, ast.Attribute) and n.func.attr in _STRM and not n.keywords:
                recv = go(n.func.value)
                if isinstance(recv, str):
                    return getattr(recv, n.func.attr)(*[go(a) for a in n.args])
            if isinstance(n.func, ast.Name) and n.func.id == "isinstance" and len(n.args) == 2 and not n.keywords:
                tys = n.args[1].elts if isinstance(n.args[1], ast.Tuple) else [n.args[1]]
                if all(isinstance(t, ast.Name) and t.id in _TYPES and t.id not in env for t in tys):
                    return isinstance(go(n.args[0]), tuple(_TYPES[t.id] for t in tys))
            if isinstance(n.func, ast.Attribute) and n.func.attr == "bit_length" and not n.keywords and not n.args:
                recv = go(n.func.value)
                if isinstance(recv, int) and not isinstance(recv, bool):
                    return recv.bit_length()
            raise CannotEval(f"call {key}")
        if isinstance(n, (ast.ListComp, ast.GeneratorExp)) and len(n.generators) == 1 and isinstance(n.generators[0].target, ast.Name):
            g = n.generators[0]
            out = []
            for x in go(g.iter):
                sub = dict(env)
                sub[g.target.id] = x
                if all(ev(c, sub, calls) for c in g.ifs):
                    out.append(ev(n.elt, sub, calls))
            return out
        if isinstance(n, ast.Attribute):
            text = ast.unparse(n)
            if text in env:
                return env[text]
            raise CannotEval(f"attribute {text}")
        raise CannotEval(type(n).__name__)

    return go(node)


class _Ret(Exception):
    def __init__(self, v):
        self.v = v


class _Brk(Exception):
    pass


class _Cont(Exception):
    pass


def run_pure(fn: ast.FunctionDef, args, calls=None, fuel=2000, extra=None):
    """Fold a small *pure* helper (local assignments, for/if/return/break/continue over `ev` expressions) on one tuple of
    literal arguments.  Anything else raises CannotEval."""
    env = {a.arg: v for a, v in zip(fn.args.args, args)}
    env.update(extra or {})
    left = [fuel]

    def block(stmts):
        for s in stmts:
            left[0] -= 1
            if left[0] < 0:
                raise CannotEval("fuel")
            if isinstance(s, ast.Expr) and isinstance(s.value, ast.Constant):
                continue
            if isinstance(s, ast.Return):
                raise _Ret(ev(s.value, env, calls) if s.value is not None else None)
            if isinstance(s, ast.Assign) and len(s.targets) == 1 and isinstance(s.targets[0], ast.Name):
                env[s.targets[0].id] = ev(s.value, env, calls)
            elif isinstance(s, ast.AugAssign) and isinstance(s.target, ast.Name) and type(s.op) in _BIN:
                env[s.target.id] = _BIN[type(s.op)](env[s.target.id], ev(s.value, env, calls))
            elif isinstance(s, ast.If):
                block(s.body if ev(s.test, env, calls) else s.orelse)
            elif isinstance(s, ast.For) and isinstance(s.target, ast.Name):
                broke = False
                for x in ev(s.iter, env, calls):
                    env[s.target.id] = x
                    try:
                        block(s.body)
                    except _Brk:
                        broke = True
                        break
                    except _Cont:
                        continue
                if not broke:
                    block(s.orelse)
            elif isinstance(s, ast.Break):
                raise _Brk()
            elif isinstance(s, ast.Continue):
                raise _Cont()
            elif isinstance(s, ast.Pass):
                pass
            else:
                raise CannotEval(type(s).__name__)

    try:
        block(fn.body)
    except _Ret as r:
        return r.v
    return None
