"""Folding of *pure* expressions (comparisons, boolean and integer arithmetic,
slices of literal strings/tuples) over a finite grid of symbolic inputs.
Used to abstract a guard such as `v < 0 or n <= v` to the set of (v, n) it
rejects.  Nothing from the repository is executed: only the expression's own
operators are interpreted, by this module."""
from __future__ import annotations

import ast
import operator


class CannotEval(Exception):
    pass


class AssertFails(Exception):
    pass


class Sample:
    """A sample value with methods: `methods` maps a method name to its result (or to a function of the arguments).  Rules
    use it to fold code over objects whose only relevant behaviour is what a few getters return (`candidate.Match(..)`)."""

    def __init__(self, label, methods):
        self.label = label
        self.methods = methods

    def call(self, name, args):
        if name not in self.methods:
            raise CannotEval(f"sample method {name}")
        m = self.methods[name]
        return m(*args) if callable(m) else m

    def __repr__(self):
        return f"<{self.label}>"


_BIN = {
    ast.Add: operator.add, ast.Sub: operator.sub, ast.Mult: operator.mul, ast.FloorDiv: operator.floordiv,
    ast.Mod: operator.mod, ast.BitAnd: operator.and_, ast.BitOr: operator.or_, ast.LShift: operator.lshift, ast.RShift: operator.rshift,
}
_CMP = {
    ast.Eq: operator.eq, ast.NotEq: operator.ne, ast.Lt: operator.lt, ast.LtE: operator.le, ast.Gt: operator.gt, ast.GtE: operator.ge,
    ast.In: lambda a, b: a in b, ast.NotIn: lambda a, b: a not in b, ast.Is: operator.is_, ast.IsNot: operator.is_not,
}
_CALLS = {"len": len, "range": range, "abs": abs, "min": min, "max": max, "int": int, "set": set, "tuple": tuple, "list": list, "any": any, "all": all,
          "bool": bool, "frozenset": frozenset, "sorted": sorted, "sum": sum, "bytes": bytes}
_TYPES = {"int": int, "float": float, "str": str, "bool": bool, "tuple": tuple, "list": list, "set": set, "frozenset": frozenset, "dict": dict, "bytes": bytes}
_STRM = ("strip", "lstrip", "rstrip", "lower", "upper", "startswith", "endswith", "find", "count", "replace", "translate", "isalpha", "split", "splitlines", "join", "index", "rfind", "isdigit")
_SETM = ("isdisjoint", "intersection", "issubset", "issuperset", "union", "difference")


def ev(node, env, calls=None):
    calls = calls or {}

    def go(n):
        if isinstance(n, ast.Constant):
            return n.value
        if isinstance(n, ast.Name):
            if n.id in env:
                return env[n.id]
            raise CannotEval(f"name {n.id}")
        if isinstance(n, ast.BoolOp):
            if isinstance(n.op, ast.And):
                r = True
                for v in n.values:
                    r = go(v)
                    if not r:
                        return r
                return r
            r = False
            for v in n.values:
                r = go(v)
                if r:
                    return r
            return r
        if isinstance(n, ast.UnaryOp):
            v = go(n.operand)
            if isinstance(n.op, ast.Not):
                return not v
            if isinstance(n.op, ast.USub):
                return -v
            raise CannotEval("unary")
        if isinstance(n, ast.BinOp) and type(n.op) in _BIN:
            return _BIN[type(n.op)](go(n.left), go(n.right))
        if isinstance(n, ast.Compare):
            left = go(n.left)
            for op, c in zip(n.ops, n.comparators):
                right = go(c)
                if type(op) not in _CMP:
                    raise CannotEval("cmp")
                if not _CMP[type(op)](left, right):
                    return False
                left = right
            return True
        if isinstance(n, (ast.Tuple, ast.List, ast.Set)):
            vals = [go(e) for e in n.elts]
            return tuple(vals) if isinstance(n, ast.Tuple) else vals if isinstance(n, ast.List) else set(vals)
        if isinstance(n, ast.Subscript):
            base = go(n.value)
            if isinstance(n.slice, ast.Slice):
                lo = go(n.slice.lower) if n.slice.lower else None
                hi = go(n.slice.upper) if n.slice.upper else None
                st = go(n.slice.step) if n.slice.step else None
                return base[lo:hi:st]
            return base[go(n.slice)]
        if isinstance(n, ast.IfExp):
            return go(n.body) if go(n.test) else go(n.orelse)
        if isinstance(n, ast.Lambda):
            if n.args.vararg or n.args.kwarg or n.args.kwonlyargs or n.args.defaults:
                raise CannotEval("lambda")
            names = [a.arg for a in n.args.args]
            return lambda *a, _n=n, _names=names: ev(_n.body, {**env, **dict(zip(_names, a))}, calls)
        if isinstance(n, ast.Call):
            key = ast.unparse(n.func)
            if key in calls:
                return calls[key](*[go(a) for a in n.args])
            # a function defined in the folded block itself (run_pure binds nested defs), or a lambda held in a local
            if isinstance(n.func, ast.Name) and callable(env.get(n.func.id)) and not n.keywords:
                return env[n.func.id](*[go(a) for a in n.args])
            if isinstance(n.func, ast.Name) and n.func.id in ("sorted", "filter", "map", "min", "max") and (n.keywords or n.func.id in ("filter", "map")):
                kws = {k.arg: go(k.value) for k in n.keywords}
                if not set(kws) <= {"key", "reverse", "default"} or any(k in kws and not callable(kws[k]) for k in ("key",)):
                    raise CannotEval("keywords")
                args_ = [go(a) for a in n.args]
                if n.func.id in ("filter", "map"):
                    if kws or not args_ or not (callable(args_[0]) or args_[0] is None):
                        raise CannotEval(n.func.id)
                    return list({"filter": filter, "map": map}[n.func.id](*args_))
                return {"sorted": sorted, "min": min, "max": max}[n.func.id](*args_, **kws)
            if key in ("operator.itemgetter", "itemgetter") and n.args and not n.keywords and all(isinstance(a, ast.Constant) for a in n.args):
                return operator.itemgetter(*[a.value for a in n.args])
            if key in ("itertools.accumulate", "accumulate") and len(n.args) == 1 and all(k.arg == "initial" for k in n.keywords):
                import itertools as _it

                return list(_it.accumulate(go(n.args[0]), **{k.arg: go(k.value) for k in n.keywords}))
            if key in ("itertools.chain.from_iterable", "chain.from_iterable") and len(n.args) == 1 and not n.keywords:
                return [y for x in go(n.args[0]) for y in x]
            # a method of a sample object handed in by the rule (see Sample)
            if isinstance(n.func, ast.Attribute) and not n.keywords:
                try:
                    recv_ = go(n.func.value)
                except CannotEval:
                    recv_ = None
                if isinstance(recv_, Sample):
                    return recv_.call(n.func.attr, [go(a) for a in n.args])
                if isinstance(recv_, list) and n.func.attr in ("append", "extend", "insert", "sort", "reverse") and n.func.attr != "sort":
                    return getattr(recv_, n.func.attr)(*[go(a) for a in n.args])
                if isinstance(recv_, set) and n.func.attr in ("add", "discard"):
                    return getattr(recv_, n.func.attr)(*[go(a) for a in n.args])
            if isinstance(n.func, ast.Name) and n.func.id in _CALLS and not n.keywords:
                return _CALLS[n.func.id](*[go(a) for a in n.args])
            text = " ".join(ast.unparse(n).split())
            if text in env:
                return env[text]
            if isinstance(n.func, ast.Attribute) and n.func.attr in _SETM and not n.keywords:
                recv = go(n.func.value)
                if isinstance(recv, (set, frozenset)):
                    return getattr(recv, n.func.attr)(*[go(a) for a in n.args])
            if isinstance(n.func, ast.Attribute) and n.func.attr in _STRM and not n.keywords:
                recv = go(n.func.value)
                if isinstance(recv, str):
                    return getattr(recv, n.func.attr)(*[go(a) for a in n.args])
            if isinstance(n.func, ast.Name) and n.func.id == "isinstance" and len(n.args) == 2 and not n.keywords:
                tys = n.args[1].elts if isinstance(n.args[1], ast.Tuple) else [n.args[1]]
                if all(isinstance(t, ast.Name) and t.id in _TYPES and t.id not in env for t in tys):
                    return isinstance(go(n.args[0]), tuple(_TYPES[t.id] for t in tys))
            if isinstance(n.func, ast.Attribute) and n.func.attr == "bit_length" and not n.keywords and not n.args:
                recv = go(n.func.value)
                if isinstance(recv, int) and not isinstance(recv, bool):
                    return recv.bit_length()
            raise CannotEval(f"call {key}")
        if isinstance(n, (ast.ListComp, ast.GeneratorExp)) and len(n.generators) == 1 and (isinstance(n.generators[0].target, ast.Name) or (
                isinstance(n.generators[0].target, ast.Tuple) and all(isinstance(t_, ast.Name) for t_ in n.generators[0].target.elts))):
            g = n.generators[0]
            out = []
            for x in go(g.iter):
                sub = dict(env)
                if isinstance(g.target, ast.Name):
                    sub[g.target.id] = x
                else:
                    vals_ = list(x)
                    if len(vals_) != len(g.target.elts):
                        raise CannotEval("unpack")
                    for t_, v_ in zip(g.target.elts, vals_):
                        sub[t_.id] = v_
                if all(ev(c, sub, calls) for c in g.ifs):
                    out.append(ev(n.elt, sub, calls))
            return out
        if isinstance(n, ast.Attribute):
            text = ast.unparse(n)
            if text in env:
                return env[text]
            raise CannotEval(f"attribute {text}")
        raise CannotEval(type(n).__name__)

    return go(node)


class _Ret(Exception):
    def __init__(self, v):
        self.v = v


class _Brk(Exception):
    pass


class _Cont(Exception):
    pass


def run_block(stmts, env, calls=None, fuel=2000):
    """Fold a statement list (the body of one interpreter arm, say) over an environment of literal sample values; stores
    into containers that live in the environment (`localScope[ref] = ..`) are performed on them.  -> the environment."""
    fn = ast.FunctionDef(name="_block", args=ast.arguments(posonlyargs=[], args=[], kwonlyargs=[], kw_defaults=[], defaults=[]), body=list(stmts), decorator_list=[])
    out = {}
    ret = run_pure(fn, [], calls, fuel, env, out)
    out["$return"] = ret
    return out


def run_pure(fn: ast.FunctionDef, args, calls=None, fuel=2000, extra=None, env_out=None):
    """Fold a small *pure* helper (local assignments, for/if/return/break/continue over `ev` expressions) on one tuple of
    literal arguments.  Anything else raises CannotEval."""
    env = dict(extra or {})
    # parameters the caller leaves out take their literal defaults
    for a, d in zip(reversed(fn.args.args), reversed(fn.args.defaults)):
        if isinstance(d, ast.Constant):
            env[a.arg] = d.value
    for a, d in zip(fn.args.kwonlyargs, fn.args.kw_defaults):
        if isinstance(d, ast.Constant):
            env[a.arg] = d.value
    env.update({a.arg: v for a, v in zip(fn.args.args, args)})
    if env_out is not None:
        env_out.update(env)
        env = env_out
    left = [fuel]

    def block(stmts):
        for s in stmts:
            left[0] -= 1
            if left[0] < 0:
                raise CannotEval("fuel")
            if isinstance(s, ast.Expr) and isinstance(s.value, ast.Constant):
                continue
            if isinstance(s, ast.Expr) and isinstance(s.value, ast.Call):
                ev(s.value, env, calls)  # for its effect (an error signal from the calls table, a list append)
                continue
            if isinstance(s, (ast.Import, ast.ImportFrom)):
                continue  # names of modules are resolved through the rule's calls table
            if isinstance(s, ast.Assert):
                try:
                    holds = bool(ev(s.test, env, calls))
                except CannotEval:
                    continue  # a test on things the fold does not model (isinstance of a repository class): assumed to hold
                if not holds:
                    raise AssertFails(ast.unparse(s.test))
                continue
            if isinstance(s, ast.FunctionDef) and not s.decorator_list and not s.args.vararg and not s.args.kwarg:
                env[s.name] = (lambda *a, _d=s: run_pure(_d, list(a), calls, max(left[0], 0), env))
                continue
            if isinstance(s, ast.Return):
                raise _Ret(ev(s.value, env, calls) if s.value is not None else None)
            if isinstance(s, ast.Assign) and len(s.targets) == 1 and isinstance(s.targets[0], ast.Name):
                env[s.targets[0].id] = ev(s.value, env, calls)
            elif isinstance(s, ast.Assign) and len(s.targets) == 1 and isinstance(s.targets[0], ast.Attribute) and isinstance(s.targets[0].value, ast.Name):
                # a field of the object being built: kept under its spelling (`self.__lineOffsets`)
                env[ast.unparse(s.targets[0])] = ev(s.value, env, calls)
            elif isinstance(s, ast.Assign) and len(s.targets) == 1 and isinstance(s.targets[0], ast.Subscript) and not isinstance(s.targets[0].slice, ast.Slice):
                base = ev(s.targets[0].value, env, calls)
                if not isinstance(base, (dict, list)):
                    raise CannotEval("store into a non-container")
                base[ev(s.targets[0].slice, env, calls)] = ev(s.value, env, calls)
            elif isinstance(s, ast.AugAssign) and isinstance(s.target, ast.Name) and type(s.op) in _BIN:
                env[s.target.id] = _BIN[type(s.op)](env[s.target.id], ev(s.value, env, calls))
            elif isinstance(s, ast.If):
                block(s.body if ev(s.test, env, calls) else s.orelse)
            elif isinstance(s, ast.For) and isinstance(s.target, ast.Name):
                broke = False
                for x in ev(s.iter, env, calls):
                    env[s.target.id] = x
                    try:
                        block(s.body)
                    except _Brk:
                        broke = True
                        break
                    except _Cont:
                        continue
                if not broke:
                    block(s.orelse)
            elif isinstance(s, ast.Break):
                raise _Brk()
            elif isinstance(s, ast.Continue):
                raise _Cont()
            elif isinstance(s, ast.Pass):
                pass
            else:
                raise CannotEval(type(s).__name__)

    try:
        block(fn.body)
    except _Ret as r:
        return r.v
    return None
