"""E7: the grammar, the lexer tables and the LALR(1) automaton, all derived from
the *source text* of nsl/parser.py and nsl/lexer.py.

PLY is used as a grammar-analysis library on the statically extracted
grammar; nsl.parser is never imported (importing it would run yacc.yacc and
write parsetab.py next to the package).
"""
from __future__ import annotations

import ast
import re
from typing import Dict, List, Optional, Tuple

from .model import AnalysisError, AnchorMissing, Model, dotted, unparse

PARSER = "nsl/parser.py"
LEXER = "nsl/lexer.py"


def _inline_slot_aliases(f: ast.FunctionDef) -> ast.FunctionDef:
    """Copy of a grammar action in which a local bound exactly once to a slot `p[i]` that the action never assigns
    (`statements = p[2]`) is replaced by the slot: both denote the same object wherever the local is read."""
    import copy

    if len(f.args.args) < 2:
        return f
    pn = f.args.args[1].arg

    def slot(e):
        return e.slice.value if isinstance(e, ast.Subscript) and isinstance(e.value, ast.Name) and e.value.id == pn and isinstance(e.slice, ast.Constant) and isinstance(e.slice.value, int) else None

    stores = {}
    assigned_slots = set()
    for n in ast.walk(f):
        if isinstance(n, (ast.Assign, ast.AugAssign, ast.AnnAssign, ast.For, ast.NamedExpr, ast.comprehension, ast.With)):
            tg = n.targets if isinstance(n, ast.Assign) else [i.optional_vars for i in n.items] if isinstance(n, ast.With) else [getattr(n, "target", None)]
            for t in tg:
                if t is None:
                    continue
                if slot(t) is not None:
                    assigned_slots.add(slot(t))
                for x in ast.walk(t):
                    if isinstance(x, ast.Name) and isinstance(x.ctx, ast.Store):
                        stores.setdefault(x.id, []).append(n)
    env = {}
    for name, sites in stores.items():
        s = sites[0]
        if len(sites) == 1 and isinstance(s, ast.Assign) and len(s.targets) == 1 and isinstance(s.targets[0], ast.Name) and slot(s.value) is not None and slot(s.value) not in assigned_slots:
            env[name] = s
    if not env:
        return f
    f2 = copy.deepcopy(f)
    # (positions in the copy: match by name, the binding is unique)
    names = set(env)

    class _S(ast.NodeTransformer):
        def __init__(self):
            self.vals = {}

        def visit_Assign(self, n):
            if len(n.targets) == 1 and isinstance(n.targets[0], ast.Name) and n.targets[0].id in names and slot(n.value) is not None:
                self.vals[n.targets[0].id] = n.value
                return None
            return self.generic_visit(n)

        def visit_Name(self, n):
            if isinstance(n.ctx, ast.Load) and n.id in self.vals:
                return ast.copy_location(copy.deepcopy(self.vals[n.id]), n)
            return n

    f2 = _S().visit(f2)
    for b in ast.walk(f2):
        for fld in ("body", "orelse"):
            if hasattr(b, fld) and isinstance(getattr(b, fld), list) and not getattr(b, fld) and fld == "body":
                setattr(b, fld, [ast.Pass()])
    return ast.fix_missing_locations(f2)


class Production:
    def __init__(self, index, name, syms, func, alt, line):
        self.index = index  # 1-based, PLY numbering (0 is S')
        self.name = name
        self.syms = syms
        self.func = func  # ast.FunctionDef of the action
        self.alt = alt
        self.line = line

    def __repr__(self):
        return f"{self.name} -> {' '.join(self.syms) or '<empty>'}"


class _Log:
    def debug(self, *a, **k):
        pass

    info = warning = error = critical = debug


class Grammar:
    def __init__(self, model: Model, start: Optional[str] = None):
        import ply.yacc as yacc

        self.model = model
        pcls = model.cls(PARSER, "NslParser")
        self.parser_class = pcls
        # --- lexer tables ------------------------------------------------
        self.lexer = LexerModel(model)
        self.tokens: List[str] = self.lexer.tokens
        # --- precedence ---------------------------------------------------
        prec_node = pcls.class_attrs.get("precedence")
        self.precedence: List[Tuple[str, List[str]]] = []
        if prec_node is not None:
            try:
                folded = model.fold(prec_node)
            except AnalysisError as e:
                raise AnalysisError(f"{PARSER}::NslParser.precedence is not a literal table: {e}")
            for row in folded:
                self.precedence.append((row[0], list(row[1:])))
        # --- productions, in PLY's order (source line of the p_ function) --
        funcs = [m for n, m in pcls.methods.items() if n.startswith("p_") and n != "p_error"]
        funcs.sort(key=lambda f: f.lineno)
        if not funcs:
            raise AnchorMissing(f"{PARSER}::NslParser has no p_* grammar actions")
        g = yacc.Grammar(self.tokens)
        for level, (assoc, terms) in enumerate(self.precedence, 1):
            for t in terms:
                g.set_precedence(t, assoc, level)
        self.productions: List[Production] = []
        from .sem import expand_helpers

        for f in funcs:
            doc = ast.get_docstring(f, clean=False)
            if not doc:
                raise AnalysisError(f"{PARSER}::{f.name} has no grammar docstring")
            # an action may delegate to a private helper of the parser (`self.__SetLiteral(p, value, type)`): the rules read the
            # action with such statement-level helpers in place (the location helper is an expression, it stays a call)
            try:
                f = expand_helpers(model, pcls, f, skip=("v_", "p_", "__GetLocation", "_NslParser__GetLocation"))
            except Exception:
                pass
            f = _inline_slot_aliases(f)
            try:
                parsed = yacc.parse_grammar(doc, PARSER, f.lineno)
            except SyntaxError as e:
                raise AnalysisError(f"{PARSER}::{f.name}: {e}")
            for alt, (_file, line, prodname, syms) in enumerate(parsed):
                try:
                    g.add_production(prodname, syms, f.name, PARSER, line)
                except Exception as e:
                    raise AnalysisError(f"{PARSER}::{f.name}: {e}")
                clean = [s for s in syms]
                # strip %prec
                if "%prec" in clean:
                    clean = clean[: clean.index("%prec")]
                self.productions.append(
                    Production(len(self.productions) + 1, prodname, [_lit(s) for s in clean], f, alt, line)
                )
        self.start = start or self._default_start()
        try:
            g.set_start(self.start)
        except Exception as e:
            raise AnalysisError(f"grammar start symbol: {e}")
        self.undefined = g.undefined_symbols()
        if self.undefined:
            raise AnalysisError(f"grammar uses undefined symbols: {[s for s, _ in self.undefined]}")
        g.compute_first()
        g.compute_follow()
        self.g = g

        captured = {}

        class Table(yacc.LRGeneratedTable):
            def lr0_items(self_inner):
                C = super().lr0_items()
                captured["C"] = C
                return C

        self.table = Table(g, "LALR", _Log())
        self.C = captured["C"]
        self.action = self.table.lr_action
        self.goto = self.table.lr_goto
        self.sr_conflicts = list(self.table.sr_conflicts)
        self.rr_conflicts = list(self.table.rr_conflicts)
        self.nonterminals = set(g.Nonterminals)
        self.terminals = set(g.Terminals)
        # production objects of PLY, index-aligned with ours (+1 for S')
        self.ply_productions = g.Productions

    def _default_start(self) -> str:
        # NslParser.__init__(parseEntryPoint=ParseEntryPoint.Module) -> .value
        try:
            vals = self.model.enum_members(PARSER, "ParseEntryPoint")
            init = self.parser_class.own_method("__init__")
            for a, d in zip(reversed(init.args.args), reversed(init.args.defaults)):
                if a.arg == "parseEntryPoint":
                    member = dotted(d).split(".")[-1]
                    return vals[member]
        except Exception:
            pass
        return "module"

    # ------------------------------------------------------------------
    def prods_named(self, name) -> List[Production]:
        return [p for p in self.productions if p.name == name]

    def derives_terminals(self, nt: str) -> Optional[set]:
        """If every production of `nt` is a single terminal, the set of those
        terminals (an 'operator class' non-terminal such as bin_op)."""
        ps = self.prods_named(nt)
        if not ps:
            return None
        out = set()
        for p in ps:
            if len(p.syms) != 1 or p.syms[0] in self.nonterminals:
                return None
            out.add(p.syms[0])
        return out

    def items_of_state(self, st: int):
        """[(production index, dot position)] of LR(0) items of state `st`."""
        out = []
        for it in self.C[st]:
            out.append((it.number, it.lr_index))
        return out


def _lit(s: str) -> str:
    # PLY keeps quoted literals as the bare character
    if len(s) >= 3 and s[0] == s[-1] and s[0] in "'\"":
        return s[1:-1]
    return s


class LexerModel:
    """tokens, literals, token regexes and keywords of NslLexer, folded."""

    def __init__(self, model: Model):
        lcls = model.cls(LEXER, "NslLexer")
        env: Dict[str, object] = {}
        self.rules: Dict[str, str] = {}  # token name -> regex (string rules)
        self.func_rules: List[Tuple[str, str, ast.FunctionDef]] = []
        self.order: List[str] = []
        for st in lcls.node.body:
            if isinstance(st, ast.Assign) and len(st.targets) == 1 and isinstance(st.targets[0], ast.Name):
                name = st.targets[0].id
                try:
                    env[name] = model.fold(st.value, env)
                except AnalysisError:
                    continue
                if name.startswith("t_") and isinstance(env[name], str) and name != "t_ignore":
                    self.rules[name[2:]] = env[name]
            elif isinstance(st, ast.FunctionDef) and st.name.startswith("t_"):
                rx = None
                for d in st.decorator_list:
                    if isinstance(d, ast.Call) and dotted(d.func) in ("TOKEN", "lex.TOKEN") and d.args:
                        try:
                            rx = model.fold(d.args[0], env)
                        except AnalysisError:
                            rx = None
                if rx is None:
                    doc = ast.get_docstring(st, clean=False)
                    rx = doc
                if st.name not in ("t_error",):
                    self.func_rules.append((st.name[2:], rx, st))
        if "tokens" not in env:
            raise AnchorMissing(f"{LEXER}::NslLexer.tokens cannot be folded")
        self.tokens = list(env["tokens"])
        self.literals = list(env.get("literals", []))
        self.ignore = env.get("t_ignore", "")
        self.keywords = env.get("keywords", {})
        self.env = env
        self.cls = lcls

    def token_regex(self, name) -> Optional[str]:
        if name in self.rules:
            return self.rules[name]
        for n, rx, _ in self.func_rules:
            if n == name:
                return rx
        return None

    def first_match(self, text: str):
        """(token name, matched length) PLY's master regex yields at the start of `text`: function rules in definition order,
        then string rules by decreasing regex length; the first alternative that matches wins (not the longest).  Only the
        folded patterns are evaluated (by `re`), nothing of the lexer runs."""
        import re

        ordered = [(n, rx) for n, rx, _ in self.func_rules if rx] + sorted(self.rules.items(), key=lambda kv: -len(kv[1]))
        for n, rx in ordered:
            try:
                m = re.compile(rx, re.VERBOSE).match(text)
            except re.error:
                continue
            if m is not None and m.end() > 0:
                return n, m.end()
        return None, 0

    def spelling(self, name) -> Optional[str]:
        """The single string a fixed-spelling token regex matches, else None."""
        rx = self.token_regex(name)
        if rx is None:
            return None
        import re._parser as sp  # py3.11+

        try:
            p = sp.parse(rx)
        except Exception:
            return None
        s = ""
        for op, arg in p:
            if str(op) == "LITERAL":
                s += chr(arg)
            else:
                return None
        return s


def regex_can_contain(rx: str, ch: str) -> bool:
    """Can a string matched by `rx` contain the character `ch`?  (walk over the
    regex AST; conservative: unknown constructs answer True)"""
    import re._parser as sp
    import re._constants as sc

    try:
        tree = sp.parse(rx)
    except Exception:
        return True
    code = ord(ch)

    def in_set(items):
        neg = False
        hit = False
        for op, arg in items:
            if op is sc.NEGATE:
                neg = True
            elif op is sc.LITERAL:
                hit |= arg == code
            elif op is sc.RANGE:
                hit |= arg[0] <= code <= arg[1]
            elif op is sc.CATEGORY:
                import re as _re

                cat = {
                    sc.CATEGORY_SPACE: r"\s", sc.CATEGORY_NOT_SPACE: r"\S",
                    sc.CATEGORY_DIGIT: r"\d", sc.CATEGORY_NOT_DIGIT: r"\D",
                    sc.CATEGORY_WORD: r"\w", sc.CATEGORY_NOT_WORD: r"\W",
                }.get(arg)
                hit |= bool(cat and _re.fullmatch(cat, ch))
            else:
                hit = True
        return hit != neg

    def walk(seq):
        for op, arg in seq:
            if op is sc.LITERAL:
                if arg == code:
                    return True
            elif op is sc.NOT_LITERAL:
                if arg != code:
                    return True
            elif op is sc.ANY:
                if ch != "\n":
                    return True
            elif op is sc.IN:
                if in_set(arg):
                    return True
            elif op is sc.BRANCH:
                if any(walk(b) for b in arg[1]):
                    return True
            elif op is sc.SUBPATTERN:
                if walk(arg[3]):
                    return True
            elif op in (sc.MAX_REPEAT, sc.MIN_REPEAT):
                if walk(arg[2]):
                    return True
            elif op is sc.AT:
                pass
            else:
                return True
        return False

    return walk(tree)
