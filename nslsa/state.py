"""Surviving-state and freshness analyses shared by C15, C17, C18:
mutable module/class-level objects, mutable default arguments, set-typed
expressions and order-sensitive iteration."""
from __future__ import annotations

import ast
from typing import Dict, List, Optional, Set, Tuple

from .effects import MUTATORS, direct_mutations
from .model import ClassInfo, Model, dotted, last_attr, mangle, unparse, walk_no_nested

MUTABLE_CTORS = {"list", "dict", "set", "OrderedDict", "defaultdict", "StringIO", "BytesIO", "collections.OrderedDict", "collections.defaultdict", "io.StringIO", "io.BytesIO", "bytearray", "deque", "ChainMap",
                 # stateful iterators / generators: every next() changes them
                 "count", "itertools.count", "cycle", "itertools.cycle", "iter", "Random", "random.Random", "Counter", "collections.Counter", "collections.deque"}


def is_mutable_literal(e) -> bool:
    if isinstance(e, (ast.List, ast.Dict, ast.Set, ast.ListComp, ast.DictComp, ast.SetComp, ast.GeneratorExp)):
        return True
    if isinstance(e, ast.Call):
        d = dotted(e.func) or ""
        if d in MUTABLE_CTORS or d.split(".")[-1] in MUTABLE_CTORS:
            return True
    return False


def root_name(node) -> Optional[str]:
    while isinstance(node, (ast.Subscript, ast.Attribute)):
        node = node.value
    if isinstance(node, ast.Call):
        return None
    return node.id if isinstance(node, ast.Name) else None


def mutations_in(node) -> List[Tuple[ast.AST, ast.AST]]:
    """[(receiver expression, statement/call)] of in-place mutations inside node."""
    out = []
    for n in ast.walk(node):
        if isinstance(n, ast.Call) and isinstance(n.func, ast.Attribute) and n.func.attr in MUTATORS | {"write", "writelines", "truncate", "seek"}:
            out.append((n.func.value, n))
        elif isinstance(n, ast.Call) and isinstance(n.func, ast.Name) and n.func.id == "next" and n.args:
            out.append((n.args[0], n))
        elif isinstance(n, (ast.Assign, ast.AugAssign, ast.Delete)):
            tgts = n.targets if isinstance(n, (ast.Assign, ast.Delete)) else [n.target]
            for t in tgts:
                if isinstance(t, ast.Subscript):
                    out.append((t.value, n))
    return out


def module_level_mutables(model: Model, rels=None):
    """[(rel, name, value node, where: 'module'|'class C')] mutable objects bound at import time."""
    out = []
    for rel, fi in model.files.items():
        if rels is not None and rel not in rels:
            continue
        for st in fi.tree.body:
            if isinstance(st, ast.Assign) and isinstance(st.targets[0], ast.Name) and is_mutable_literal(st.value):
                out.append((rel, st.targets[0].id, st.value, "module"))
            elif isinstance(st, ast.AnnAssign) and isinstance(st.target, ast.Name) and st.value is not None and is_mutable_literal(st.value):
                out.append((rel, st.target.id, st.value, "module"))
        for (mod, q), ci in model.classes.items():
            if ci.file != rel:
                continue
            bases = " ".join(ci.base_names)
            if "Enum" in bases or "IntFlag" in bases:
                continue
            for name, v in ci.class_attrs.items():
                if is_mutable_literal(v):
                    out.append((rel, f"{q}.{name}", v, f"class {q}"))
    return out


def writes_to_global(model: Model, rel: str, name: str):
    """Mutations (in functions/methods, i.e. after import) of module-level
    `name` of file rel, anywhere in the repository."""
    out = []
    simple = name.split(".")[-1]
    for r2, fi in model.files.items():
        for fn in ast.walk(fi.tree):
            if not isinstance(fn, (ast.FunctionDef, ast.Lambda)):
                continue
            locals_ = {a.arg for a in fn.args.args} if isinstance(fn, ast.FunctionDef) else set()
            if isinstance(fn, ast.FunctionDef):
                for n in walk_no_nested(fn):
                    if isinstance(n, ast.Name) and isinstance(n.ctx, ast.Store):
                        locals_.add(n.id)
                gl = {g for n in ast.walk(fn) if isinstance(n, ast.Global) for g in n.names}
                locals_ -= gl
            for recv, node in mutations_in(fn):
                rn = root_name(recv)
                d = dotted(recv) if isinstance(recv, (ast.Attribute, ast.Name)) else None
                if r2 == rel and "." not in name and rn == simple and simple not in locals_:
                    out.append((r2, fn, node))
                elif d and d.endswith("." + simple) and (d.split(".")[0] in fi.aliases or d.startswith("self.") and "." in name or d.startswith("cls.")):
                    if "." in name or model.resolve_module(fi, d.split(".")[0]) is model.files[rel]:
                        out.append((r2, fn, node))
            if isinstance(fn, ast.FunctionDef):
                for n in ast.walk(fn):
                    if isinstance(n, ast.Global) and simple in n.names and r2 == rel:
                        out.append((r2, fn, n))
    return out


def mutable_defaults(model: Model):
    """[(rel, qualified function, param, default node, FunctionDef, ClassInfo|None)]"""
    out = []
    for rel, fi in model.files.items():
        owners = {}
        for ci in model.classes.values():
            if ci.file == rel:
                for m in ci.methods.values():
                    owners[m] = ci
        for fn in ast.walk(fi.tree):
            if not isinstance(fn, ast.FunctionDef):
                continue
            pos = list(zip(reversed(fn.args.args), reversed(fn.args.defaults)))
            kw = [(a, d) for a, d in zip(fn.args.kwonlyargs, fn.args.kw_defaults) if d is not None]
            for a, d in pos + kw:
                mutable = is_mutable_literal(d)
                ctor = isinstance(d, ast.Call) and not mutable
                if mutable or ctor:
                    ci = owners.get(fn)
                    out.append((rel, (ci.qualname + "." if ci else "") + fn.name, a.arg, d, fn, ci, "container" if mutable else "object"))
    return out


def set_typed_sources(model: Model):
    """Names of attributes / methods / properties whose value is a set:
    {('attr', mangled)} ∪ {('method', name)}"""
    attrs = set()
    for ci in model.classes.values():
        for m in ci.methods.values():
            if not m.args.args:
                continue
            s = m.args.args[0].arg
            for n in ast.walk(m):
                if isinstance(n, ast.Assign) and isinstance(n.targets[0], ast.Attribute) and isinstance(n.targets[0].value, ast.Name) and n.targets[0].value.id == s:
                    if is_set_expr(n.value, set(), set()):
                        attrs.add((ci.name, n.targets[0].attr))
    methods = set()
    changed = True
    while changed:
        changed = False
        for ci in model.classes.values():
            for name, m in ci.methods.items():
                if (ci.name, name) in methods:
                    continue
                rets = [r.value for r in walk_no_nested(m) if isinstance(r, ast.Return) and r.value is not None]
                if rets and all(is_set_expr(r, {a for c, a in attrs if c == ci.name}, {n for c, n in methods}) for r in rets):
                    methods.add((ci.name, name))
                    changed = True
    return attrs, methods


def is_set_expr(e, set_attrs: Set[str], set_methods: Set[str]) -> bool:
    if isinstance(e, (ast.Set, ast.SetComp)):
        return True
    if isinstance(e, ast.Call):
        d = dotted(e.func) or ""
        if d in ("set", "frozenset"):
            return True
        la = last_attr(e)
        if la in set_methods and isinstance(e.func, ast.Attribute):
            return True
        if la in ("union", "intersection", "difference", "copy") and isinstance(e.func, ast.Attribute) and is_set_expr(e.func.value, set_attrs, set_methods):
            return True
    if isinstance(e, ast.Attribute):
        if e.attr in set_attrs and isinstance(e.value, ast.Name) and e.value.id == "self":
            return True
        if e.attr in set_methods:  # property
            return True
    if isinstance(e, ast.BinOp) and isinstance(e.op, (ast.Sub, ast.BitOr, ast.BitAnd)) and (is_set_expr(e.left, set_attrs, set_methods) or is_set_expr(e.right, set_attrs, set_methods)):
        return True
    return False


ORDER_FREE_CONSUMERS = {"sorted", "set", "frozenset", "any", "all", "sum", "len", "min", "max"}
