"""Model of the LinearIR instruction classes: operand fields, what `Uses`
yields and what `ReplaceUses` rewires (the 'operand protocol')."""
from __future__ import annotations

import ast
from typing import Dict, List, Optional, Set, Tuple

from .dispatch import Dispatch
from .model import ClassInfo, Model, dotted, last_attr, mangle, unparse

IR = "nsl/LinearIR.py"
VALUE_ANN = ("Value", "BasicBlock")


class OperandField:
    def __init__(self, name, owner, kind, optional, source):
        self.name = name          # attribute as written (e.g. '__store')
        self.owner = owner        # ClassInfo that stores it
        self.kind = kind          # 'value' | 'list'
        self.optional = optional
        self.source = source      # 'ctor:<param>' | 'setter:<method>'

    @property
    def mangled(self):
        return mangle(self.owner.name, self.name)

    def __repr__(self):
        return f"{self.owner.name}.{self.name}{'?' if self.optional else ''}{'[]' if self.kind == 'list' else ''}"


def _ann_kind(ann) -> Optional[Tuple[str, bool]]:
    if ann is None:
        return None
    t = unparse(ann)
    if not any(v in t for v in VALUE_ANN):
        return None
    if "List[" in t or "list[" in t:
        return ("list", False)
    return ("value", "Optional" in t or "None" in t)


def operand_fields(model: Model, cls: ClassInfo) -> List[OperandField]:
    out: Dict[str, OperandField] = {}
    for c in reversed(cls.mro):
        if c.file != IR:
            continue
        init = c.methods.get("__init__")
        if init is not None:
            ann = {a.arg: a.annotation for a in init.args.args[1:]}
            defaults = dict(zip([a.arg for a in reversed(init.args.args)], reversed(init.args.defaults)))
            for n in ast.walk(init):
                tgt = val = None
                if isinstance(n, ast.Assign) and len(n.targets) == 1:
                    tgt, val = n.targets[0], n.value
                elif isinstance(n, ast.AnnAssign):
                    tgt, val = n.target, n.value
                if not (isinstance(tgt, ast.Attribute) and isinstance(tgt.value, ast.Name) and tgt.value.id == "self") or val is None:
                    continue
                params = []
                if isinstance(val, ast.Name) and val.id in ann:
                    params = [val.id]
                    k = _ann_kind(ann[val.id])
                    if k is None:
                        continue
                    kind, opt = k
                    d = defaults.get(val.id)
                    if isinstance(d, ast.Constant) and d.value is None:
                        opt = True
                    out[mangle(c.name, tgt.attr)] = OperandField(tgt.attr, c, kind, opt, f"ctor:{val.id}")
                elif isinstance(val, ast.List) and val.elts and all(isinstance(e, ast.Name) and e.id in ann and _ann_kind(ann[e.id]) for e in val.elts):
                    out[mangle(c.name, tgt.attr)] = OperandField(tgt.attr, c, "list", False, "ctor:" + ",".join(e.id for e in val.elts))
        # setters: SetStore / SetTrueBlock / SetFalseBlock
        for mname, m in c.methods.items():
            if not mname.startswith("Set") or mname in ("SetParent", "SetReference") or len(m.args.args) != 2:
                continue
            p = m.args.args[1]
            k = _ann_kind(p.annotation)
            if k is None:
                continue
            for n in ast.walk(m):
                if isinstance(n, ast.Assign) and isinstance(n.targets[0], ast.Attribute) and isinstance(n.value, ast.Name) and n.value.id == p.arg:
                    key = mangle(c.name, n.targets[0].attr)
                    if key not in out:
                        out[key] = OperandField(n.targets[0].attr, c, "value", True, f"setter:{mname}")
                    else:
                        out[key].source += f",setter:{mname}"
    return list(out.values())


def uses_of(model: Model, cls: ClassInfo):
    """-> (owner, {mangled field: (yields_reference: bool, guarded: bool)}, raw)"""
    r = cls.find_method("Uses")
    if r is None:
        return None, {}, None
    owner, f = r
    out = {}

    def record(expr, guarded):
        # self.__f.Reference  /  self.__f
        if isinstance(expr, ast.Attribute) and expr.attr == "Reference" and isinstance(expr.value, ast.Attribute) and isinstance(expr.value.value, ast.Name):
            out[mangle(owner.name, expr.value.attr)] = (True, guarded)
        elif isinstance(expr, ast.Attribute) and isinstance(expr.value, ast.Name) and expr.value.id == "self":
            out[mangle(owner.name, expr.attr)] = (False, guarded)

    def go(body, guarded_fields):
        for st in body:
            if isinstance(st, ast.If):
                g = {mangle(owner.name, n.attr) for n in ast.walk(st.test) if isinstance(n, ast.Attribute) and isinstance(n.value, ast.Name) and n.value.id == "self"}
                go(st.body, guarded_fields | g)
                go(st.orelse, guarded_fields)
                continue
            for n in ast.walk(st):
                if isinstance(n, (ast.Yield,)) and n.value is not None:
                    e = n.value
                    fld = e.value if isinstance(e, ast.Attribute) and e.attr == "Reference" else e
                    key = mangle(owner.name, fld.attr) if isinstance(fld, ast.Attribute) else None
                    record(e, key in guarded_fields)
                elif isinstance(n, ast.Return) and isinstance(n.value, (ast.List, ast.Tuple)):
                    # return [self.__a.Reference, self.__b.Reference]
                    for e in n.value.elts:
                        fld = e.value if isinstance(e, ast.Attribute) and e.attr == "Reference" else e
                        key = mangle(owner.name, fld.attr) if isinstance(fld, ast.Attribute) else None
                        record(e, key in guarded_fields)
                elif isinstance(n, ast.Return) and isinstance(n.value, ast.ListComp):
                    lc = n.value
                    it = lc.generators[0].iter
                    if isinstance(it, ast.Attribute) and isinstance(it.value, ast.Name) and it.value.id == "self":
                        yields_ref = isinstance(lc.elt, ast.Attribute) and lc.elt.attr == "Reference"
                        out[mangle(owner.name, it.attr)] = (yields_ref, False)
                elif isinstance(n, ast.For) and isinstance(n.iter, ast.Attribute) and isinstance(n.iter.value, ast.Name) and n.iter.value.id == "self" and isinstance(n.target, ast.Name):
                    # the comprehension written as a loop: acc = []; for a in self.__f: acc.append(a.Reference); return acc
                    accs = {c.func.value.id: c.args[0] for s_ in n.body for c in ast.walk(s_) if isinstance(c, ast.Call) and isinstance(c.func, ast.Attribute) and c.func.attr == "append"
                            and isinstance(c.func.value, ast.Name) and len(c.args) == 1}
                    unfiltered = not any(isinstance(x, (ast.If, ast.Continue, ast.Break)) for s_ in n.body for x in ast.walk(s_))
                    for acc, elt in accs.items():
                        returned = any(isinstance(r_, ast.Return) and isinstance(r_.value, ast.Name) and r_.value.id == acc for r_ in ast.walk(f))
                        if returned and unfiltered:
                            yields_ref = isinstance(elt, ast.Attribute) and elt.attr == "Reference" and isinstance(elt.value, ast.Name) and elt.value.id == n.target.id
                            out[mangle(owner.name, n.iter.attr)] = (yields_ref, False)

    go(f.body, set())
    return owner, out, f


def replace_uses_of(model: Model, cls: ClassInfo):
    """-> (owner, {mangled field: {'cmp': text of compared expr, 'cmp_to': name, 'assigned': text, 'guarded': bool}}, func)"""
    r = cls.find_method("ReplaceUses")
    if r is None:
        return None, {}, None
    owner, f = r
    params = [a.arg for a in f.args.args]
    out = {}
    in_orelse = set()
    for n in ast.walk(f):
        if isinstance(n, ast.If):
            for s in n.orelse:
                for x in ast.walk(s):
                    if isinstance(x, ast.If):
                        in_orelse.add(id(x))
    for n in ast.walk(f):
        if isinstance(n, ast.If):
            for st in n.body:
                if isinstance(st, ast.Assign) and isinstance(st.targets[0], ast.Attribute) and isinstance(st.targets[0].value, ast.Name) and st.targets[0].value.id == "self":
                    fld = st.targets[0].attr
                    info = {"assigned": unparse(st.value), "cmp": None, "cmp_to": None, "guarded": False, "node": n, "chained": id(n) in in_orelse}
                    from .sem import local_env as _le_ru, resolve as _rs_ru

                    rtest = _rs_ru(n.test, _le_ru(f, allow_impure=True))  # a comparison held in a local is read in place
                    for c in ast.walk(rtest):
                        if isinstance(c, ast.Compare) and len(c.ops) == 1 and isinstance(c.ops[0], ast.Eq):
                            info["cmp"] = unparse(c.left)
                            info["cmp_to"] = unparse(c.comparators[0])
                    if isinstance(n.test, ast.BoolOp):
                        first = n.test.values[0]
                        info["guarded"] = isinstance(first, ast.Attribute) and first.attr == fld
                    if not info["guarded"]:
                        # nested form: `if self.<f>:` around the comparison
                        for outer in ast.walk(f):
                            if isinstance(outer, ast.If) and outer is not n and any(x is n for s_ in outer.body for x in ast.walk(s_)):
                                tt = outer.test
                                tt = tt.left if isinstance(tt, ast.Compare) and isinstance(tt.ops[0], ast.IsNot) else tt
                                if isinstance(tt, ast.Attribute) and tt.attr == fld:
                                    info["guarded"] = True
                    if not info["guarded"]:
                        # guard clause form: an earlier top-level `if not self.<f>: return` / `if self.<f> is None: return`
                        for g in f.body:
                            if g is n:
                                break
                            if isinstance(g, ast.If) and not g.orelse and g.body and isinstance(g.body[-1], ast.Return):
                                t = g.test
                                neg = t.operand if isinstance(t, ast.UnaryOp) and isinstance(t.op, ast.Not) else (t.left if isinstance(t, ast.Compare) and isinstance(t.ops[0], ast.Is) else None)
                                if isinstance(neg, ast.Attribute) and neg.attr == fld:
                                    info["guarded"] = True
                    out[mangle(owner.name, fld)] = info
        if isinstance(n, ast.Call) and last_attr(n) == "_ReplaceUsesInList" and n.args:
            a0 = n.args[0]
            if isinstance(a0, ast.Attribute):
                out[mangle(owner.name, a0.attr)] = {"assigned": unparse(n.args[2]) if len(n.args) > 2 else None, "cmp": "list", "cmp_to": unparse(n.args[1]) if len(n.args) > 1 else None,
                                                    "guarded": False, "node": n, "list": True}
    return owner, out, f
