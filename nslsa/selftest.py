"""Thorough tier: test the checker both ways on scratch variants of the current
/repo working tree.

* seeded variants (/verif/seeded/<id>/patch.diff with meta.kind == 'mutation'):
  property-breaking edits that still pass the test-suite; the property's rules
  must fire on each.
* twins (meta.kind == 'twin'): behaviour-preserving edits; the rules must stay
  silent.

Variants are applied to a copy of the *current* tree under mktemp (outside
/repo and /verif) and removed afterwards.  A patch that no longer applies to
the current tree is skipped and listed.  The registered commands never run
the test-suite."""
from __future__ import annotations

import json
import os
import shutil
import subprocess
import tempfile
from concurrent.futures import ProcessPoolExecutor

from . import report

SEEDED = os.path.join(report.VERIF, "seeded")


def _copy_tree(root, dst):
    for top in ("nsl", "nslc.py", "nslr.py"):
        s = os.path.join(root, top)
        if os.path.isdir(s):
            shutil.copytree(s, os.path.join(dst, top), ignore=shutil.ignore_patterns("__pycache__", "parsetab.py", "parser.out"))
        elif os.path.exists(s):
            shutil.copy2(s, os.path.join(dst, top))


def _run_variant(args):
    prop, root, vid, patch, kind = args
    import gc

    gc.disable()  # the worker is short-lived; collections over tens of thousands of AST nodes per variant dominate otherwise
    from .driver import run_rules
    from .model import AnalysisError

    d = tempfile.mkdtemp(prefix="nslsa-var-")
    try:
        _copy_tree(root, d)
        # outside a repository `git apply` acts as a plain patch tool (keeps CRLF intact)
        r = subprocess.run(["git", "apply", "--whitespace=nowarn", patch], cwd=d, capture_output=True, text=True)
        if r.returncode != 0:
            r = subprocess.run(["patch", "-p1", "-s", "-f", "-d", d, "-i", patch], capture_output=True, text=True)
            if r.returncode != 0:
                return (vid, kind, "skipped", "patch does not apply to the current tree")
        try:
            col, _ = run_rules(prop, d, "quick")
        except AnalysisError as e:
            return (vid, kind, "analysis-error", str(e)[:200])
        except Exception as e:  # an internal error of the checker on this variant is reported like the driver reports it
            return (vid, kind, "analysis-error", f"internal error: {type(e).__name__}: {e}"[:200])
        known = report.load_known()
        viol = [o for o in col.violations if not report.match_known(known, prop, o)]
        if viol:
            return (vid, kind, "fired", f"{len(viol)}: " + "; ".join(sorted({o.rule for o in viol})) + " | " + viol[0].construct[:120])
        return (vid, kind, "silent", "")
    finally:
        shutil.rmtree(d, ignore_errors=True)


def variants_for(prop):
    out = []
    if not os.path.isdir(SEEDED):
        return out
    for vid in sorted(os.listdir(SEEDED)):
        mp = os.path.join(SEEDED, vid, "meta.json")
        pp = os.path.join(SEEDED, vid, "patch.diff")
        if not (os.path.exists(mp) and os.path.exists(pp)):
            continue
        with open(mp) as f:
            meta = json.load(f)
        kind = meta.get("kind", "mutation")
        if kind == "mutation":
            if prop == meta.get("property") and meta.get("expected_detected", True):
                out.append((vid, pp, "mutation"))
            elif prop in meta.get("also_detected_by", []):
                out.append((vid, pp, "mutation"))
        elif kind == "twin" and (prop in meta.get("silent_for", []) or meta.get("silent_for") == "all"):
            out.append((vid, pp, "twin"))
    return out


def run(prop, root, seed=0):
    vs = variants_for(prop)
    jobs = [(prop, root, vid, patch, kind) for vid, patch, kind in vs]
    results = []
    if jobs:
        with ProcessPoolExecutor(max_workers=min(16, len(jobs))) as ex:
            results = list(ex.map(_run_variant, jobs))
    errors = []
    summ = {"variants": 0, "fired": 0, "twins": 0, "silent": 0, "skipped": 0}
    for vid, kind, outcome, detail in results:
        if outcome == "skipped":
            summ["skipped"] += 1
            continue
        if kind == "mutation":
            summ["variants"] += 1
            if outcome == "fired":
                summ["fired"] += 1
            else:
                errors.append(f"seeded variant {vid} did not fire ({outcome} {detail})")
        else:
            summ["twins"] += 1
            if outcome == "silent":
                summ["silent"] += 1
            else:
                errors.append(f"behaviour-preserving twin {vid} was not silent ({outcome} {detail})")
    return {"summary": summ, "errors": errors,
            "variants": [{"id": v, "kind": k, "outcome": o, "detail": d} for v, k, o, d in results]}
