"""C18 Compilation is deterministic and independent of earlier compilations."""
from __future__ import annotations

import ast

from ..effects import direct_mutations
from ..model import AnalysisError, AnchorMissing, dotted, find_assign, last_attr, mangle, unparse, walk_no_nested
from ..pipeline import Pipeline, COMPILER
from ..state import (ORDER_FREE_CONSUMERS, is_mutable_literal, is_set_expr, module_level_mutables, mutable_defaults, mutations_in, root_name,
                     set_typed_sources, writes_to_global)

TITLE = "determinism: hash order never reaches the output, nothing survives a compilation"
LEVEL = "other"
EXPLANATION = (
    "Seeds and histories are run-time, but every way they can leak into the output is a data-flow fact. R18.1 every iteration "
    "(for-loop or comprehension) over a set-typed expression (set displays/constructors, fields initialised with them, methods "
    "and properties returning them, set algebra) must be order-insensitive: feeding sorted()/set()/any()/all()/len()/sum(), "
    "producing a set, or a loop body that only adds to sets, tests membership or writes per-key entries keyed by the loop "
    "variable; anything else orders instructions, fields, registrations or bytes by the hash seed. id()/hash() must not be "
    "used. Exceptions are one symbol wide with a reason. R18.2 nothing survives a compilation: every GetPass builds its visitor "
    "(and context) inside the call, the compiler builds its pass lists per instance; no mutable object bound at module or class "
    "level is mutated after import; a mutable default argument is never mutated, and when it is stored in a field, that field "
    "is not mutated in place in any class that can have received the default. R18.3 the listing is a function of the module's "
    "fields (= R17.3). R18.1 also: a set handed to a repository callee that puts its parameter in order; R18.2 also: a shared "
    "default that escapes through an accessor and is mutated by the caller, a default argument that reads process state at "
    "import time (cwd, clock, environment), interpreter-wide settings changed by the front ends."
)
NOT_DECIDED = "actual byte equality across real processes; the on-disk parser-table cache (PLY's behaviour, not NSL source)"
ASSUMPTIONS = ["dict and list iteration order is insertion order (CPython >= 3.7)"]

# (file, function qualname, iterated expression) -> reason.  One symbol wide.
SET_ITERATION_EXCEPTIONS = {
    ("nsl/passes/ComputeTypes.py", "ComputeTypeVisitor.v_Module", "module.GetImports()"):
        "registration order of imported functions only orders overload candidates of equal score, which FindFunction turns into an ambiguity error either way; "
        "types are registered by unique name",
}
DEFAULT_EXCEPTIONS = {
    ("nsl/Pass.py", "Pass.Process", "output"): "base-class stub: the parameter is unused",
    ("nsl/Pass.py", "MakePassFromVisitor.VisitorPass.Process", "output"): "the shared default StringIO is a write-only sink (debug text of a pass called without output=); nothing reads it back, so it cannot reach the IR listing or the wasm bytes",
    ("nsl/Pass.py", "Process", "output"): "the shared default StringIO is a write-only sink (debug text of a pass called without output=); nothing reads it back, so it cannot reach the IR listing or the wasm bytes",
}


PROCESS_SETTERS = {"sys.setrecursionlimit", "sys.setswitchinterval", "sys.settrace", "sys.setprofile", "random.seed", "locale.setlocale", "os.chdir", "os.putenv", "os.umask",
                   "warnings.simplefilter", "warnings.filterwarnings", "gc.disable", "gc.enable", "gc.set_threshold"}


def process_setters(tree):
    """calls / stores inside functions that change a setting of the whole interpreter"""
    out = []
    for f in ast.walk(tree):
        if not isinstance(f, ast.FunctionDef):
            continue
        for n in ast.walk(f):
            if isinstance(n, ast.Call) and (dotted(n.func) or "") in PROCESS_SETTERS:
                out.append(n)
            elif isinstance(n, ast.Call) and isinstance(n.func, ast.Attribute) and (dotted(n.func.value) or "") in ("sys.path", "os.environ") and n.func.attr in ("append", "insert", "extend", "update", "setdefault", "pop", "remove"):
                out.append(n)
            elif isinstance(n, (ast.Assign, ast.AugAssign, ast.Delete)):
                for t in (n.targets if isinstance(n, (ast.Assign, ast.Delete)) else [n.target]):
                    b = t.value if isinstance(t, ast.Subscript) else t
                    if (dotted(b) or "") in ("os.environ", "sys.path", "sys.stdout", "sys.stderr", "sys.argv"):
                        out.append(n)
    return list({id(x): x for x in out}.values())


def enclosing_functions(tree):
    """{node id: qualified function name} for every node."""
    out = {}

    def go(node, q):
        for ch in ast.iter_child_nodes(node):
            nq = q
            if isinstance(ch, (ast.FunctionDef, ast.ClassDef)):
                nq = (q + "." if q else "") + ch.name
            out[id(ch)] = nq
            go(ch, nq)

    go(tree, "")
    return out


def order_insensitive_body(loop: ast.For) -> (bool, str):
    var = {n.id for n in ast.walk(loop.target) if isinstance(n, ast.Name)}
    for st in loop.body:
        for n in ast.walk(st):
            if isinstance(n, ast.Call) and isinstance(n.func, ast.Attribute):
                la = n.func.attr
                if la in ("add", "discard", "update", "AddImport"):
                    continue
                if la == "append":
                    # per-key append: self.x[loopvar].append(...)
                    recv = n.func.value
                    if isinstance(recv, ast.Subscript) and {x.id for x in ast.walk(recv.slice) if isinstance(x, ast.Name)} & var:
                        continue
                    return False, f"`{unparse(n)[:50]}` appends in iteration order"
                if la in ("Print", "write", "AddInstruction", "AddFunction", "AddExport", "AddCode", "AddLocal", "insert", "extend", "RegisterFunction", "RegisterType", "RegisterVariable",
                          "CreateFunction", "CreateGlobalVariable", "AddModule", "Load", "RegisterValue", "CreateConstant", "v_Visit", "v_Generic"):
                    return False, f"`{unparse(n)[:50]}` has an order-dependent effect"
                # any other method call is an effect unless it reads only (the list above names the known ones; a private
                # helper such as `self.__Print(..)` must not slip through because it is not listed)
                if not (la.startswith(("Get", "Is", "Has", "With")) or la in ("keys", "values", "items", "get", "format", "join", "startswith", "endswith", "split", "strip", "lower", "upper",
                                                                                "count", "index", "copy", "isdisjoint", "issubset", "union", "intersection", "difference")):
                    return False, f"`{unparse(n)[:50]}` may have an order-dependent effect (not a known read-only call)"
            if isinstance(n, ast.Call) and isinstance(n.func, ast.Name) and n.func.id == "print":
                return False, "prints in iteration order"
            if isinstance(n, ast.Call) and isinstance(n.func, ast.Name) and n.func.id not in (
                    "len", "str", "repr", "int", "float", "bool", "isinstance", "issubclass", "hasattr", "getattr", "type", "min", "max", "abs", "sum", "any", "all", "sorted", "tuple", "frozenset",
                    "set", "list", "dict", "range", "enumerate", "zip", "id", "hash", "format", "round"):
                # a call of a local / module function (e.g. a recursive placement helper) can do anything in that order
                return False, f"`{unparse(n)[:50]}` calls a function whose effects happen in iteration order"
            if isinstance(n, ast.Assign):
                for t in n.targets:
                    if isinstance(t, ast.Subscript):
                        if not ({x.id for x in ast.walk(t.slice) if isinstance(x, ast.Name)} & var):
                            return False, f"`{unparse(n)[:50]}` overwrites one slot in iteration order"
            if isinstance(n, (ast.Return, ast.Break)):
                if isinstance(n, ast.Return) and isinstance(n.value, ast.Constant):
                    continue  # return True/False on membership: order-free
                return False, "leaves the loop at the first element in hash order"
            if isinstance(n, ast.Yield):
                return False, "yields in iteration order"
    return True, ""


def run(model, col, tier):
    pipe = Pipeline(model)
    set_attrs, set_methods = set_typed_sources(model)
    col.note("set-typed fields", sorted(f"{c}.{a}" for c, a in set_attrs))
    col.note("set-returning methods/properties", sorted(f"{c}.{n}" for c, n in set_methods))
    col.floor("R18.1", "set-typed fields", len(set_attrs), 4)
    attr_names = {a for _, a in set_attrs}
    meth_names = {n for _, n in set_methods}
    # ---------------- R18.1 ------------------------------------------------------
    nit = 0
    for rel, fi in sorted(model.files.items()):
        if not rel.startswith("nsl/"):
            continue
        enc = enclosing_functions(fi.tree)
        parents = {}
        for n in ast.walk(fi.tree):
            for ch in ast.iter_child_nodes(n):
                parents[id(ch)] = n

        def is_set(e, fn_node=None):
            if is_set_expr(e, attr_names, meth_names):
                return True
            if isinstance(e, ast.Call) and isinstance(e.func, ast.Attribute) and e.func.attr in meth_names and not e.args:
                return True
            if isinstance(e, ast.Attribute) and e.attr in meth_names:
                return True
            if isinstance(e, ast.Name) and fn_node is not None:
                vals = find_assign(fn_node, e.id)
                return bool(vals) and all(is_set(v) for v in vals)
            return False

        for fn in [n for n in ast.walk(fi.tree) if isinstance(n, ast.FunctionDef)]:
            q = enc.get(id(fn), fn.name)
            for n in walk_no_nested(fn):
                iters = []
                if isinstance(n, ast.For):
                    iters.append((n.iter, n))
                elif isinstance(n, (ast.ListComp, ast.GeneratorExp, ast.DictComp, ast.SetComp)):
                    for g in n.generators:
                        iters.append((g.iter, n))
                for it, node in iters:
                    if not is_set(it, fn):
                        continue
                    nit += 1
                    key = f"{rel}::{q} iterates {unparse(it)[:50]}"
                    # (an exception names the class and the set that is walked; which method of the class holds the loop is free)
                    exc = next((v_ for (r_, q_, it_), v_ in SET_ITERATION_EXCEPTIONS.items() if r_ == rel and it_ == unparse(it) and q.split(".")[0] == q_.split(".")[0]), None)
                    if exc:
                        col.ok("R18.1", key + " (exception)", "triaged: " + exc)
                        # the triage rests on a premise: candidates of equal score are *always* reported as ambiguous, so
                        # their registration order never decides a call (= R10.2)
                        if "ambiguity" in exc and not getattr(col, "_tie_premise_done", False):
                            col._tie_premise_done = True
                            from ..report import Collector as _C181
                            from . import c10 as _c10_181

                            sub181 = _C181("C10")
                            _c10_181.run(model, sub181, "quick")
                            for ob in sub181.obligations:
                                if ob.rule == "R10.2" and "FindFunction" in ob.construct and ("tie" in ob.construct or "every path" in ob.construct):
                                    ob.detail = "[R10.2, premise of the import-order exception] " + (ob.detail or "")
                                    ob.rule = "R18.1"
                                    col.obligations.append(ob)
                        continue
                    if isinstance(node, ast.SetComp):
                        col.ok("R18.1", key, "produces a set")
                        continue
                    if isinstance(node, (ast.ListComp, ast.GeneratorExp, ast.DictComp)):
                        p = parents.get(id(node))
                        consumer = dotted(p.func) if isinstance(p, ast.Call) else None
                        good = consumer in ORDER_FREE_CONSUMERS
                        col.check(good, "R18.1", key, f"consumed by {consumer}()",
                                  f"a {'dict' if isinstance(node, ast.DictComp) else 'list'} is built by iterating the set `{unparse(it)[:50]}`: its order follows the string hash seed of the process and reaches "
                                  f"whatever consumes it ({unparse(p)[:60] if p is not None else ''})", rel, node)
                        continue
                    good, why = order_insensitive_body(node)
                    col.check(good, "R18.1", key, "the loop body is order-insensitive (adds to sets / membership / per-key writes)",
                              f"the loop over the set `{unparse(it)[:50]}` {why}: the result depends on the hash seed", rel, node)
        for n in ast.walk(fi.tree):
            if isinstance(n, ast.Call) and isinstance(n.func, ast.Name) and n.func.id in ("id", "hash") and len(n.args) == 1:
                col.bad("R18.1", f"{rel}::{enc.get(id(n), '')} calls {n.func.id}()", f"`{unparse(n)}`: object identities/hashes differ between runs", rel, n)
    col.floor("R18.1", "iterations over set-typed expressions", nit, 3)
    # list(set)/tuple(set) conversions
    for rel, fi in sorted(model.files.items()):
        if not rel.startswith("nsl/"):
            continue
        for n in ast.walk(fi.tree):
            if isinstance(n, ast.Call) and dotted(n.func) in ("list", "tuple", "enumerate", "zip") and n.args and is_set_expr(n.args[0], attr_names, meth_names):
                col.bad("R18.1", f"{rel}:: {dotted(n.func)}({unparse(n.args[0])[:40]})", f"`{unparse(n)[:60]}` fixes the hash-seed dependent order of a set in a sequence", rel, n)
    # a set handed to a constructor / function of the repository that puts its parameter in order (`list(p)`, a loop over p, a
    # join): the order of the set is fixed in whatever that object writes (one level of the call graph)
    for rel, fi in sorted(model.files.items()):
        if not rel.startswith("nsl/"):
            continue
        for n in ast.walk(fi.tree):
            if not (isinstance(n, ast.Call) and any(is_set_expr(a, attr_names, meth_names) for a in n.args)):
                continue
            ci = model.resolve_class_expr(rel, n.func)
            callee = None
            off = 0
            if ci is not None:
                r_ = ci.find_method("__init__")
                callee, off = (r_[1], 1) if r_ else (None, 0)
            elif isinstance(n.func, ast.Name) and n.func.id in fi.functions:
                callee = fi.functions[n.func.id]
            if callee is None:
                continue
            for i, a in enumerate(n.args):
                if not is_set_expr(a, attr_names, meth_names) or i + off >= len(callee.args.args):
                    continue
                p = callee.args.args[i + off].arg
                ordered = [x for x in ast.walk(callee) if (isinstance(x, ast.Call) and dotted(x.func) in ("list", "tuple", "enumerate", "zip", "iter") and x.args and isinstance(x.args[0], ast.Name) and x.args[0].id == p)
                           or (isinstance(x, ast.For) and isinstance(x.iter, ast.Name) and x.iter.id == p)
                           or (isinstance(x, ast.Call) and last_attr(x) == "join" and x.args and isinstance(x.args[0], ast.Name) and x.args[0].id == p)]
                if ordered:
                    col.bad("R18.1", f"{rel}:: set `{unparse(a)[:40]}` handed to {unparse(n.func)[:40]}", f"`{' '.join(unparse(n).split())[:70]}` passes a set to `{p}`, which the callee puts in "
                            f"order (`{' '.join(unparse(ordered[0]).split())[:50]}`): what is built or written from it follows the hash seed of the process", rel, n)
    # ---------------- R18.2 (i) fresh objects per compilation ----------------------
    cinit = pipe.cls.own_method("__init__")
    # (Pipeline resolved both lists to displays of GetPass() calls written in __init__, possibly through a local / list(..))
    col.check(bool(pipe.ast_passes) and bool(pipe.ir_passes) and not pipe.oneshot,
              "R18.2", f"{COMPILER}::Compiler.__init__ builds the pass lists per instance", "astPasses/irPasses are list displays evaluated in __init__", None, COMPILER, cinit)
    col.check(not any(k in ("astPasses", "irPasses", "parser") for k in pipe.cls.class_attrs), "R18.2", f"{COMPILER}::Compiler has no class-level passes", "no pass list at class level", "pass objects are shared between Compiler instances", COMPILER, pipe.cls.node)
    pipe.check_pass_freshness(col, "R18.2")
    npass = 0
    for rel, fi in sorted(model.files.items()):
        if not rel.startswith("nsl/passes/") or "GetPass" not in fi.functions:
            continue
        npass += 1
        gp = fi.functions["GetPass"]
        ctors = []
        for c in ast.walk(gp):
            if isinstance(c, ast.Call):
                ci = model.resolve_class_expr(rel, c.func)
                if ci is not None and ci.file == rel:
                    ctors.append(ci.qualname)
        # names used by GetPass that are module-level instances (singletons)
        singles = [n.id for n in ast.walk(gp) if isinstance(n, ast.Name) and isinstance(n.ctx, ast.Load) and n.id in fi.assigns and isinstance(fi.assigns[n.id], ast.Call)]
        col.check(bool(ctors) and not singles, "R18.2", f"{rel}::GetPass builds its visitor per call", f"constructs {sorted(set(ctors))} inside GetPass",
                  f"GetPass hands out module-level object(s) {singles}: visitor state survives from one compilation to the next", rel, gp)
    col.floor("R18.2", "pass factories", npass, 18)
    comp = pipe.compile
    # the pass objects that Compile runs (`<x>.Process(..)`) for lowering and wasm generation are results of GetPass() calls made
    # inside Compile (directly or through a local), never attributes of the compiler object
    per_compile = {}
    for modname in ("LowerToIR", "GenerateWasm"):
        made = [n for n in ast.walk(comp) if isinstance(n, ast.Call) and last_attr(n) == "GetPass" and modname in unparse(n.func)]
        # (or in a private step of Compile: `self.__LowerToIR(ast)` whose body creates the pass)
        per_compile[modname] = bool(made) or pipe.mentions(comp, f"{modname}.GetPass")
    procs = [c for c in ast.walk(comp) if isinstance(c, ast.Call) and last_attr(c) == "Process" and isinstance(c.func, ast.Attribute)]
    on_self = [unparse(c.func.value) for c in procs if unparse(c.func.value).startswith(comp.args.args[0].arg + ".")]
    col.check(all(per_compile.values()) and not on_self, "R18.2", f"{COMPILER}::Compile creates lowering/wasm passes per compilation", "GetPass() is called inside Compile", "the lowering / wasm pass (and its context) is not created per compilation", COMPILER, comp)
    # ---------------- R18.2 (ii) module/class level mutables never mutated --------------
    mlm = module_level_mutables(model, {r for r in model.files if r.startswith("nsl/")})
    col.note("module/class-level mutable objects", [f"{r}::{n}" for r, n, _, _ in mlm])
    for rel, name, v, where in mlm:
        w = writes_to_global(model, rel, name)
        col.check(not w, "R18.2", f"{rel}::{name} ({where}-level) is never mutated", "read-only after import",
                  f"`{name}` is bound once at import time and mutated in {[(r2, f.name if isinstance(f, ast.FunctionDef) else 'lambda') for r2, f, _ in w][:3]}: "
                  "what one compilation stores there is seen by the next one in the same process", rel, w[0][2] if w else None)
    # ---------------- R18.2 (ii-b) no interpreter-wide setting is changed by a compilation ------------
    probe = ast.parse("def f():\n    import sys\n    sys.setrecursionlimit(2 * sys.getrecursionlimit())\n")
    if len(process_setters(probe)) != 1:
        raise AnalysisError("R18.2: the process-setting detector does not fire on its positive example")
    nfiles = 0
    for rel, fi in sorted(model.files.items()):
        if not rel.startswith("nsl/"):
            continue
        nfiles += 1
        hits = process_setters(fi.tree)
        col.check(not hits, "R18.2", f"{rel}:: changes no interpreter-wide setting", "no sys.setrecursionlimit / os.environ / random.seed / locale / sys.path write inside a function",
                  (f"`{' '.join(unparse(hits[0]).split())[:70]}` (line {hits[0].lineno})" if hits else "") + " changes a setting of the whole interpreter and never restores it: "
                  "whether a later compilation in the same process succeeds (or what it prints) depends on what was compiled before", rel, hits[0] if hits else fi.tree)
    col.floor("R18.2", "files searched for interpreter-wide setters", nfiles, 30)
    # ---------------- R18.2 (iii) mutable default arguments ---------------------------
    md = [x for x in mutable_defaults(model) if x[0].startswith("nsl/")]
    col.note("mutable/object default arguments", [f"{r}::{q}({p}={unparse(d)})" for r, q, p, d, *_ in md])
    col.floor("R18.2", "mutable default arguments", len(md), 8)
    for rel, q, p, d, fn, ci, kind in md:
        key = f"{rel}::{q}({p}={unparse(d)[:30]})"
        exc = DEFAULT_EXCEPTIONS.get((rel, q, p)) or DEFAULT_EXCEPTIONS.get((rel, q.split(".")[-2] + "." + q.split(".")[-1] if "." in q else q, p))
        # (a) mutated inside the function itself
        direct = [node for recv, node in mutations_in(fn) if root_name(recv) == p]
        # (b) passed on to a callee that writes to it (SetOutput + Print): flagged only via the exception table
        handed = [c for c in ast.walk(fn) if isinstance(c, ast.Call) and any(isinstance(a, ast.Name) and a.id == p for a in c.args) and last_attr(c) in ("SetOutput",)]
        # (c) stored in a field that is mutated in place by a class that can receive the default
        stored = []
        if ci is not None:
            for n in ast.walk(fn):
                if isinstance(n, ast.Assign) and isinstance(n.value, ast.Name) and n.value.id == p and isinstance(n.targets[0], ast.Attribute):
                    stored.append(mangle(ci.name, n.targets[0].attr))
        field_mut = []
        if stored and fn.name == "__init__":
            # classes that can receive the default: the class itself and subclasses, when some construction omits the argument
            params = [a.arg for a in fn.args.args[1:]] + [a.arg for a in fn.args.kwonlyargs]
            pos = params.index(p) if p in [a.arg for a in fn.args.args[1:]] else None
            receivers = set()
            for sub in model.subclasses(ci):
                # direct constructions of `sub` anywhere
                omitted = False
                for r2, f2 in model.files.items():
                    for c in ast.walk(f2.tree):
                        if isinstance(c, ast.Call) and model.resolve_class_expr(r2, c.func) is sub:
                            own_init = sub.find_method("__init__")
                            if own_init and own_init[0] is ci:
                                given = (pos is not None and len(c.args) > pos) or any(k.arg == p for k in c.keywords)
                                if not given:
                                    omitted = True
                # super().__init__(...) chains from subclasses
                oi = sub.methods.get("__init__") if sub is not ci else None
                if oi is not None:
                    for c in ast.walk(oi):
                        if isinstance(c, ast.Call) and last_attr(c) == "__init__" and isinstance(c.func, ast.Attribute) and isinstance(c.func.value, ast.Call) and last_attr(c.func.value) == "super":
                            nxt = [k for k in sub.mro[1:] if "__init__" in k.methods]
                            if nxt and nxt[0] is ci:
                                given = (pos is not None and len(c.args) > pos) or any(k.arg == p for k in c.keywords)
                                if not given:
                                    omitted = True
                if omitted:
                    receivers.add(sub)
            for sub in receivers:
                for k in sub.mro:
                    for m in k.methods.values():
                        for a, node in direct_mutations(k, m).items():
                            if a in stored or a.split("__")[-1] in {s.split("__")[-1] for s in stored} and a.startswith("_" + ci.name):
                                field_mut.append((sub.name, k.name + "." + m.name, node))
                            if k is ci and a in stored:
                                field_mut.append((sub.name, k.name + "." + m.name, node))
            # (d) the field escapes through an accessor (`return self.__f`) and a caller mutates what it gets
            if receivers:
                accessors = set()
                for k in ci.mro:
                    for m in k.methods.values():
                        rets = [r for r in ast.walk(m) if isinstance(r, ast.Return) and r.value is not None]
                        if len(rets) == 1 and isinstance(rets[0].value, ast.Attribute) and isinstance(rets[0].value.value, ast.Name) and rets[0].value.value.id == "self" \
                                and mangle(k.name, rets[0].value.attr) in stored:
                            accessors.add(m.name)
                if accessors:
                    for r2, f2 in model.files.items():
                        if not r2.startswith("nsl/"):
                            continue
                        for f in ast.walk(f2.tree):
                            if not isinstance(f, (ast.FunctionDef, ast.AsyncFunctionDef)):
                                continue
                            held = {t.id for s in ast.walk(f) if isinstance(s, ast.Assign) and isinstance(s.value, ast.Call) and last_attr(s.value) in accessors
                                    for t in s.targets if isinstance(t, ast.Name)}
                            for recv, node in mutations_in(f):
                                if (isinstance(recv, ast.Call) and last_attr(recv) in accessors and not recv.args) or (isinstance(recv, ast.Name) and recv.id in held):
                                    field_mut.append((sorted(s.name for s in receivers)[0], f"{r2}::{f.name} (through {sorted(accessors)[0]}())", node))
        if exc and not direct and not field_mut:
            col.ok("R18.2", key + " (exception)", "triaged: " + exc)
            continue
        why = []
        if direct:
            why.append(f"the function mutates its default in place (`{unparse(direct[0])[:50]}`)")
        if handed and not exc:
            why.append(f"the default object is handed to `{unparse(handed[0])[:40]}`, which writes to it")
        if field_mut:
            s, where_, node = field_mut[0]
            why.append(f"it is stored in a field that {where_} mutates in place, and {s} can be constructed without the argument")
        col.check(not why, "R18.2", key, "the shared default object is never mutated", "; ".join(why) + ": the object is created once per process, so state leaks from one compilation (or VM) into the next",
                  rel, (direct or [fn])[0] if not field_mut else field_mut[0][2])
    # (iv) a default argument is evaluated once, when the module is imported: it must not read the state of the process at
    # that moment (working directory, clock, environment, random numbers) - later compilations would be decided by it
    AMBIENT = ("cwd", "getcwd", "now", "today", "time", "time_ns", "monotonic", "perf_counter", "getenv", "getpid", "random", "randint", "uuid4", "uuid1", "gettempdir", "mkdtemp", "urandom")
    ndef = 0
    for rel, fi in sorted(model.files.items()):
        if not (rel.startswith("nsl/") or rel in ("nslc.py", "nslr.py")):
            continue
        for f in ast.walk(fi.tree):
            if not isinstance(f, (ast.FunctionDef, ast.AsyncFunctionDef, ast.Lambda)):
                continue
            for d in list(f.args.defaults) + [k for k in f.args.kw_defaults if k is not None]:
                ndef += 1
                amb = [c for c in ast.walk(d) if (isinstance(c, ast.Call) and last_attr(c) in AMBIENT) or (isinstance(c, ast.Attribute) and c.attr == "environ")]
                col.check(not amb, "R18.2", f"{rel}::{getattr(f, 'name', '<lambda>')} default `{unparse(d)[:40]}`", "the default does not read process state at import time",
                          f"the default `{' '.join(unparse(d).split())[:60]}` is evaluated once, at import: it freezes the process state of that moment (e.g. the working directory before a "
                          "later chdir), so a later compilation resolves names / behaves according to where an earlier one ran", rel, d) if amb else None
    col.floor("R18.2", "default argument values scanned", ndef, 20)
    # ---------------- R18.3 ------------------------------------------------------
    from . import c17
    from ..report import Collector

    sub = Collector("C17")
    c17.run(model, sub, "quick")
    for ob in sub.obligations:
        if ob.rule == "R17.3":
            ob.rule = "R18.3"
            col.obligations.append(ob)
