"""C08 Binary operators group by the declared precedence, left to right.

Decided completely at the grammar level: the LALR(1) automaton is finite and
every parse of every text is a walk through it."""
from __future__ import annotations

import ast
import itertools

from .. import oracles
from ..grammar import Grammar, PARSER, LEXER, regex_can_contain as _can_match_char
from ..model import AnalysisError, AnchorMissing, dotted, last_attr, unparse, walk_no_nested

TITLE = "binary operator grouping (precedence, associativity, parentheses, layout)"
LEVEL = "proof"
EXHAUSTIVE = True
TRUSTED_BASE = [
    "CPython ast module (extraction of grammar docstrings, precedence table, token regexes)",
    "ply.yacc LALR(1) table construction (the same generator NSL uses), run on the statically extracted grammar",
    "the precedence levels and associativity stated in property C08 (nslsa/oracles.py)",
]
EXPLANATION = (
    "R08.1: for every LALR state holding a completed open-right binary-expression item and every "
    "binary-operator lookahead, the table action (shift/reduce) must be the one the C08 precedence "
    "levels with left associativity prescribe, for every operator the completed production can have "
    "used; completed assignment items must shift on every binary operator. R08.2: the grammar action "
    "of each binary production passes operator/left/right symbols into the matching constructor "
    "roles, and token regex -> spelling -> Operation agree with the C operator table. R08.3: the "
    "lexer discards exactly blank, tab and newline and no parser action reads positions except to "
    "build a Location. R08.4: the action/goto tables are walked on all operator pairs and triples "
    "(with parentheses and under an assignment) and the reduction order is compared with the tree "
    "the precedence levels prescribe."
)
NOT_DECIDED = "nothing of the property's statement; values computed by the VM for a grouped tree belong to C01."
ASSUMPTIONS = [
    "ply.yacc builds the same tables from the extracted docstrings as it does inside nsl.parser (same ply 3.11, same production order = source line order)",
    "signed decimal literals are single tokens by design (C13 mechanism); whitespace *between tokens* is what the property quantifies over",
]


def token_of_spelling(G):
    """spelling -> token name for the 13 binary operators (lexer regex folded)."""
    out = {}
    for tok in G.tokens:
        sp = G.lexer.spelling(tok)
        if sp in oracles.BINARY_OPERATORS:
            if sp in out:
                raise AnalysisError(f"two tokens spell {sp!r}: {out[sp]}, {tok}")
            out[sp] = tok
    return out


def select_stmts(func, nsyms):
    """Statements of a grammar action that run for a production with `nsyms`
    right-hand symbols (folds `len(p) == N` tests)."""
    pname = func.args.args[-1].arg

    def fold_test(t):
        if isinstance(t, ast.Compare) and len(t.ops) == 1:
            l, r = t.left, t.comparators[0]

            def val(e):
                if isinstance(e, ast.Call) and dotted(e.func) == "len" and e.args and isinstance(e.args[0], ast.Name) and e.args[0].id == pname:
                    return nsyms + 1
                if isinstance(e, ast.Constant) and isinstance(e.value, int):
                    return e.value
                return None

            a, b = val(l), val(r)
            if a is None or b is None:
                return None
            op = t.ops[0]
            return {
                ast.Eq: a == b,
                ast.NotEq: a != b,
                ast.Lt: a < b,
                ast.LtE: a <= b,
                ast.Gt: a > b,
                ast.GtE: a >= b,
            }.get(type(op))
        return None

    out = []

    def go(body):
        for st in body:
            if isinstance(st, ast.If):
                v = fold_test(st.test)
                if v is True:
                    go(st.body)
                elif v is False:
                    go(st.orelse)
                else:
                    out.append(st)  # keep whole statement (both arms)
            else:
                out.append(st)

    go(func.body)
    return out, pname


def p_index(node, pname):
    """`p[3]` -> 3"""
    if (
        isinstance(node, ast.Subscript)
        and isinstance(node.value, ast.Name)
        and node.value.id == pname
        and isinstance(node.slice, ast.Constant)
        and isinstance(node.slice.value, int)
    ):
        return node.slice.value
    return None


def classify(G, model):
    """For every production: ('binary', op_i, l_i, r_i) / ('assign', op_i, l_i, r_i) / ('unit',) / ('other',)"""
    be = model.cls("nsl/ast/__init__.py", "BinaryExpression")
    init = be.own_method("__init__")
    params = [a.arg for a in init.args.args[1:]]
    # which constructor parameter plays which role is read off what the constructor does with it, not off its name:
    # the two parameters that become the child list are (left, right) in that order, the remaining one is the operation
    role_be = {}
    def _list_arg(fn, call):
        # the child list handed to the base constructor: positional or `children=`, directly or through a local bound once
        for a_ in list(call.args[:1]) + [k.value for k in call.keywords if k.arg == "children"]:
            if isinstance(a_, ast.Name):
                binds = [s.value for s in ast.walk(fn) if isinstance(s, ast.Assign) and len(s.targets) == 1 and isinstance(s.targets[0], ast.Name) and s.targets[0].id == a_.id]
                a_ = binds[0] if len(binds) == 1 else a_
            if isinstance(a_, ast.List):
                return a_
        return None

    for c_ in ast.walk(init):
        if isinstance(c_, ast.Call) and last_attr(c_) == "__init__":
            la_ = _list_arg(init, c_)
            if la_ is not None and len(la_.elts) == 2:
                l_, r_ = la_.elts
                if isinstance(l_, ast.Name) and isinstance(r_, ast.Name):
                    role_be[l_.id], role_be[r_.id] = "left", "right"
    for p_ in params:
        role_be.setdefault(p_, "op")
    ae_init = model.cls("nsl/ast/__init__.py", "AssignmentExpression").own_method("__init__")
    role_ae = {}
    for c_ in ast.walk(ae_init):
        if isinstance(c_, ast.Call) and last_attr(c_) == "__init__" and len(c_.args) + len([k for k in c_.keywords if k.arg in params]) == len(params):
            for bp, a_ in list(zip(params, c_.args)) + [(k.arg, k.value) for k in c_.keywords if k.arg in params]:
                if isinstance(a_, ast.Name):
                    role_ae[a_.id] = role_be[bp]
    kinds = {}
    for P in G.productions:
        stmts, pname = select_stmts(P.func, len(P.syms))
        kind = ("other",)
        # local aliases: name = p[i]
        alias = {}
        for st in stmts:
            if isinstance(st, ast.Assign) and len(st.targets) == 1 and isinstance(st.targets[0], ast.Name):
                i = p_index(st.value, pname)
                if i is not None:
                    alias[st.targets[0].id] = i
            elif isinstance(st, ast.Assign) and len(st.targets) == 1 and isinstance(st.targets[0], ast.Tuple) and isinstance(st.value, ast.Tuple) \
                    and len(st.targets[0].elts) == len(st.value.elts):
                for t_, v_ in zip(st.targets[0].elts, st.value.elts):
                    i = p_index(v_, pname)
                    if isinstance(t_, ast.Name) and i is not None:
                        alias[t_.id] = i

        def idx(e):
            i = p_index(e, pname)
            if i is not None:
                return i
            if isinstance(e, ast.Name) and e.id in alias:
                return alias[e.id]
            return None

        for st in stmts:
            for n in ast.walk(st):
                if isinstance(n, ast.Call) and last_attr(n) in ("BinaryExpression", "AssignmentExpression"):
                    which = last_attr(n)
                    roles = {}
                    if which == "BinaryExpression":
                        names = params
                        role_of = role_be
                    else:
                        names = [a.arg for a in ae_init.args.args[1:]] + [a.arg for a in ae_init.args.kwonlyargs]
                        role_of = role_ae
                    for nm, a in zip(names, n.args):
                        roles[role_of.get(nm, nm)] = a
                    for kw in n.keywords:
                        roles[role_of.get(kw.arg, kw.arg)] = kw.value
                    opn = roles.get("op")
                    op_i = None
                    if opn is not None:
                        for s in ast.walk(opn):
                            j = idx(s)
                            if j is not None:
                                op_i = j
                    l_i = idx(roles.get("left")) if roles.get("left") is not None else None
                    r_i = idx(roles.get("right")) if roles.get("right") is not None else None
                    kind = ("binary" if which == "BinaryExpression" else "assign", op_i, l_i, r_i, n)
        if kind == ("other",):
            # pure pass-through action  p[0] = p[i]
            real = [st for st in stmts if not (isinstance(st, ast.Expr) and isinstance(st.value, ast.Constant))]
            if len(real) == 1 and isinstance(real[0], ast.Assign) and p_index(real[0].targets[0], pname) == 0:
                i = p_index(real[0].value, pname)
                if i is not None:
                    kind = ("pass", i)
        if kind == ("other",) and len(P.syms) == 1:
            kind = ("unit",)
        kinds[P.index] = kind
    return kinds


class ParseError(Exception):
    pass


def lr_parse(G, tokens):
    """Walk the statically built action/goto tables over a token-class
    sentence.  Returns the generic parse tree (prod index, children) /
    ('tok', name, position)."""
    toks = list(tokens) + ["$end"]
    stack = [0]
    vals = []
    pos = 0
    steps = 0
    while True:
        steps += 1
        if steps > 10000:
            raise ParseError("no progress")
        st = stack[-1]
        t = toks[pos]
        a = G.action[st].get(t)
        if a is None:
            # default reduction (PLY applies it when the state has a single action)
            dr = G.table.lr_action[st]
            raise ParseError(f"syntax error at position {pos} ({t}) in state {st}")
        if a > 0:
            stack.append(a)
            vals.append(("tok", t, pos))
            pos += 1
        elif a < 0:
            p = G.ply_productions[-a]
            n = p.len
            kids = vals[len(vals) - n :] if n else []
            if n:
                del vals[len(vals) - n :]
                del stack[len(stack) - n :]
            vals.append((-a, kids))
            stack.append(G.goto[stack[-1]][p.name])
        else:
            return vals[-1]


def minimal_yields(G):
    """Shortest terminal string of every non-terminal (fixpoint)."""
    best = {}
    changed = True
    while changed:
        changed = False
        for P in G.productions:
            tot = []
            okp = True
            for s in P.syms:
                if s in G.nonterminals:
                    if s not in best:
                        okp = False
                        break
                    tot += best[s]
                else:
                    tot.append(s)
            if okp and (P.name not in best or len(tot) < len(best[P.name])):
                best[P.name] = tot
                changed = True
    return best


def context_for(G, target):
    """Shortest (prefix, suffix) of terminals such that prefix <target> suffix
    derives from the start symbol."""
    best = minimal_yields(G)
    if target not in G.nonterminals:
        raise AnchorMissing(f"grammar has no non-terminal '{target}'")
    # BFS from start over (nonterminal) with accumulated context
    from collections import deque

    seen = {G.start: ([], [])}
    q = deque([G.start])
    while q:
        nt = q.popleft()
        pre, suf = seen[nt]
        if nt == target:
            return pre, suf
        for P in G.prods_named(nt):
            for i, s in enumerate(P.syms):
                if s in G.nonterminals and s not in seen:
                    try:
                        left = sum((best[x] if x in G.nonterminals else [x] for x in P.syms[:i]), [])
                        right = sum((best[x] if x in G.nonterminals else [x] for x in P.syms[i + 1 :]), [])
                    except KeyError:
                        continue
                    seen[s] = (pre + left, right + suf)
                    q.append(s)
    raise AnalysisError(f"non-terminal '{target}' is unreachable from '{G.start}'")


def oracle_tree(tokens, spell_of):
    """Precedence climbing with the C08 levels, all left-associative.
    tokens: list of 'ID'/'(' / ')' / operator token names; leaves are numbered."""
    pos = [0]
    leaf = [0]

    def primary():
        t = tokens[pos[0]]
        if t == "(":
            pos[0] += 1
            e = expr(0)
            assert tokens[pos[0]] == ")"
            pos[0] += 1
            return e
        assert t == "ID", t
        pos[0] += 1
        leaf[0] += 1
        return ("leaf", leaf[0])

    def expr(minlevel):
        left = primary()
        while pos[0] < len(tokens):
            t = tokens[pos[0]]
            if t not in spell_of:
                break
            lvl = oracles.PRECEDENCE_LEVELS[spell_of[t]]
            if lvl < minlevel:
                break
            pos[0] += 1
            right = expr(lvl + 1)
            left = ("bin", spell_of[t], left, right)
        return left

    if len(tokens) > 2 and tokens[1] == "EQUALS":
        pos[0] = 2
        leaf[0] = 1
        return ("assign", ("leaf", 1), expr(0))
    return expr(0)


REWRITE = "nsl/passes/RewriteAssignEqualOperations.py"


def check_list_accumulation(model, col, rule, G):
    """Left-recursive list productions `L -> L x` / `L -> L sep x` carry every element into the list: on every path of the
    action the new element p[last] is handed to the accumulated value (append / Add* / `+ [..]`), unconditionally."""
    from ..paths import paths, calls_on_path

    n = 0
    for P in G.productions:
        if not (len(P.syms) in (2, 3) and P.syms[0] == P.name):
            continue
        stmts, pname = select_stmts(P.func, len(P.syms))
        # the element is the last symbol that is not punctuation (`L -> L x ;`)
        elems = [i for i in range(2, len(P.syms) + 1) if P.syms[i - 1] not in G.terminals or P.syms[i - 1].isupper() and P.syms[i - 1] in ("ID",)]
        if not elems:
            continue
        last = elems[-1]
        alias = {}
        for st in stmts:
            if isinstance(st, ast.Assign) and len(st.targets) == 1 and isinstance(st.targets[0], ast.Name) and p_index(st.value, pname) is not None:
                alias[st.targets[0].id] = p_index(st.value, pname)

        def idx(e):
            i = p_index(e, pname)
            return alias.get(e.id) if i is None and isinstance(e, ast.Name) else i

        n += 1
        dropped = None
        for evs, status in paths(stmts):
            if status == "raise":
                continue
            kept = False
            for c in calls_on_path(evs):
                if any(idx(a) == last for a in c.args) and isinstance(c.func, ast.Attribute):
                    kept = True
            for e in evs:
                if e.kind == "stmt" and isinstance(e.node, ast.Assign):
                    for b in ast.walk(e.node.value):
                        if isinstance(b, (ast.List, ast.Tuple)) and any(idx(x) == last for x in b.elts):
                            kept = True
                        if isinstance(b, ast.BinOp) and isinstance(b.op, ast.Add) and (idx(b.left) == last or idx(b.right) == last):
                            kept = True  # list concatenation `p[1] + p[2]`
            if not kept:
                dropped = [(" ".join(unparse(e.node).split())[:50], e.val) for e in evs if e.kind == "cond"]
        col.check(dropped is None, rule, f"{PARSER}::{P.func.name}[{P}] keeps every element", f"p[{last}] joins the list on every path",
                  f"under {dropped} the element p[{last}] (`{P.syms[-1]}`) is not added to the list: that part of the program never reaches any pass - it is neither validated nor compiled", PARSER, P.func)
    col.floor(rule, "left-recursive list productions", n, 5)


def check_ctor_params_unchanged(model, col, rule):
    """What the parser hands to an expression node's constructor (operation, operands) is what the node stores: no constructor
    of an expression class re-binds one of its parameters to something built from *other* parameters, tables or attributes
    (an operand swap, an operator substitution).  `p = list(p)`, `p = p or []` and the like only normalise p itself."""
    astf = "nsl/ast/__init__.py"
    base = model.cls(astf, "Expression")
    n = 0
    for ci in model.subclasses(base, strict=False):
        init = ci.methods.get("__init__")
        if init is None or ci.file != astf:
            continue
        n += 1
        ps = {a.arg for a in init.args.args[1:]} | {a.arg for a in init.args.kwonlyargs}
        bad = []
        for x in ast.walk(init):
            if not isinstance(x, (ast.Assign, ast.AugAssign)):
                continue
            tg = x.targets if isinstance(x, ast.Assign) else [x.target]
            bound = {nm.id for t in tg for nm in ast.walk(t) if isinstance(nm, ast.Name) and isinstance(nm.ctx, ast.Store) and nm.id in ps}
            if not bound:
                continue
            others = {nm.id for nm in ast.walk(x.value) if isinstance(nm, ast.Name) and nm.id not in ("list", "tuple", "None", "True", "False")}
            foreign = any(isinstance(a, (ast.Attribute, ast.Subscript, ast.BinOp)) or (isinstance(a, ast.Call) and not (isinstance(a.func, ast.Name) and a.func.id in ("list", "tuple")))
                          for a in ast.walk(x.value))
            if isinstance(x, ast.AugAssign) or len(bound) > 1 or not others <= bound or foreign:
                bad.append(" ".join(unparse(x).split())[:70])
        col.check(not bad, rule, f"{astf}::{ci.name}.__init__ stores what it is given", "no parameter is re-bound from other parameters / tables",
                  f"`{bad[0] if bad else ''}` re-binds constructor parameters of {ci.name}: the node no longer holds the operation and operands of the source expression in source order "
                  "(the tree, its printed form and the evaluation order differ from what was written)", astf, init)
    col.floor(rule, "expression constructors", n, 10)


def check_rewrite_shape(model, col, rule):
    """`x op= e` is rewritten to `x = x op e` with e as ONE operand (the right-hand side of an assignment extends
    over the whole following expression): every AssignmentExpression the pass builds has that shape."""
    from ..sem import local_env, resolve

    rv = model.cls(REWRITE, "RewriteAssignEqualVisitor")
    h = rv.own_method("v_AssignmentExpression")
    env = local_env(h, allow_impure=True)
    np_ = h.args.args[1].arg
    news = [c for c in ast.walk(h) if isinstance(c, ast.Call) and last_attr(c) == "AssignmentExpression"]
    results = []
    details = []
    for c in news:
        c2 = resolve(c, env)
        if len(c2.args) < 2 or not (isinstance(c2.args[1], ast.Call) and last_attr(c2.args[1]) == "BinaryExpression"):
            results.append(False)
            details.append(" ".join(unparse(c2).split())[:120])
            continue
        b = c2.args[1]
        tl = unparse(c2.args[0])
        bl = unparse(b.args[1]) if len(b.args) > 2 else ""
        br = unparse(b.args[2]) if len(b.args) > 2 else ""

        def is_side(t, getter):
            # <node>.GetLeft() possibly wrapped in a visit call:  self.v_Visit(<node>.GetLeft(), ctx)
            return f"{np_}.{getter}()" in t and "BinaryExpression" not in t

        ok = is_side(tl, "GetLeft") and is_side(bl, "GetLeft") and is_side(br, "GetRight") and not c2.keywords
        results.append(ok)
        details.append(f"AssignmentExpression({tl}, BinaryExpression(op, {bl}, {br}))")
    good = bool(results) and all(results)
    detail = "; ".join(details) or "no AssignmentExpression constructed"
    col.check(good, rule, f"{REWRITE}::v_AssignmentExpression rewrite shape", detail[:200] + "  (x = x op y, plain ASSIGN)",
              f"rewrite is {detail[:300]}; expected AssignmentExpression(left, BinaryExpression(op, left, right)) with a plain assignment and the whole right-hand side as one operand", REWRITE, h)


def run(model, col, tier):
    G = Grammar(model)
    kinds = classify(G, model)
    spell = token_of_spelling(G)  # spelling -> token
    col.note("grammar", {"productions": len(G.productions), "states": len(G.action), "start": G.start,
                         "sr_conflicts": len(G.sr_conflicts), "rr_conflicts": len(G.rr_conflicts)})
    missing = [s for s in oracles.BINARY_OPERATORS if s not in spell]
    for s in oracles.BINARY_OPERATORS:
        col.check(s in spell, "R08.2", f"{LEXER}::NslLexer token for '{s}'",
                  f"a token with the fixed spelling {s!r} exists ({spell.get(s)})",
                  f"no token regex spells exactly {s!r}", LEXER)
    if missing:
        return
    spell_of = {tok: s for s, tok in spell.items()}
    B = list(spell_of)  # the 13 binary-operator terminals
    level = {tok: oracles.PRECEDENCE_LEVELS[s] for tok, s in spell_of.items()}

    binprods = {i: k for i, k in kinds.items() if k[0] == "binary"}
    asgprods = {i: k for i, k in kinds.items() if k[0] == "assign"}
    col.floor("R08.1", "productions whose action builds a BinaryExpression", len(binprods), 1)
    col.floor("R08.1", "productions whose action builds an AssignmentExpression", len(asgprods), 1)
    prod = {P.index: P for P in G.productions}

    # ---- operator sets per binary production + R08.2 role flow -------------
    opsets = {}
    for i, k in sorted(binprods.items()):
        P = prod[i]
        _, op_i, l_i, r_i, call = k
        key = f"{PARSER}::{P.func.name}[{P}]"
        good = op_i is not None and l_i is not None and r_i is not None
        if not good:
            col.bad("R08.2", key, f"cannot trace p[i] symbols into BinaryExpression(op,left,right): {unparse(call)}", PARSER, call)
            continue
        osym = P.syms[op_i - 1]
        if osym in G.nonterminals:
            O = G.derives_terminals(osym)
            if O is None:
                col.bad("R08.2", key, f"operator position holds non-terminal {osym} which is not a plain operator class", PARSER, call)
                continue
            # the class non-terminal must pass its token through
            for Q in G.prods_named(osym):
                st, pn = select_stmts(Q.func, 1)
                passes = any(
                    isinstance(s, ast.Assign) and p_index(s.targets[0], pn) == 0 and p_index(s.value, pn) == 1
                    for s in st
                )
                col.check(passes, "R08.2", f"{PARSER}::{Q.func.name}[{Q}]", "operator class passes its token through (p[0] = p[1])", None, PARSER, Q.func)
        else:
            O = {osym}
        opsets[i] = O
        nonbin = sorted(o for o in O if o not in spell_of)
        col.check(not nonbin, "R08.2", key + " operator set", f"operator symbol ranges over binary-operator tokens {sorted(O)}",
                  f"operator position admits tokens that are not binary operators: {nonbin}", PARSER, call)
        # roles: left operand left of the operator, right operand right of it
        col.check(l_i < op_i < r_i, "R08.2", key + " roles",
                  f"BinaryExpression(op=p[{op_i}], left=p[{l_i}], right=p[{r_i}]): left operand precedes, right operand follows the operator",
                  f"BinaryExpression gets left=p[{l_i}], op=p[{op_i}], right=p[{r_i}]: operands are not in source order", PARSER, call)
        # StrToOp wrapping
        opn_calls = [c for c in ast.walk(call.args[0] if call.args else call) if isinstance(c, ast.Call) and last_attr(c) == "StrToOp"]
        col.check(bool(opn_calls), "R08.2", key + " StrToOp", "operator token text is converted with op.StrToOp", None, PARSER, call)
        # parenthesised alternative must be delimited
        if r_i != len(P.syms) or l_i != 1:
            delim = P.syms[0] == "(" and P.syms[-1] == ")" and l_i == 2 and r_i == len(P.syms) - 1
            col.check(delim, "R08.1", key + " delimiters",
                      "alternative that does not start/end with its operands is delimited by '(' ... ')' and is therefore reduced as a unit",
                      f"operands are not the outermost symbols and the production is not delimited by parentheses: {P}", PARSER, P.func)

    # BinaryExpression constructor / accessors keep the order
    be = model.cls("nsl/ast/__init__.py", "BinaryExpression")
    init = be.own_method("__init__")
    sup = [c for c in ast.walk(init) if isinstance(c, ast.Call) and last_attr(c) == "__init__" and (c.args or c.keywords)]
    # (which parameter is `left` / `right` is *defined* by its position in this list - see classify(); here: it is a list of two distinct parameters)
    bparams = [a.arg for a in init.args.args[1:]]

    def _kids(call):
        for a_ in list(call.args[:1]) + [k.value for k in call.keywords if k.arg == "children"]:
            if isinstance(a_, ast.Name):
                binds = [s.value for s in ast.walk(init) if isinstance(s, ast.Assign) and len(s.targets) == 1 and isinstance(s.targets[0], ast.Name) and s.targets[0].id == a_.id]
                a_ = binds[0] if len(binds) == 1 else a_
            if isinstance(a_, ast.List):
                return a_
        return None

    okorder = any(_kids(c) is not None and len(_kids(c).elts) == 2 and all(isinstance(e, ast.Name) and e.id in bparams for e in _kids(c).elts)
                  and len({e.id for e in _kids(c).elts}) == 2 for c in sup)
    col.check(okorder, "R08.2", "nsl/ast/__init__.py::BinaryExpression.__init__ children order",
              "children = [left, right]", "children are not stored as [left, right]", "nsl/ast/__init__.py", init)
    for meth, want in (("GetLeft", 0), ("GetRight", 1)):
        m = be.own_method(meth)
        rets = [r for r in ast.walk(m) if isinstance(r, ast.Return)]
        got = None
        if len(rets) == 1 and isinstance(rets[0].value, ast.Subscript) and isinstance(rets[0].value.slice, ast.Constant):
            got = rets[0].value.slice.value
        col.check(got == want, "R08.2", f"nsl/ast/__init__.py::BinaryExpression.{meth}", f"returns children[{want}]",
                  f"returns children[{got}] (expected {want})", "nsl/ast/__init__.py", m)
    # spelling -> Operation
    opmap = model.fold(model.module_assign("nsl/op.py", "_op_str_map"))
    for s, (member, _py, _k) in oracles.BINARY_OPERATORS.items():
        got = opmap.get(s)
        col.check(got is not None and got.member == member, "R08.2", f"nsl/op.py::_op_str_map[{s!r}]",
                  f"{s!r} -> Operation.{member}", f"{s!r} maps to {got} (C operator table: Operation.{member})", "nsl/op.py",
                  model.module_assign("nsl/op.py", "_op_str_map"))
    strtoop = model.func("nsl/op.py", "StrToOp")
    rets = [r for r in ast.walk(strtoop) if isinstance(r, ast.Return)]
    col.check(len(rets) == 1 and unparse(rets[0].value).replace(" ", "") in (f"_op_str_map[{strtoop.args.args[0].arg}]",), "R08.2",
              "nsl/op.py::StrToOp", "returns _op_str_map[op]", f"returns {unparse(rets[0].value) if rets else None}", "nsl/op.py", strtoop)

    # ---- R08.5 the tree printer shows the grouping --------------------------
    # (the printed form is how a grouping is observed and what PrettyPrint emits: every nested
    # binary operand must be parenthesised, otherwise `a - (b - c)` prints as `a - b - c`)
    sm = be.own_method("__str__")
    for side in ("GetLeft", "GetRight"):
        tests = [n for n in ast.walk(sm) if isinstance(n, ast.If) and side in unparse(n.test) and "isinstance" in unparse(n.test)]
        good = False
        for t in tests:
            plain = isinstance(t.test, ast.Call) and dotted(t.test.func) == "isinstance" and "BinaryExpression" in unparse(t.test.args[1])
            body = unparse(ast.Module(body=t.body, type_ignores=[]))
            wraps = "'('" in body and "')'" in body and side in body
            good |= plain and wraps
        col.check(good, "R08.5", f"nsl/ast/__init__.py::BinaryExpression.__str__ {side[3:].lower()} operand",
                  "a nested binary operand is always printed in parentheses",
                  f"the {side[3:].lower()} operand is not unconditionally parenthesised when it is a BinaryExpression: the printed text can re-parse to a different grouping", "nsl/ast/__init__.py", sm)
    opstr = [c for c in ast.walk(sm) if isinstance(c, ast.Call) and last_attr(c) == "OpToStr"]
    col.check(bool(opstr) and "self.op" in unparse(opstr[0]), "R08.5", "nsl/ast/__init__.py::BinaryExpression.__str__ operator", "prints its own operator via OpToStr", None, "nsl/ast/__init__.py", sm)
    order = unparse(sm)
    col.check(0 <= order.find("GetLeft") < order.find("OpToStr") < order.rfind("GetRight"), "R08.5", "nsl/ast/__init__.py::BinaryExpression.__str__ order",
              "prints left operand, operator, right operand", "does not print left, operator, right in that order", "nsl/ast/__init__.py", sm)
    check_rewrite_shape(model, col, "R08.6")
    check_ctor_params_unchanged(model, col, "R08.6")
    rule = "R08.6"
    # The token stream is the whole source: on a character no rule matches, the lexer's error hook steps over exactly that one
    # character (in PLY `t.value` of t_error is the *rest of the input*; skipping by its length drops every token after it).
    from ..paths import paths, calls_on_path

    lex = next((c for c in model.classes.values() if c.file == LEXER and "t_error" in c.methods), None)
    if lex is None:
        raise AnchorMissing(f"{LEXER}::t_error")
    te = lex.methods["t_error"]
    bad = None
    for evs, status in paths(te.body):
        if status == "raise":
            continue
        skips = [c for c in calls_on_path(evs) if last_attr(c) == "skip"]
        if len(skips) != 1 or not (len(skips[0].args) == 1 and isinstance(skips[0].args[0], ast.Constant) and skips[0].args[0].value == 1):
            bad = bad or (skips[0] if skips else te)
    col.check(bad is None, rule, f"{LEXER}::{lex.name}.t_error steps over one character", "t.lexer.skip(1) on every returning path",
              f"`{unparse(bad) if isinstance(bad, ast.Call) else 'no skip'}`: after an unmatched character (a carriage return, a stray symbol) the lexer does not resume at the next "
              "character - the rest of the expression never reaches the parser, or the lexer loops", LEXER, bad if bad is not None else te)
    # no other expression printer is transparent: a printer that returns just str(child) hides a nested binary expression
    # from the isinstance test above (the operand then prints without parentheses)
    ebase = model.cls("nsl/ast/__init__.py", "Expression")
    nprinters = 0
    for ci in model.classes.values():
        if ci.file != "nsl/ast/__init__.py" or ebase not in ci.mro or ci is be or "__str__" not in ci.methods:
            continue
        pm_ = ci.methods["__str__"]
        nprinters += 1
        child_getters = {mn for mn, mm in ci.methods.items() for r in ast.walk(mm) if isinstance(r, ast.Return) and r.value is not None and "children" in unparse(r.value)}

        def is_child(e):
            t_ = unparse(e)
            return "children" in t_ or any(f".{g}()" in t_ for g in child_getters)

        def bare(e):
            """the expression renders exactly one child and nothing else"""
            if isinstance(e, ast.Call) and dotted(e.func) == "str" and len(e.args) == 1:
                return is_child(e.args[0]) or bare(e.args[0])
            if isinstance(e, ast.JoinedStr):
                parts = [v for v in e.values if not (isinstance(v, ast.Constant) and v.value == "")]
                return len(parts) == 1 and isinstance(parts[0], ast.FormattedValue) and (is_child(parts[0].value) or bare(parts[0].value))
            if isinstance(e, ast.Call) and isinstance(e.func, ast.Attribute) and e.func.attr == "format" and isinstance(e.func.value, ast.Constant) and isinstance(e.func.value.value, str):
                import re as _re

                return bool(_re.fullmatch(r"\{[0-9]*\}", e.func.value.value)) and len(e.args) == 1 and (is_child(e.args[0]) or bare(e.args[0]))
            if isinstance(e, ast.Call) and isinstance(e.func, ast.Attribute) and e.func.attr in ("__str__", "__repr__") and not e.args:
                return is_child(e.func.value)
            return False

        transparent = [r for r in ast.walk(pm_) if isinstance(r, ast.Return) and r.value is not None and bare(r.value)]
        col.check(not transparent, "R08.5", f"nsl/ast/__init__.py::{ci.name}.__str__ delimits its operand", "the printer adds text of its own around its operand",
                  f"`{unparse(transparent[0])[:60] if transparent else ''}` prints the operand and nothing else: a binary expression wrapped in a {ci.name} is not recognised by BinaryExpression.__str__ "
                  "and is printed without parentheses, so `a * (b + c)` prints as `a * b + c`", "nsl/ast/__init__.py", transparent[0] if transparent else pm_)
    col.floor("R08.5", "expression printers", nprinters, 6)
    sto = model.fold(model.module_assign("nsl/op.py", "_op_str_map"))
    inv = model.module_assign("nsl/op.py", "_str_op_map")
    col.check(isinstance(inv, ast.DictComp) and unparse(inv.key) == "v" and unparse(inv.value) == "k", "R08.5", "nsl/op.py::_str_op_map is the inverse of _op_str_map",
              "{v: k for k, v in _op_str_map.items()}", "_str_op_map is not built as the inverse of _op_str_map", "nsl/op.py", inv)

    # ---- R08.1 automaton obligations ---------------------------------------
    nstates_with = 0
    violated_states = set()
    samples = 0
    for st in range(len(G.C)):
        comp = []
        for (pn, dot) in G.items_of_state(st):
            if pn == 0:
                continue
            P = prod.get(pn)
            if P is None or dot != len(P.syms):
                continue
            comp.append(P)
        for P in comp:
            if P.index in opsets and binprods[P.index][3] == len(P.syms):
                nstates_with += 1
                for t in B:
                    act = G.action[st].get(t)
                    for o1 in sorted(opsets[P.index]):
                        if o1 not in level:
                            continue
                        want = "reduce" if level[o1] >= level[t] else "shift"
                        if act is None:
                            got = "error"
                        elif act > 0:
                            got = "shift"
                        elif -act == P.index:
                            got = "reduce"
                        else:
                            got = f"reduce by other production {prod[-act]}"
                        construct = f"{PARSER}::{P.func.name} left-op {spell_of[o1]} lookahead {spell_of[t]}"
                        if got == want:
                            col.ok("R08.1", construct + f" state {st}", f"state {st}: after `x {spell_of[o1]} y` on `{spell_of[t]}` the table does {got}")
                        else:
                            violated_states.add(st)
                            col.bad("R08.1", construct,
                                    f"LALR state {st}: after a completed `x {spell_of[o1]} y` with lookahead `{spell_of[t]}` the table does {got}; "
                                    f"precedence level {level[o1]} vs {level[t]} with left associativity requires {want} "
                                    f"(`a {spell_of[o1]} b {spell_of[t]} c` groups as {'a ' + spell_of[o1] + ' (b ' + spell_of[t] + ' c)' if got == 'shift' else '(a ' + spell_of[o1] + ' b) ' + spell_of[t] + ' c'})",
                                    PARSER, P.func)
            if P.index in asgprods and asgprods[P.index][3] == len(P.syms):
                for t in B:
                    act = G.action[st].get(t)
                    construct = f"{PARSER}::{P.func.name} assignment-rhs lookahead {spell_of[t]}"
                    if act is not None and act > 0:
                        col.ok("R08.1", construct + f" state {st}", "shift: the right-hand side extends over the following operator")
                    else:
                        col.bad("R08.1", construct, f"LALR state {st}: after `x = y` with lookahead `{spell_of[t]}` the table does not shift; the assignment's right-hand side would end before the operator", PARSER, P.func)
    col.floor("R08.1", "states with a completed open-right binary item", nstates_with, 1)
    col.note("R08.1", {"states_with_completed_binary_item": nstates_with, "binary_productions": len(binprods),
                       "violated_states": sorted(violated_states)})
    expr_family = {prod[i].name for i in binprods} | {prod[i].name for i in asgprods} | {"expression", "unary_expression"}
    for (st, rule, rejected) in G.rr_conflicts:
        if rule.name in expr_family or rejected.name in expr_family:
            col.bad("R08.1", f"{PARSER}:: reduce/reduce conflict {rule.name} / {rejected.name}",
                    f"state {st}: reduce/reduce conflict between expression productions ({rule} vs {rejected})", PARSER, None, 1)
    col.check(True, "R08.1", "reduce/reduce conflicts", f"{len(G.rr_conflicts)} reduce/reduce conflicts, none between expression productions") if not any(
        r.name in expr_family or j.name in expr_family for _, r, j in G.rr_conflicts) else None

    # ---- R08.3 layout independence ------------------------------------------
    lx = G.lexer
    col.check(set(lx.ignore) == {" ", "\t"}, "R08.3", f"{LEXER}::NslLexer.t_ignore",
              "blank and tab are discarded between tokens", f"t_ignore is {lx.ignore!r} (expected exactly blank and tab)", LEXER, lx.cls.node)
    nl = [(n, rx, f) for n, rx, f in lx.func_rules if rx is not None and _can_match_char(rx, "\n") and n != "STRING_LITERAL"]
    nl_discard = [x for x in nl if not any(isinstance(s, ast.Return) and s.value is not None for s in ast.walk(x[2]))]
    col.check(len(nl_discard) >= 1, "R08.3", f"{LEXER}::NslLexer newline rule", "a token rule matches newlines and returns no token",
              "no rule discards newlines", LEXER, lx.cls.node)
    for n, rx, f in nl:
        if (n, rx, f) not in nl_discard:
            col.bad("R08.3", f"{LEXER}::NslLexer.t_{n}", "a token that can contain a newline is returned to the parser", LEXER, f)
    for tok in lx.tokens:
        rx = lx.token_regex(tok)
        if rx is None or tok == "STRING_LITERAL":
            continue
        ws = [c for c in " \t\n" if _can_match_char(rx, c)]
        col.check(not ws, "R08.3", f"{LEXER}::NslLexer.t_{tok} whitespace-free",
                  "token regex cannot match blank, tab or newline", f"token regex {rx!r} can match whitespace {ws!r}: layout would change the token stream", LEXER, lx.cls.node)
    getloc = None
    for name, m in G.parser_class.methods.items():
        reads = [n for n in ast.walk(m) if isinstance(n, ast.Call) and isinstance(n.func, ast.Attribute)
                 and n.func.attr in ("lineno", "lexpos", "linespan", "lexspan")]
        if not reads:
            continue
        builds_location = any(isinstance(n, ast.Call) and last_attr(n) == "Location" for n in ast.walk(m))
        is_action = name.startswith("p_")
        col.check(builds_location and not is_action, "R08.3", f"{PARSER}::NslParser.{name} position reads",
                  "token positions are read only to build a Location", "a grammar action reads token positions: tree shape could depend on layout", PARSER, m)

    # ---- R08.4 sentence walk -------------------------------------------------
    pre, suf = context_for(G, "expression")
    col.note("R08.4 context", {"prefix": pre, "suffix": suf})

    def tree_of(sentence):
        t = lr_parse(G, pre + sentence + suf)
        base = len(pre)
        leafno = {}

        def conv(n):
            if n[0] == "tok":
                if n[1] == "ID" and base <= n[2] < base + len(sentence):
                    leafno.setdefault(n[2], len(leafno) + 1)
                    return ("leaf", leafno[n[2]])
                return ("tok", n[1])
            pi, kids = n
            k = kinds.get(pi, ("other",))
            if k[0] in ("binary", "assign"):
                _, op_i, l_i, r_i, _c = k
                if None in (op_i, l_i, r_i):
                    raise AnalysisError("binary production with untraceable roles in sentence walk")
                # order of conversion = source order so leaves number left to right
                L = conv(kids[l_i - 1])
                opn = kids[op_i - 1]
                while opn[0] != "tok":
                    opn = opn[1][0]
                R = conv(kids[r_i - 1])
                if k[0] == "assign":
                    return ("assign", L, R)
                return ("bin", spell_of.get(opn[1], opn[1]), L, R)
            if k[0] == "pass":
                return conv(kids[k[1] - 1])
            cs = [conv(c) for c in kids]
            if len(kids) == 1:
                return cs[0]
            return ("node", prod[pi].name) + tuple(cs)

        full = conv(t)

        def find(n):
            if n[0] in ("bin", "assign"):
                return n
            if n[0] == "node":
                for c in n[2:]:
                    r = find(c)
                    if r:
                        return r
            return None

        return find(full)

    def show(t):
        if t is None:
            return "?"
        if t[0] == "leaf":
            return "abcdefgh"[t[1] - 1]
        if t[0] == "assign":
            return f"{show(t[1])} = ({show(t[2])})"
        if t[0] == "bin":
            return f"({show(t[2])} {t[1]} {show(t[3])})"
        return str(t)

    families = []
    for o1, o2 in itertools.product(B, repeat=2):
        families.append(("pair", ["ID", o1, "ID", o2, "ID"]))
        families.append(("paren-left", ["(", "ID", o1, "ID", ")", o2, "ID"]))
        families.append(("paren-right", ["ID", o1, "(", "ID", o2, "ID", ")"]))
        families.append(("assign", ["ID", "EQUALS", "ID", o1, "ID", o2, "ID"]))
        # an assignment as the right operand of a binary operator: its target is the operand next to `=`, the operator to the
        # left of it does not reach into the assignment
        families.append(("assign-operand", ["ID", o1, "ID", "EQUALS", "ID", o2, "ID"]))
    for o1, o2, o3 in itertools.product(B, repeat=3):
        families.append(("triple", ["ID", o1, "ID", o2, "ID", o3, "ID"]))
    if tier == "thorough":
        for ops in itertools.product(B, repeat=4):
            s = ["ID"]
            for o in ops:
                s += [o, "ID"]
            families.append(("quadruple", s))
        for o1, o2, o3 in itertools.product(B, repeat=3):
            families.append(("paren-mid", ["ID", o1, "(", "ID", o2, "ID", ")", o3, "ID"]))
    counts = {}
    badc = {}
    for fam, sent in families:
        counts[fam] = counts.get(fam, 0) + 1
        text = " ".join(spell_of.get(t, {"EQUALS": "=", "ID": "x"}.get(t, t)) for t in sent)
        try:
            got = tree_of(sent)
        except ParseError as e:
            got = None
            err = str(e)
        if fam == "assign-operand":
            want = ("bin", spell_of[sent[1]], ("leaf", 1), ("assign", ("leaf", 2), ("bin", spell_of[sent[5]], ("leaf", 3), ("leaf", 4))))
            if got is None:
                # the sentence is rejected: no grouping to disagree with
                col.ok("R08.4", f"sentence[{fam}] {text}", "not a sentence of the grammar")
                continue
        else:
            want = oracle_tree(sent, spell_of)
        if got == want:
            col.ok("R08.4", f"sentence[{fam}] {text}", f"parsed as {show(got)}")
        else:
            badc[fam] = badc.get(fam, 0) + 1
            ops = [spell_of[t] for t in sent if t in spell_of]
            col.bad("R08.4", f"{PARSER}:: grouping of {fam} operators {' '.join(ops)}",
                    f"`{text}` is grouped as {show(got) if got else 'SYNTAX ERROR'}; the declared precedence requires {show(want)}", PARSER, G.parser_class.node)
    col.note("R08.4", {"sentences": counts, "mis-grouped": badc})
