"""C01 Compiled programs compute what the source says (scalar core, VM)."""
from __future__ import annotations

import ast

from .. import oracles
from ..dispatch import Dispatch, handler_traversal
from ..grammar import Grammar, PARSER, LEXER
from ..model import AnalysisError, AnchorMissing, EnumRef, dotted, find_assign, last_attr, unparse, walk_no_nested
from ..paths import paths, calls_on_path, cond_atoms
from ..vmmodel import VMModel, VM, IR
from . import c08, c03
from .. import lowering

TITLE = "scalar core semantics: operator chain, compound forms, control-flow templates, zero-init, promotion"
LEVEL = "other"
LOWER = "nsl/passes/LowerToIR.py"
TYPES = "nsl/types.py"
ASTF = "nsl/ast/__init__.py"
REWRITE = "nsl/passes/RewriteAssignEqualOperations.py"
CASTS = "nsl/passes/AddImplicitCasts.py"
EXPLANATION = (
    "Decides the chain of tables and templates every scalar program goes through: R01.1 for each of the 13 binary "
    "operators the composition token -> spelling -> Operation -> scalar opcode -> VM arm applies the C operator to "
    "(left, right) with 0/1 normalisation and an integer/float-discriminating `/`; R01.2 compound assignment and "
    "++/-- are rewritten/lowered with the right operator, operand order, returned value and store; R01.3 the "
    "control-flow templates emitted for if/for/while/do/break/continue/return are the reference templates "
    "(derived by abstract interpretation of the lowering handlers, roles resolved through the grammar); R01.4 a "
    "declaration emits a fresh zero instance each time it executes; R01.5 the promotion lattice float > int > uint "
    "and the operand the cast is applied to; R01.6 grouping (= C08 rules); R01.7 activation state (= C03 R03.1/2)."
)
NOT_DECIDED = (
    "the value of every program on every input: the interaction of all rules on all programs (numeric results, loop "
    "termination, array indexing) needs execution"
)
ASSUMPTIONS = [
    "Python operator semantics on int/float for + - * % and comparisons equal the C semantics inside the property's numeric domain (no overflow, no division by zero)",
    "`%` on negative operands follows Python (sign of divisor); the property does not state C's remainder sign and the check does not demand it",
]

TRUNC_IDIOMS = ("int", "trunc")  # int(a / b), math.trunc(a / b)


# ----------------------------------------------------------------------------
def scalar_mapping(model):
    """The `mapping` dict FromOperation uses when the return type is scalar /
    vector: {'scalar': {Operation member: OpCode member}, 'vector': {...}}"""
    fo = model.func(IR, "BinaryInstruction.FromOperation")
    out = {}
    mapnames = set()
    for n in ast.walk(fo):
        if isinstance(n, ast.If):
            cur = n
            while True:
                t = unparse(cur.test)
                kind = "scalar" if "IsScalar" in t else "vector" if "IsVector" in t else "matrix" if "IsMatrix" in t else None
                for st in cur.body:
                    if isinstance(st, ast.Assign) and isinstance(st.value, ast.Dict) and kind and isinstance(st.targets[0], ast.Name):
                        mapnames.add(st.targets[0].id)
                    if isinstance(st, ast.Assign) and isinstance(st.value, ast.Dict) and kind and kind not in out:
                        d = model.fold(st.value)
                        out[kind] = {k.member: v.member for k, v in d.items() if isinstance(k, EnumRef) and isinstance(v, EnumRef)}
                if len(cur.orelse) == 1 and isinstance(cur.orelse[0], ast.If):
                    cur = cur.orelse[0]
                else:
                    break
    if "scalar" not in out:
        raise AnchorMissing(f"{IR}::BinaryInstruction.FromOperation: scalar `mapping` table not found")
    # final lookup must be mapping[operation]
    looks = [n for n in ast.walk(fo) if isinstance(n, ast.Subscript) and isinstance(n.value, ast.Name) and n.value.id in mapnames and isinstance(n.ctx, ast.Load)]
    return out, fo, looks


def operand_binding(vm: VMModel):
    """In the binary-family arm: which local names hold Values[0] / Values[1]."""
    arm = vm.arm("ADD")
    outer = arm.outer
    names = {}
    if outer is None:
        raise AnalysisError(f"{VM}: binary opcodes are not dispatched through a family arm; operand binding not modelled")
    from ..sem import rtext as _rt_ob

    # locals of the family arm bound once stand for their value (`operands = instruction.Values`)
    binds = {}
    for st in outer.body:
        if isinstance(st, ast.Assign) and len(st.targets) == 1 and isinstance(st.targets[0], ast.Name):
            binds[st.targets[0].id] = None if st.targets[0].id in binds else st.value
    env_ob = {k: v for k, v in binds.items() if v is not None}
    for st in outer.body:
        if isinstance(st, ast.Assign) and len(st.targets) == 1 and isinstance(st.targets[0], ast.Name):
            t = _rt_ob(st.value, {k: v for k, v in env_ob.items() if k != st.targets[0].id})
            for i in (0, 1):
                if f"Values[{i}]" in t and "localScope" in t:
                    names[st.targets[0].id] = i
    return names, outer


def classify_value_expr(e, opnames):
    """Shape of the expression an arm stores as its result.
    -> (kind, pyop, left_idx, right_idx, normalised) or None"""

    def opidx(n):
        if isinstance(n, ast.Name) and n.id in opnames:
            return opnames[n.id]
        return None

    norm = False
    inner = e
    if isinstance(e, ast.IfExp):
        if isinstance(e.body, ast.Constant) and isinstance(e.orelse, ast.Constant):
            if (e.body.value, e.orelse.value) == (1, 0):
                norm = True
                inner = e.test
            elif (e.body.value, e.orelse.value) == (0, 1):
                return ("inverted", None, None, None, False)
    elif isinstance(e, ast.Call) and dotted(e.func) == "int" and len(e.args) == 1 and isinstance(e.args[0], (ast.Compare, ast.BoolOp)):
        norm = True
        inner = e.args[0]
    if isinstance(inner, ast.BinOp):
        return ("binop", type(inner.op).__name__, opidx(inner.left), opidx(inner.right), norm)
    if isinstance(inner, ast.Compare) and len(inner.ops) == 1:
        opn_, li_, ri_ = type(inner.ops[0]).__name__, opidx(inner.left), opidx(inner.comparators[0])
        # `b > a` is `a < b`: present a comparison of (operand 1, operand 0) as the mirrored comparison of (operand 0, operand 1)
        mirror = {"Lt": "Gt", "Gt": "Lt", "LtE": "GtE", "GtE": "LtE", "Eq": "Eq", "NotEq": "NotEq"}
        if (li_, ri_) == (1, 0) and opn_ in mirror:
            opn_, li_, ri_ = mirror[opn_], 0, 1
        return ("compare", opn_, li_, ri_, norm or isinstance(e, ast.Compare))
    if isinstance(inner, ast.BoolOp) and len(inner.values) == 2:
        return ("boolop", type(inner.op).__name__, opidx(inner.values[0]), opidx(inner.values[1]), norm)
    return None


def arm_result_exprs(arm, vmref="localScope"):
    """[(guard text or None, value expr)] the arm stores into the value map."""
    out = []

    def go(body, guard):
        for st in body:
            if isinstance(st, ast.If):
                go(st.body, unparse(st.test))
                go(st.orelse, "not (" + unparse(st.test) + ")")
            elif isinstance(st, ast.Assign) and isinstance(st.targets[0], ast.Subscript) and isinstance(st.targets[0].value, ast.Name) and st.targets[0].value.id == vmref:
                if isinstance(st.value, ast.IfExp) and not (isinstance(st.value.body, ast.Constant) and isinstance(st.value.orelse, ast.Constant)):
                    out.append((unparse(st.value.test), st.value.body))
                    out.append(("not (" + unparse(st.value.test) + ")", st.value.orelse))
                else:
                    out.append((guard, st.value))

    go(arm.body, None)
    return out


def is_trunc_div(e, opnames):
    """int(a / b) or math.trunc(a / b) with a, b the two operands in order."""
    if isinstance(e, ast.Call) and last_attr(e) in TRUNC_IDIOMS and len(e.args) == 1:
        inner = e.args[0]
        if isinstance(inner, ast.Call) and last_attr(inner) in TRUNC_IDIOMS and len(inner.args) == 1:
            inner = inner.args[0]
        c = classify_value_expr(inner, opnames)
        return c is not None and c[0] == "binop" and c[1] == "Div" and (c[2], c[3]) == (0, 1)
    return False


def run_R01_1(model, col, G, vm):
    spell = c08.token_of_spelling(G)
    opmap = model.fold(model.module_assign("nsl/op.py", "_op_str_map"))
    maps, fo, looks = scalar_mapping(model)
    smap = maps["scalar"]
    col.check(len(looks) >= 1 and all(unparse(l.slice) == fo.args.args[0].arg for l in looks), "R01.1",
              f"{IR}::BinaryInstruction.FromOperation lookup", "opcode = mapping[operation]",
              f"the opcode is not looked up by the operation parameter: {[unparse(l) for l in looks]}", IR, fo)
    opnames, outer = operand_binding(vm)
    col.check(sorted(opnames.values()) == [0, 1], "R01.1", f"{VM}::__Execute binary family operand binding",
              f"operands bound as {opnames} (Values[0] = left, Values[1] = right)",
              f"cannot find one name for Values[0] and one for Values[1]: {opnames}", VM, outer.case)
    # BinaryInstruction keeps [v1, v2] in order and FromOperation passes v1, v2 through
    bi = model.cls(IR, "BinaryInstruction")
    init = bi.own_method("__init__")
    vals = [n for n in ast.walk(init) if isinstance(n, ast.Assign) and isinstance(n.value, ast.List) and len(n.value.elts) == 2]
    p = [a.arg for a in init.args.args]
    okv = any([unparse(e) for e in n.value.elts] == p[-2:] for n in vals)
    col.check(okv, "R01.1", f"{IR}::BinaryInstruction.__init__ operand order", f"values = [{p[-2]}, {p[-1]}]",
              "operands are not stored in parameter order", IR, init)
    ctor = [c for c in ast.walk(fo) if isinstance(c, ast.Call) and last_attr(c) == "BinaryInstruction"]
    fop = [a.arg for a in fo.args.args]
    # the table-driven construction keeps (v1, v2); the kind-specific special cases may swap a commutative
    # scalar/vector multiply but must pass exactly the two operands
    generic = [c for c in ctor if len(c.args) == 4 and any(x is c.args[0] or any(x is y for y in ast.walk(c.args[0])) for x in looks)]
    special = [c for c in ctor if c not in generic]
    okc = bool(generic) and all([unparse(a) for a in c.args[2:]] == fop[-2:] for c in generic) and \
        all(len(c.args) == 4 and sorted(unparse(a) for a in c.args[2:]) == sorted(fop[-2:]) and
            ([unparse(a) for a in c.args[2:]] == fop[-2:] or "MUL" in unparse(c.args[0])) for c in special)
    col.check(okc, "R01.1", f"{IR}::BinaryInstruction.FromOperation operand order", f"constructs BinaryInstruction(.., {fop[-2]}, {fop[-1]})",
              "FromOperation does not pass its two operands through in order", IR, fo)
    # v_BinaryExpression passes left, right
    vb = model.cls(LOWER, "LowerToIRVisitor").own_method("v_BinaryExpression")
    lasts = [c for c in ast.walk(vb) if isinstance(c, ast.Call) and last_attr(c) == "FromOperation"]
    gen = max(lasts, key=lambda c: c.lineno) if lasts else None
    okl = False
    if gen is not None and len(gen.args) == 4:
        l, r = gen.args[2], gen.args[3]
        lv = find_assign(vb, l.id) if isinstance(l, ast.Name) else []
        rv = find_assign(vb, r.id) if isinstance(r, ast.Name) else []
        okl = bool(lv) and bool(rv) and "GetLeft" in unparse(lv[0]) and "GetRight" in unparse(rv[0]) and "GetOperation" in unparse(gen.args[0])
    col.check(okl, "R01.1", f"{LOWER}::v_BinaryExpression scalar lowering", "FromOperation(be.GetOperation(), type, visit(left), visit(right))",
              "the generic lowering does not pass (operation, left value, right value) in that order", LOWER, vb)
    n = 0
    for s, (member, pyop, kind) in oracles.BINARY_OPERATORS.items():
        tok = spell.get(s)
        opm = opmap.get(s)
        if tok is None or opm is None:
            col.bad("R01.1", f"operator {s} chain", f"no token / no _op_str_map row for {s!r}", "nsl/op.py")
            continue
        opcode = smap.get(opm.member)
        ckey = f"operator {s}: {tok} -> Operation.{opm.member} -> OpCode.{opcode} -> VM arm"
        if opcode is None:
            col.bad("R01.1", f"operator {s} chain", f"Operation.{opm.member} has no row in the scalar mapping of FromOperation: lowering `a {s} b` raises KeyError", IR, fo)
            continue
        if opcode not in vm.arms:
            col.bad("R01.1", f"operator {s} chain", f"OpCode.{opcode} has no arm in the interpreter", VM, vm.main_match)
            continue
        arm = vm.arms[opcode]
        res = arm_result_exprs(arm)
        if not res:
            col.bad("R01.1", f"operator {s} chain", f"arm {opcode} stores no result", VM, arm.case)
            continue
        n += 1
        if kind == "div":
            # must discriminate integer from float operands, truncating for integers
            guards = [g for g, _ in res if g]
            # the discriminator is the *instruction's* type (what typing decided the result is), not the types the operand values
            # happen to carry (after store-to-load forwarding an int-typed division can receive a float-typed operand)
            disc = [g for g in guards if any(w in g for w in ("instruction.Type", "isinstance", "IntegerType", "FloatType", "Kind", ".Type")) and "Values" not in g and "op1" not in g and "op2" not in g]
            truncs = [e for g, e in res if is_trunc_div(e, opnames)]
            plains = [e for g, e in res if (classify_value_expr(e, opnames) or (None,))[0:2] == ("binop", "Div")]
            floors = [e for g, e in res if (classify_value_expr(e, opnames) or (None,))[0:2] == ("binop", "FloorDiv")]
            if floors:
                col.bad("R01.1", f"operator {s} chain", f"arm {opcode} uses floor division `{unparse(floors[0])}`: -7 / 2 gives -4, C truncates toward zero (-3)", VM, arm.case)
            elif disc and truncs and plains:
                col.ok("R01.1", ckey, f"integer operands: {unparse(truncs[0])}; float operands: {unparse(plains[0])} (selected by `{disc[0]}`)")
                # both paths divide left by right
                for e_ in plains + truncs:
                    divs = [b for b in ast.walk(e_) if isinstance(b, ast.BinOp) and isinstance(b.op, (ast.Div, ast.FloorDiv))]
                    for b in divs:
                        cc = classify_value_expr(b, opnames)
                        col.check(cc is not None and tuple(cc[2:4]) == (0, 1), "R01.1", f"operator {s} chain: `{' '.join(unparse(e_).split())[:40]}` divides left by right",
                                  "dividend = Values[0], divisor = Values[1]", f"arm {opcode} computes `{unparse(e_)}`: the operands of the division are not (left, right)", VM, arm.case)
            elif plains and not truncs:
                col.bad("R01.1", f"operator {s} chain",
                        f"arm {opcode} computes `{unparse(plains[0])}` for every operand type: two ints divide to a float (7 / 2 = 3.5) instead of truncating toward zero", VM, arm.case)
            else:
                col.bad("R01.1", f"operator {s} chain", f"arm {opcode}: cannot find an integer-truncating and a float path selected by the instruction type: {[unparse(e) for _, e in res]}", VM, arm.case)
            continue
        if len(res) != 1:
            col.bad("R01.1", f"operator {s} chain", f"arm {opcode} has {len(res)} result expressions, expected one unconditional", VM, arm.case)
            continue
        c = classify_value_expr(res[0][1], opnames)
        text = unparse(res[0][1])
        if c is None:
            col.bad("R01.1", f"operator {s} chain", f"arm {opcode}: result `{text}` is not an operator applied to the two operands", VM, arm.case)
            continue
        want_kind = {"arith": "binop", "cmp": "compare", "logic": "boolop"}[kind]
        good = c[0] == want_kind and c[1] == pyop and (c[2], c[3]) == (0, 1)
        if kind in ("cmp", "logic"):
            good = good and c[4]
        why = ""
        if c[0] == "inverted":
            why = "0/1 inverted"
        elif c[0] != want_kind or c[1] != pyop:
            why = f"applies {c[1]} where `{s}` needs {pyop}"
        elif (c[2], c[3]) != (0, 1):
            why = f"operands are (Values[{c[2]}], Values[{c[3]}]) instead of (left, right)"
        elif kind in ("cmp", "logic") and not c[4]:
            why = "result is not normalised to 0/1"
        col.check(good, "R01.1", ckey if good else f"operator {s} chain", f"`{text}`", f"arm {opcode} computes `{text}`: {why}", VM, arm.case)
    col.floor("R01.1", "operator chains", n, 13)
    # catch-all of the inner match must raise
    for ca in vm.catchalls:
        raises = any(isinstance(x, ast.Raise) or (isinstance(x, ast.Call) and last_attr(x) == "Raise") for st in ca.body for x in ast.walk(st))
        col.check(raises, "R01.1", f"{VM}::__Execute catch-all arm" + (" (binary family)" if ca.outer else ""), "an unknown opcode raises",
                  "an unknown opcode falls through silently", VM, ca.case)


def run_R01_2(model, col, G):
    spell_assign = {}
    for tok in G.tokens:
        sp = G.lexer.spelling(tok)
        if sp in oracles.COMPOUND_ASSIGN or sp == "=":
            spell_assign[sp] = tok
    opmap = model.fold(model.module_assign("nsl/op.py", "_op_str_map"))
    rv = model.cls(REWRITE, "RewriteAssignEqualVisitor")
    h = rv.own_method("v_AssignmentExpression")
    om = [v for v in find_assign(h, "opMap") if isinstance(v, ast.Dict)]
    if not om:
        dicts = [n for n in ast.walk(h) if isinstance(n, ast.Dict) and len(n.keys) >= 2]
        om = dicts[:1]
    if not om:
        # the table may live at module (or class) level: <NAME>[operation]
        fi_ = model.file(REWRITE)
        for n in ast.walk(h):
            if isinstance(n, ast.Subscript) and isinstance(n.value, ast.Name) and isinstance(fi_.assigns.get(n.value.id), ast.Dict):
                om = [fi_.assigns[n.value.id]]
            elif isinstance(n, ast.Subscript) and isinstance(n.value, ast.Attribute) and isinstance(rv.class_attrs.get(n.value.attr), ast.Dict):
                om = [rv.class_attrs[n.value.attr]]
    if not om:
        raise AnchorMissing(f"{REWRITE}::v_AssignmentExpression: operator map not found")
    table = {k.member: v.member for k, v in model.fold(om[0]).items()}
    aop = {P.syms[0] for P in G.prods_named("assignment_op")}
    for s, want in oracles.COMPOUND_ASSIGN.items():
        tok = spell_assign.get(s)
        m = opmap.get(s)
        got = table.get(m.member) if m is not None else None
        col.check(tok in aop and got == want, "R01.2", f"compound {s}: {tok} -> Operation.{m.member if m else None} -> {got}",
                  f"`x {s} y` is rewritten with Operation.{want}",
                  f"`x {s} y`: token {tok} (in assignment_op: {tok in aop}) -> {m} -> rewritten with Operation.{got}, expected {want}", REWRITE, h)
    c08.check_rewrite_shape(model, col, "R01.2")
    # the plain-assignment early exit must test ASSIGN
    early = [n for n in ast.walk(h) if isinstance(n, ast.If) and "ASSIGN" in unparse(n.test)]
    col.check(bool(early), "R01.2", f"{REWRITE}::v_AssignmentExpression leaves `=` alone", "plain assignments are returned unchanged", None, REWRITE, h)
    # traversal completeness: operands must be traversed on every path
    tr = handler_traversal(h)
    pths = paths(h.body)
    incomplete = []
    for evs, status in pths:
        if status == "raise":
            continue
        cs = calls_on_path(evs)
        trav = any(last_attr(c) in ("AcceptVisitor", "v_Visit", "v_Generic") for c in cs)
        if not trav:
            incomplete.append(evs)
    col.check(not incomplete, "R01.2", f"{REWRITE}::v_AssignmentExpression traverses operands",
              "every path continues the traversal into the operands",
              f"{len(incomplete)} of {len(pths)} paths return without visiting the operands: a compound assignment nested in an operand "
              "(`a = b += c`) is never rewritten and is lowered as a plain store", REWRITE, h)
    # the pass is wired before typing/lowering and the parser hands the operator through
    ae = G.prods_named("assignment_expression")
    for P in ae:
        k = c08.classify(G, model)[P.index]
        col.check(k[0] == "assign" and k[1] is not None and k[2] == 1 and k[3] == len(P.syms), "R01.2", f"{PARSER}::{P.func.name}[{P}]",
                  "AssignmentExpression(left=p[1], right=p[last], operation=p[2])", "assignment action does not pass (left, right, operation) from the matching symbols", PARSER, P.func)
    lv = model.cls(LOWER, "LowerToIRVisitor")
    # the value of an assignment expression is the assigned value (a store produces none)
    vas = lv.own_method("v_AssignmentExpression")
    for evs, status in paths(vas.body):
        if status != "return":
            continue
        rv_ = evs[-1].node.value
        src = rv_
        if isinstance(rv_, ast.Name):
            v = find_assign(vas, rv_.id)
            src = v[-1] if v else rv_
        good = isinstance(src, ast.Call) and last_attr(src) in ("v_Visit", "v_Generic") and "GetRight" in unparse(src)
        col.check(good, "R01.2", f"{LOWER}::v_AssignmentExpression value",
                  "the value of an assignment expression is the value of its right-hand side",
                  f"returns `{unparse(src)}`: the destination access is a store and defines no value, so `a = b = c` (and `a = b += c`) reads an undefined value", LOWER, vas)
    order = [last_attr(c) for evs, status in paths(vas.body) for c in calls_on_path(evs)]
    want = ["v_Visit", "BeginAssignment", "v_Visit", "EndAssignment"]
    got = [n for n in order if n in ("v_Visit", "v_Generic", "BeginAssignment", "EndAssignment")]
    col.check([("v_Visit" if g == "v_Generic" else g) for g in got] == want, "R01.2", f"{LOWER}::v_AssignmentExpression order",
              "right-hand side is evaluated, then the left-hand side is visited inside BeginAssignment/EndAssignment",
              f"call order is {got}; expected {want}", LOWER, vas)
    ba = [c for c in ast.walk(vas) if isinstance(c, ast.Call) and last_attr(c) == "BeginAssignment"]
    if ba and ba[0].args and isinstance(ba[0].args[0], ast.Name):
        v = find_assign(vas, ba[0].args[0].id)
        col.check(bool(v) and "GetRight" in unparse(v[-1]), "R01.2", f"{LOWER}::v_AssignmentExpression stored value",
                  "the stored value is the visited right-hand side", f"BeginAssignment receives {unparse(v[-1]) if v else '?'}", LOWER, vas)
    inside = None
    for evs, status in paths(vas.body):
        depth = 0
        for c in calls_on_path(evs):
            la = last_attr(c)
            if la == "BeginAssignment":
                depth += 1
            elif la == "EndAssignment":
                depth -= 1
            elif la in ("v_Visit", "v_Generic") and depth > 0:
                inside = unparse(c.args[0]) if c.args else None
    col.check(inside is not None and "GetLeft" in inside, "R01.2", f"{LOWER}::v_AssignmentExpression destination",
              "the left-hand side is what is visited as the store destination", f"the store destination visited is {inside}", LOWER, vas)
    # ++ / --
    for P in G.prods_named("unary_expression"):
        toks = [s for s in P.syms if s in ("PLUSPLUS", "MINUSMINUS")]
        if not toks:
            continue
        want_affix = "PRE" if P.syms[0] in ("PLUSPLUS", "MINUSMINUS") else "POST"
        want_op = {"PLUSPLUS": "ADD", "MINUSMINUS": "SUB"}[toks[0]]
        tokidx = P.syms.index(toks[0]) + 1
        spelling = G.lexer.spelling(toks[0])
        # evaluate the action with p[tokidx] == spelling
        made = None

        def fold(test):
            if isinstance(test, ast.Compare) and len(test.ops) == 1 and isinstance(test.ops[0], ast.Eq):
                a, b = test.left, test.comparators[0]
                if c08.p_index(a, P.func.args.args[-1].arg) == tokidx and isinstance(b, ast.Constant):
                    return b.value == spelling
            return None

        for evs, status in paths(P.func.body, fold=fold):
            for c in calls_on_path(evs, "AffixExpression"):
                made = c
        ckey = f"{PARSER}::{P.func.name}[{P}]"
        if made is None:
            col.bad("R01.2", ckey, f"no AffixExpression is built for `{spelling}`", PARSER, P.func)
            continue
        a0, a2 = unparse(made.args[0]), unparse(made.args[2]) if len(made.args) > 2 else ""
        col.check(a0.endswith("." + want_op) and a2.endswith("." + want_affix), "R01.2", ckey,
                  f"`{spelling}` {'before' if want_affix == 'PRE' else 'after'} the identifier builds AffixExpression({want_op}, .., {want_affix})",
                  f"builds AffixExpression({a0}, .., {a2}); expected Operation.{want_op}, Affix.{want_affix}", PARSER, made)
    ax = model.cls(ASTF, "AffixExpression")
    affix = model.enum_members(ASTF, "Affix")
    for meth, mem in (("IsPostfix", "POST"), ("IsPrefix", "PRE")):
        m = ax.own_method(meth)
        col.check(f"Affix.{mem}" in unparse(m), "R01.2", f"{ASTF}::AffixExpression.{meth}", f"tests Affix.{mem}", f"does not test Affix.{mem}", ASTF, m)
    col.check(affix.get("PRE") != affix.get("POST"), "R01.2", f"{ASTF}::Affix members distinct", "PRE and POST differ", None, ASTF, ax.node)
    va = lv.own_method("v_AffixExpression")
    om = [v for v in find_assign(va, "opMap") if isinstance(v, ast.Dict)]
    if om:
        t = {k.member: v.member for k, v in model.fold(om[0]).items()}
        col.check(t.get("ADD") == "ADD" and t.get("SUB") == "SUB", "R01.2", f"{LOWER}::v_AffixExpression opcode map", "ADD->ADD, SUB->SUB", f"maps {t}", LOWER, va)
    ones = [c for c in ast.walk(va) if isinstance(c, ast.Call) and last_attr(c) == "CreateConstant"]
    col.check(any(len(c.args) == 2 and isinstance(c.args[1], ast.Constant) and c.args[1].value == 1 for c in ones), "R01.2",
              f"{LOWER}::v_AffixExpression step", "the step is the constant 1", "the step constant is not 1", LOWER, va)
    for evs, status in paths(va.body):
        if status == "raise":
            continue
        conds = {t: v for t, v in [(" ".join(unparse(e.node).split()), e.val) for e in evs if e.kind == "cond"]}
        post = conds.get("expr.IsPostfix()")
        pre = conds.get("expr.IsPrefix()")
        if post is None and pre is None:
            continue
        which = "postfix" if post else "prefix" if pre else None
        if which is None:
            continue
        # abstract values: name -> 'initial' | 'computed'
        val = {}
        instr_name = None
        ret = None
        stored = None
        for e in evs:
            if e.kind == "stmt" and isinstance(e.node, ast.Assign) and isinstance(e.node.targets[0], ast.Name):
                tgt = e.node.targets[0].id
                v = e.node.value
                if isinstance(v, ast.Call) and last_attr(v) in ("v_Visit", "v_Generic"):
                    val[tgt] = "loaded"
                elif isinstance(v, ast.Call) and last_attr(v) == "BinaryInstruction":
                    val[tgt] = "computed"
                    opnds = [unparse(a) for a in v.args[2:]]
                    first = val.get(opnds[0]) if opnds else None
                    if first != "loaded":
                        val[tgt] = "computed-wrong-operand"
                elif isinstance(v, ast.Call) and last_attr(v) == "AddInstruction" and v.args and isinstance(v.args[0], ast.Name):
                    val[tgt] = val.get(v.args[0].id)
                elif isinstance(v, ast.Name):
                    val[tgt] = val.get(v.id)
                elif isinstance(v, ast.Constant) and v.value is None:
                    val[tgt] = None
            if e.kind == "stmt" and isinstance(e.node, ast.Expr) and isinstance(e.node.value, ast.Call) and last_attr(e.node.value) == "SetStore":
                a = e.node.value.args[0]
                stored = val.get(a.id) if isinstance(a, ast.Name) else None
            if e.kind == "return" and e.node.value is not None and isinstance(e.node.value, ast.Name):
                ret = val.get(e.node.value.id)
        want = "loaded" if which == "postfix" else "computed"
        col.check(ret == want and stored == "computed", "R01.2", f"{LOWER}::v_AffixExpression {which} path",
                  f"returns the {want} value and stores the computed value (old value {'+' } 1 step)",
                  f"{which}: returns the {ret} value and stores the {stored} value; expected returns {want}, stores computed", LOWER, va)


def run_R01_4(model, col, vm):
    lv = model.cls(LOWER, "LowerToIRVisitor")
    vd = lv.own_method("v_VariableDeclaration")
    for evs, status in paths(vd.body):
        cs = calls_on_path(evs)
        names = [last_attr(c) for c in cs]
        decl_i = next((i for i, c in enumerate(cs) if last_attr(c) == "AddInstruction" and c.args and "dvi" in unparse(c.args[0]) or
                       (last_attr(c) == "AddInstruction" and c.args and isinstance(c.args[0], ast.Call) and last_attr(c.args[0]) == "DeclareVariableInstruction")), None)
        # generic: an AddInstruction whose argument was bound to DeclareVariableInstruction
        if decl_i is None:
            for i, c in enumerate(cs):
                if last_attr(c) == "AddInstruction" and c.args and isinstance(c.args[0], ast.Name):
                    v = find_assign(vd, c.args[0].id)
                    if v and isinstance(v[0], ast.Call) and last_attr(v[0]) == "DeclareVariableInstruction":
                        decl_i = i
                        break
        visit_i = next((i for i, n in enumerate(names) if n in ("v_Visit", "v_Generic")), None)
        good = decl_i is not None and (visit_i is None or decl_i < visit_i)
        col.check(good, "R01.4", f"{LOWER}::v_VariableDeclaration path[{'init' if visit_i is not None else 'no-init'}]",
                  "a DeclareVariableInstruction is emitted, before the initialiser is evaluated",
                  "a path emits no DeclareVariableInstruction before the initialiser: the variable keeps its old value when the declaration executes again", LOWER, vd)
    check_new_variable_fresh(col, vm, "R01.4")
    cpi = vm.ec.own_method("__CreatePrimitiveInstance")
    scalar_ret = None
    for n in ast.walk(cpi):
        if isinstance(n, ast.match_case) and "Scalar" in unparse(n.pattern):
            for r in ast.walk(n):
                if isinstance(r, ast.Return):
                    scalar_ret = r.value
        if isinstance(n, ast.If) and "Scalar" in unparse(n.test):
            for r in n.body:
                if isinstance(r, ast.Return):
                    scalar_ret = r.value
    col.check(isinstance(scalar_ret, ast.Constant) and scalar_ret.value == 0 and scalar_ret.value is not False, "R01.4",
              f"{VM}::__CreatePrimitiveInstance scalar", "a scalar's default instance is the constant 0",
              f"a scalar's default instance is {unparse(scalar_ret) if scalar_ret is not None else 'missing'}", VM, cpi)
    ci = vm.ec.own_method("__CreateInstance")
    prim = [n for n in ast.walk(ci) if isinstance(n, ast.If) and "IsPrimitive" in unparse(n.test)]
    col.check(bool(prim) and any(isinstance(s, ast.Return) and "__CreatePrimitiveInstance" in unparse(s) for s in prim[0].body), "R01.4",
              f"{VM}::__CreateInstance primitive", "primitive types go to __CreatePrimitiveInstance", None, VM, ci)


def scalar_lattice_table(model):
    """Evaluate _GetCommonScalarType over the 3x3 scalar classes by walking its
    decision list."""
    f = model.func(TYPES, "_GetCommonScalarType")
    a, b = [x.arg for x in f.args.args[:2]]
    classes = ["Float", "Integer", "UnsignedInteger"]
    # isinstance is folded over the class hierarchy as it is written (a scalar class made a subclass of another one answers
    # True for its base as well)
    sub = {c: {k.name for k in model.cls(TYPES, c).mro} | {c} for c in classes}
    table = {}
    for ca in classes:
        for cb in classes:
            env = {a: ca, b: cb}

            def ev(t):
                if isinstance(t, ast.BoolOp):
                    vals = [ev(v) for v in t.values]
                    if None in vals:
                        return None
                    return any(vals) if isinstance(t.op, ast.Or) else all(vals)
                if isinstance(t, ast.UnaryOp) and isinstance(t.op, ast.Not):
                    v = ev(t.operand)
                    return None if v is None else not v
                if isinstance(t, ast.Call) and dotted(t.func) == "isinstance" and isinstance(t.args[0], ast.Name) and t.args[0].id in env:
                    cn = (dotted(t.args[1]) or "").split(".")[-1]
                    return cn in sub[env[t.args[0].id]]
                return None

            res = None
            for evs, status in paths(f.body, fold=ev):
                if status == "return":
                    r = evs[-1].node.value
                    res = (dotted(r.func) or "?").split(".")[-1] if isinstance(r, ast.Call) else unparse(r)
                    break
            table[(ca, cb)] = res
    return table, f


def run_R01_5(model, col, vm):
    table, f = scalar_lattice_table(model)
    rank = {"Float": 3, "Integer": 2, "UnsignedInteger": 1}
    for (a, b), got in sorted(table.items()):
        want = a if rank[a] >= rank[b] else b
        col.check(got == want, "R01.5", f"{TYPES}::_GetCommonScalarType({a}, {b})", f"-> {got}",
                  f"common type of {a} and {b} is {got}; the promotion order float > int > uint requires {want}", TYPES, f)
    # the scalar classes keep their identity when they are adapted to IR types (signedness decides the conversion and the wasm opcode)
    clt = model.func(LOWER, "_CreateLinearIRType")
    ity = model.cls("nsl/LinearIR.py", "IntegerType").own_method("__init__")
    dflt = {a.arg: d for a, d in zip(ity.args.kwonlyargs, ity.args.kw_defaults) if d is not None}
    dflt.update({a.arg: d for a, d in zip(reversed(ity.args.args), reversed(ity.args.defaults))})
    uns_default = dflt.get("unsigned").value if isinstance(dflt.get("unsigned"), ast.Constant) else None
    want_adapt = {"Integer": ("IntegerType", False), "UnsignedInteger": ("IntegerType", True), "Float": ("FloatType", None)}
    seen_adapt = {}
    for mc in [n for n in ast.walk(clt) if isinstance(n, ast.match_case)]:
        pat = mc.pattern
        cn = last_attr(ast.Call(func=pat.cls, args=[], keywords=[])) if isinstance(pat, ast.MatchClass) else None
        if cn in want_adapt:
            rets = [r.value for s_ in mc.body for r in ast.walk(s_) if isinstance(r, ast.Return) and isinstance(r.value, ast.Call)]
            if rets:
                r0 = rets[0]
                kw_u = next((k.value.value for k in r0.keywords if k.arg == "unsigned" and isinstance(k.value, ast.Constant)), None)
                if kw_u is None and r0.args and isinstance(r0.args[0], ast.Constant) and last_attr(r0) == "IntegerType":
                    kw_u = r0.args[0].value
                seen_adapt[cn] = (last_attr(r0), (kw_u if kw_u is not None else uns_default) if last_attr(r0) == "IntegerType" else None)
    for cn, want in want_adapt.items():
        got = seen_adapt.get(cn)
        col.check(got == want, "R01.5", f"{LOWER}::_CreateLinearIRType {cn}", f"types.{cn} -> LinearIR.{want[0]}" + (f"(unsigned={want[1]})" if want[1] is not None else ""),
                  f"types.{cn} is adapted to {got}; expected LinearIR.{want[0]}" + (f" with unsigned={want[1]}" if want[1] is not None else "") +
                  ": conversions to this type (and, in wasm, the signedness of division and comparisons) follow the wrong scalar class", LOWER, clt)
    vb = model.cls(CASTS, "AddImplicitCastVisitor").own_method("v_BinaryExpression")
    for side, idx, setter in (("GetLeft", 0, "SetLeft"), ("GetRight", 1, "SetRight")):
        sets = [c for c in ast.walk(vb) if isinstance(c, ast.Call) and last_attr(c) == setter]
        good = False
        for s in sets:
            t = unparse(s)
            good |= "CastExpression" in t and f"{side}()" in t and f"GetOperandType({idx})" in t
        # the guarding comparison must compare the same side with the same operand type
        guards = [n for n in ast.walk(vb) if isinstance(n, ast.If) and any(isinstance(c, ast.Call) and last_attr(c) == setter for c in ast.walk(n))]
        gok = all(f"{side}().GetType()" in unparse(g.test) and f"GetOperandType({idx})" in unparse(g.test) for g in guards) and bool(guards)
        # polarity: the cast is inserted on the paths where the two types were found *different*, and only there
        np15 = vb.args.args[1].arg
        env15 = {}
        from ..sem import local_env as _le15

        env15 = _le15(vb, allow_impure=True)
        for evs_, st_ in paths(vb.body):
            if st_ == "raise":
                continue
            at_ = cond_atoms(evs_, env15)
            eqv = next((v for k, v in at_.items() if f"{side}().GetType()" in k and f"GetOperandType({idx})" in k and " == " in k), None)
            casts_here = any(last_attr(c) == setter and any(isinstance(x, ast.Call) and last_attr(x) == "CastExpression" for x in ast.walk(c)) for c in calls_on_path(evs_))
            if (casts_here and eqv is not False) or (not casts_here and eqv is False):
                gok = False
        col.check(good and gok, "R01.5", f"{CASTS}::v_BinaryExpression {side[3:].lower()} operand",
                  f"{side[3:]} operand is cast to GetOperandType({idx}) when its type differs",
                  f"{side[3:].lower()} operand is not (only) converted to operand type {idx}", CASTS, vb)
    cast = vm.arm("CAST")
    t = unparse(ast.Module(body=cast.body, type_ignores=[]))
    import re as _re

    col.check(bool(_re.search(r"(?<![\w.])float\b(?!Type)", t)), "R01.5", f"{VM}::__Execute CAST arm float target", "a float target converts with float(...)",
              "the CAST arm does not convert to float for a float target", VM, cast.case)
    ce = model.cls(LOWER, "LowerToIRVisitor").own_method("v_CastExpression")
    mk = [c for c in ast.walk(ce) if isinstance(c, ast.Call) and last_attr(c) == "CastInstruction"]
    from ..sem import local_env as _le15c, rtext as _rt15c

    env15c = _le15c(ce, allow_impure=True)
    col.check(bool(mk) and "GetType" in _rt15c(mk[0].args[1], env15c) and "GetArgument" in _rt15c(mk[0].args[0], env15c),
              "R01.5", f"{LOWER}::v_CastExpression", "CastInstruction(visit(argument), target type)", "cast lowering does not pass (argument value, target type)", LOWER, ce)


def check_new_variable_fresh(col, vm, rule):
    """The NEW_VARIABLE arm binds a freshly created default instance to the variable's name on every path."""
    nv = vm.arm("NEW_VARIABLE")
    holder = ast.Module(body=nv.body, type_ignores=[])
    creates = [c for c in ast.walk(holder) if isinstance(c, ast.Call) and last_attr(c) in ("__CreateInstance", "_ExecutionContext__CreateInstance")]
    top_assigns = [st for st in nv.body if isinstance(st, ast.Assign)]
    bind_name = [st for st in top_assigns if isinstance(st.targets[0], ast.Subscript) and "Name" in unparse(st.targets[0].slice)]
    col.check(bool(creates) and bool(bind_name), rule, f"{VM}::__Execute NEW_VARIABLE arm",
              "creates a fresh default instance and binds it to the variable's name unconditionally",
              "the arm does not unconditionally bind a freshly created instance to the variable name (a guarded or cached binding keeps the previous iteration's value)", VM, nv.case)
    if bind_name and creates:
        v = bind_name[0].value
        srcs = [v]
        if isinstance(v, ast.Name):
            srcs = find_assign(holder, v.id) or [v]
        notfresh = [x for x in srcs if not (isinstance(x, ast.Call) and last_attr(x) in ("__CreateInstance", "_ExecutionContext__CreateInstance"))]
        col.check(not notfresh, rule, f"{VM}::__Execute NEW_VARIABLE value",
                  f"the bound value is always {unparse(srcs[0])}", f"the bound value can be `{unparse(notfresh[0]) if notfresh else ''}`, not a fresh instance: a declaration executed again (loop body, "
                  "sibling block re-using the name) starts from the previous variable's value", VM, nv.case)
    # ... and "fresh" goes all the way down: what __CreateInstance returns is built by the call itself (displays,
    # comprehensions, constructor calls, recursive creation, a deep copy) - never an object kept on the VM or a *shallow* copy
    # of one (the rows of a nested array would be shared by every variable of that type, in every activation)
    ec = vm.ec
    shared = []
    nret = 0
    for mname in ("__CreateInstance", "__CreatePrimitiveInstance"):
        m = ec.own_method(mname)
        if m is None:
            continue
        selfn = m.args.args[0].arg
        for r in [x for x in ast.walk(m) if isinstance(x, ast.Return) and x.value is not None]:
            nret += 1
            v = r.value
            vals = [v] + (find_assign(m, v.id) if isinstance(v, ast.Name) else [])
            for x in vals:
                d = dotted(x.func) if isinstance(x, ast.Call) else None
                if d in ("copy.copy", "copy", "list.copy") or (isinstance(x, ast.Call) and last_attr(x) == "copy" and not x.args):
                    shared.append((mname, x))
                elif isinstance(x, (ast.Attribute, ast.Subscript)) and unparse(x).startswith(selfn + "."):
                    shared.append((mname, x))
                elif isinstance(x, ast.Call) and d in ("copy.deepcopy", "deepcopy") and False:
                    pass
    col.floor(rule, "returns of the VM's instance constructors", nret, 3)
    col.check(not shared, rule, f"{VM}::__CreateInstance builds what it returns", "every returned value is constructed by the call (no kept object, no shallow copy)",
              f"`{' '.join(unparse(shared[0][1]).split())[:60] if shared else ''}` in {shared[0][0] if shared else ''} hands out an object the VM keeps (or a shallow copy of it): variables of a nested "
              "aggregate type share their inner lists across declarations, activations and invocations", VM, shared[0][1] if shared else nv.case)


def run_R01_9(model, col, G, vm):
    """R01.9 (a) a conditional branch goes to its true block exactly when the predicate value is truthy - the value itself, not
    a conversion of it (int(0.5) is 0); (b) an integer constant denotes the value its spelling has in the language (decimal,
    leading 0 = octal, 0x = hexadecimal): the token the lexer's ordered rules produce for a spelling and the conversion the
    parser applies to that token agree, folded over sample spellings."""
    from ..miniev import CannotEval, ev
    from ..sem import rtext

    arm = vm.arm("BRANCH")
    env = {}
    for st in [s for b in arm.body for s in ast.walk(b)]:
        if isinstance(st, ast.Assign) and len(st.targets) == 1 and isinstance(st.targets[0], ast.Name) and st.targets[0].id != "currentInstruction":
            env[st.targets[0].id] = None if st.targets[0].id in env else st.value
    env = {k: v for k, v in env.items() if v is not None}
    seen = {}
    bad = []
    for evs, status in paths(arm.body):
        if status == "raise":
            continue
        a = cond_atoms(evs, env)
        # the target is read along the path: locals bound on this path stand for what they were bound to last
        from ..sem import resolve as _rs19

        penv = dict(env)
        tgt = []
        for e in evs:
            if e.kind == "stmt" and isinstance(e.node, ast.Assign) and len(e.node.targets) == 1 and isinstance(e.node.targets[0], ast.Name):
                if e.node.targets[0].id == "currentInstruction":
                    tgt.append(rtext(e.node.value, penv))
                else:
                    penv[e.node.targets[0].id] = _rs19(e.node.value, {k: v for k, v in penv.items() if k != e.node.targets[0].id})
        block = next((k for k in ("TrueBlock", "FalseBlock") if tgt and f"instruction.{k}.Reference" in tgt[-1]), None)
        has_pred = a.get("instruction.Predicate")
        val = next((v for k, v in a.items() if k.replace(" ", "") in ("localScope[instruction.Predicate.Reference]", "localScope[instruction.Predicate.Reference]!=0", "bool(localScope[instruction.Predicate.Reference])")), None)
        other = [k for k in a if "Predicate" in k and k != "instruction.Predicate" and k.replace(" ", "") not in ("localScope[instruction.Predicate.Reference]", "localScope[instruction.Predicate.Reference]!=0", "bool(localScope[instruction.Predicate.Reference])")]
        seen[(has_pred, val)] = block
        if other:
            bad.append(f"the branch is decided by `{other[0][:60]}`")
    want = {(True, True): "TrueBlock", (True, False): "FalseBlock", (False, None): "TrueBlock"}
    col.check(not bad and all(seen.get(k) == v for k, v in want.items()), "R01.9", f"{VM}::__Execute BRANCH arm", "true block iff the predicate's value is truthy; unconditional branches take the true block",
              (bad[0] if bad else f"targets per (has predicate, predicate value): {seen}") + "; expected the predicate value itself to choose (a float predicate between 0 and 1 is true)", VM, arm.case)
    # (a') block references are unique within one function only: the table a branch target is looked up in is built for the
    # function being executed (a fresh dict filled from its blocks, or an entry of a cache that is keyed by the function)
    fpar = vm.execute.args.args[1].arg if len(vm.execute.args.args) > 1 else "function"
    tables = set()
    for b in arm.body:
        for n in ast.walk(b):
            if isinstance(n, ast.Subscript) and isinstance(n.value, ast.Name) and "Block" in unparse(n.slice) and isinstance(n.ctx, ast.Load):
                tables.add(n.value.id)
            # (the target block may be held in a local first: `currentInstruction = blockOffsets[target.Reference]`)
            if isinstance(n, ast.Assign) and len(n.targets) == 1 and isinstance(n.targets[0], ast.Name) and n.targets[0].id == "currentInstruction":
                for x in ast.walk(n.value):
                    if isinstance(x, ast.Subscript) and isinstance(x.value, ast.Name) and x.value.id != "localScope":
                        tables.add(x.value.id)
    col.floor("R01.9", "block-offset tables read by the BRANCH arm", len(tables), 1)
    for tname in sorted(tables):
        binds = [n for st in vm.prologue for n in ast.walk(st) if isinstance(n, ast.Assign) and any(isinstance(t, ast.Name) and t.id == tname for t in n.targets)]
        shared = [b_ for b_ in binds if not (isinstance(b_.value, (ast.Dict, ast.DictComp)) or (isinstance(b_.value, ast.Call) and isinstance(b_.value.func, ast.Name) and b_.value.func.id == "dict")
                                            or any(isinstance(x, ast.Name) and x.id == fpar for x in ast.walk(b_.value)))]
        col.check(bool(binds) and not shared, "R01.9", f"{VM}::__Execute branch targets of `{tname}`", "the block-offset table is built for the executing function",
                  (f"`{' '.join(unparse(shared[0]).split())[:60]}`" if shared else f"`{tname}` is not bound in the prologue") + ": the table is not this function's own - block references repeat "
                  "from function to function, so a branch lands at the offset another function's block has", VM, shared[0] if shared else arm.case)
    # (b) integer spellings
    lx = G.lexer
    conv = {}
    for P in G.productions:
        if len(P.syms) == 1 and P.syms[0] in G.terminals:
            for c in ast.walk(P.func):
                if isinstance(c, ast.Call) and last_attr(c) == "LiteralExpression" and c.args and isinstance(c.args[0], ast.Call) and isinstance(c.args[0].func, ast.Name) and c.args[0].func.id == "int":
                    conv[P.syms[0]] = c.args[0]
    col.floor("R01.9", "integer literal productions", len(conv), 3)
    samples = {"0": 0, "7": 7, "10": 10, "123": 123, "010": 8, "0777": 511, "0x10": 16, "0X1f": 31, "0xFF": 255, "90": 90}
    # signed spellings: where the lexer makes the sign part of one integer token, the value carries the sign
    signed = {"-7": -7, "+7": 7, "-12": -12, "-0x10": -16, "-010": -8, "+0x1F": 31}
    wrong = []
    actions = {}
    for P in G.productions:
        if len(P.syms) == 1 and P.syms[0] in conv:
            actions[P.syms[0]] = P.func
    for s, value in list(samples.items()) + list(signed.items()):
        tok, n = lx.first_match(s)
        if tok not in conv or n != len(s):
            if s in samples:
                wrong.append(f"`{s}` is tokenised as {tok} ({n} of {len(s)} characters)")
            continue
        try:
            # locals the action binds before the conversion (`digits = p[1][2:]`) are folded along
            env_ = {"p": [None, s]}
            for st_ in actions[tok].body:
                if isinstance(st_, ast.Assign) and len(st_.targets) == 1 and isinstance(st_.targets[0], ast.Name):
                    try:
                        env_[st_.targets[0].id] = ev(st_.value, env_)
                    except CannotEval:
                        pass
            got = ev(conv[tok], env_)
        except (CannotEval, ValueError) as e:
            wrong.append(f"`{s}` ({tok}): {type(e).__name__} {e}")
            continue
        if got != value:
            wrong.append(f"`{s}` is read as {got} (token {tok}, `{unparse(conv[tok])}`), its value is {value}")
    col.check(not wrong, "R01.9", "nsl/lexer.py + nsl/parser.py:: integer constant spellings", f"{len(samples)} sample spellings denote their value",
              "; ".join(wrong[:3]) + ": the order of the lexer's rules / their patterns and the parser's conversions disagree about what a spelling means", "nsl/lexer.py", lx.cls.node)


def run(model, col, tier):
    G = Grammar(model)
    vm = VMModel(model)
    col.note("VM arms", sorted(vm.arms))
    run_R01_1(model, col, G, vm)
    run_R01_2(model, col, G)
    lowering.run_templates(model, col, G, "R01.3")
    # the templates are statements about the blocks as emitted: nothing takes a block out of a function or moves it afterwards
    from .c14 import check_block_list as _cbl13

    _cbl13(model, col, "R01.3")
    lowering.check_scope_tables(model, col, "R01.8")
    run_R01_4(model, col, vm)
    run_R01_5(model, col, vm)
    run_R01_9(model, col, G, vm)
    # a name means the variable of the scope it is used in: nothing in the type pass or in lowering remembers a resolution under
    # a key that leaves the scope out (memo-key completeness, = R12.4)
    from .. import memo as _memo01

    for rel_ in ("nsl/passes/ComputeTypes.py", LOWER, "nsl/types.py"):
        _memo01.check_file(model, col, "R01.8", rel_)
    # R01.6 grouping = the C08 rule set; R01.7 activation state = C03 R03.1/R03.2
    from ..report import Collector

    sub = Collector("C08")
    c08.run(model, sub, "quick")
    for ob in sub.obligations:
        if ob.rule in ("R08.1", "R08.4"):
            ob.rule = "R01.6"
            col.obligations.append(ob)
    sub = Collector("C03")
    c03.run(model, sub, "quick", share=False)
    for ob in sub.obligations:
        if ob.rule in ("R03.1", "R03.2"):
            ob.rule = "R01.7"
            col.obligations.append(ob)
    # comparisons yield int 0/1: exactly the six comparison operations are typed as comparisons (= R09.1; the typing decides
    # whether a following division is the integer one)
    from . import c09 as _c09

    sub = Collector("C09")
    _c09.run(model, sub, "quick")
    for ob in sub.obligations:
        if ob.rule == "R09.1":
            ob.rule = "R01.5"
            col.obligations.append(ob)
