"""C09 Operator typing: accepted operand combinations, result type, conversions."""
from __future__ import annotations

import ast

from ..model import AnalysisError, AnchorMissing, EnumRef, dotted, find_assign, last_attr, unparse
from ..miniev import CannotEval, ev
from ..paths import paths, calls_on_path, cond_atoms
from ..vmmodel import VMModel
from . import c01

TITLE = "operator typing: comparison set, promotion lattice, operand roles, raising paths, guard inventory"
LEVEL = "other"
TYPES = "nsl/types.py"
OP = "nsl/op.py"
CT = "nsl/passes/ComputeTypes.py"
ASTF = "nsl/ast/__init__.py"
EXPLANATION = (
    "The accept/reject table of ResolveBinaryExpressionType is a finite function whose decision is its evaluation and is NOT "
    "decided. Decided are the structural clauses around it: R09.1 IsComparison, folded over the Operation enum, selects exactly "
    "the six CMP_ members, and exactly those map to CMP_/VECTOR_CMP_ opcodes; R09.2 the promotion lattice float > int > uint "
    "(decision table of _GetCommonScalarType over the 3x3 scalar classes) and its application to component types keeping the "
    "left operand's shape; R09.3 operand roles: typing resolves (left type, right type) in that order, the expression's type is "
    "the operator's return type, operand 0/1 are cast to operand type 0/1, every ExpressionType has two operand entries; R09.4 "
    "every path through ResolveBinaryExpressionType ends in `return ExpressionType(...)` or a raise - none falls off the end; "
    "R09.5 the five structural guards are present as path conditions (vector comparison needs equal counts, DIV needs a scalar "
    "right operand, MUL needs matching inner dimensions, the fallback needs equal kinds, scalar*scalar is exempt from the "
    "shape rules); the matrix-product tail is folded over all shapes (r x k) * (k' x c), 1..4 each: rejected unless k = k', "
    "typed rows(left) x columns(right), a vector exactly when that is a single column."
)
NOT_DECIDED = "the accept/result table itself over concrete types (shapes are values); a faithful abstract evaluation would be the concrete one"
ASSUMPTIONS = ["ErrorMessage.Raise never returns"]


def run(model, col, tier):
    # ---------------- R09.1 ------------------------------------------------------
    ops = model.enum_members(OP, "Operation")
    ic = model.func(OP, "IsComparison")
    from ..infra import comparison_members
    sel, want, ic = comparison_members(model)
    col.check(sorted(sel) == want and len(want) == 6, "R09.1", f"{OP}::IsComparison over the Operation enum", f"selects exactly {want}",
              f"IsComparison selects {sorted(sel)}; the comparison operations are {want}: "
              + (f"{sorted(set(want) - set(sel))} are typed as arithmetic (result = operand type instead of int)" if set(want) - set(sel) else f"{sorted(set(sel) - set(want))} are typed as comparisons"), OP, ic)
    maps, fo, _ = c01.scalar_mapping(model)
    for kind, pref in (("scalar", "CMP_"), ("vector", "VECTOR_CMP_")):
        m = maps.get(kind, {})
        cm = {k: v for k, v in m.items() if v.startswith(pref)}
        col.check(sorted(cm) == want and all(v == pref + k[4:] for k, v in cm.items()), "R09.1", f"nsl/LinearIR.py::FromOperation {kind} comparison rows",
                  f"the six comparisons map to {pref}*", f"{kind} mapping sends {cm} to comparison opcodes", "nsl/LinearIR.py", fo)
    rb = model.func(TYPES, "ResolveBinaryExpressionType")
    first_if = next((s for s in rb.body if isinstance(s, ast.If)), None)
    col.check(first_if is not None and "IsComparison(operation)" in unparse(first_if.test), "R09.1", f"{TYPES}::ResolveBinaryExpressionType tests IsComparison first", "comparisons are typed before the arithmetic rules", None, TYPES, rb)
    # ---------------- R09.2 ------------------------------------------------------
    from ..report import Collector

    vm = VMModel(model)
    sub = Collector("C01")
    c01.run_R01_5(model, sub, vm)
    for ob in sub.obligations:
        if "_GetCommonScalarType" in ob.construct:
            ob.rule = "R09.2"
            col.obligations.append(ob)
        elif "AddImplicitCasts" in ob.construct or "v_CastExpression" in ob.construct or "_CreateLinearIRType" in ob.construct:
            ob.rule = "R09.3"
            col.obligations.append(ob)
    gp = model.func(TYPES, "_GetCommonPrimitiveType")
    n_ok = 0
    for evs, status in paths(gp.body):
        if status != "return":
            continue
        rv = evs[-1].node.value
        # (texts below are written with the conventional names; the function's own parameter names are mapped onto them)
        lp9, rp9 = gp.args.args[0].arg, gp.args.args[1].arg
        import re as _re9

        from ..sem import local_env as _le92, rtext as _rt92

        rv_txt = _rt92(rv, {k_: v_ for k_, v_ in _le92(gp).items() if k_ not in (lp9, rp9)})  # single-assignment locals inlined
        t = _re9.sub(rf"\b{_re9.escape(rp9)}\b", "right", _re9.sub(rf"\b{_re9.escape(lp9)}\b", "left", rv_txt)) if {lp9, rp9} != {"left", "right"} else rv_txt
        atoms = cond_atoms(evs)
        if "VectorType(" in t:
            good = "_GetCommonScalarType(left.GetComponentType(), right.GetComponentType())" in t and "left.GetComponentCount()" in t
            n_ok += 1
            col.check(good, "R09.2", f"{TYPES}::_GetCommonPrimitiveType vector case", "common component type, left's component count", f"vector case returns {t[:80]}", TYPES, rv)
        elif "MatrixType(" in t:
            good = "_GetCommonScalarType(left.GetComponentType(), right.GetComponentType())" in t and "left.GetRowCount(), left.GetColumnCount()" in t
            n_ok += 1
            col.check(good, "R09.2", f"{TYPES}::_GetCommonPrimitiveType matrix case", "common component type, left's rows x columns", f"matrix case returns {t[:80]}", TYPES, rv)
        elif "_GetCommonScalarType(left, right)" in t:
            n_ok += 1
            col.ok("R09.2", f"{TYPES}::_GetCommonPrimitiveType scalar case", "delegates to the scalar lattice with (left, right)")
    col.floor("R09.2", "cases of _GetCommonPrimitiveType", n_ok, 3)
    for kind in ("Vector", "Matrix"):
        asserts = [s for s in ast.walk(gp) if isinstance(s, ast.Assert) and unparse(s.test) in (f"{gp.args.args[0].arg}.GetSize() == {gp.args.args[1].arg}.GetSize()", f"{gp.args.args[1].arg}.GetSize() == {gp.args.args[0].arg}.GetSize()")]
        col.check(len(asserts) >= 2, "R09.2", f"{TYPES}::_GetCommonPrimitiveType equal shapes ({kind})", "identical shape is asserted before the common type is built", "the shape equality assertion is missing", TYPES, gp)
    # ---------------- R09.3 ------------------------------------------------------
    # operands are converted wherever the operator sits: the cast pass reaches every expression
    from ..astcover import check_handler_coverage
    from ..dispatch import Dispatch as _Dispatch9

    check_handler_coverage(model, _Dispatch9(model), col, "R09.3", model.cls("nsl/passes/AddImplicitCasts.py", "AddImplicitCastVisitor"), "nsl/passes/AddImplicitCasts.py",
                           "operators below it (in call arguments, constructor arguments, index expressions) never get their operand conversions")
    ctv = model.cls(CT, "ComputeTypeVisitor").own_method("_ProcessExpression")
    from ..sem import alpha as _alpha93

    t = _alpha93(ctv).replace("p0.", "expr.")  # p0 = the expression being typed
    col.check("expr.ResolveType(expr.GetLeft().GetType(), expr.GetRight().GetType())" in t, "R09.3", f"{CT}::_ProcessExpression resolves (left type, right type)", "operand types are handed over in source order",
              "the binary expression is not resolved with (left type, right type) in that order", CT, ctv)
    col.check("expr.SetType(expr.GetOperator().GetReturnType())" in t, "R09.3", f"{CT}::_ProcessExpression result type", "the expression's type is the resolved operator's return type", "the expression's type is not the operator's return type", CT, ctv)
    be = model.cls(ASTF, "BinaryExpression").own_method("ResolveType")
    from ..sem import alpha as _alpha9

    col.check("self._operator = types.ResolveBinaryExpressionType(self.op, p0, p1)" in _alpha9(be), "R09.3", f"{ASTF}::BinaryExpression.ResolveType", "resolves its own operation with (left, right)",
              "BinaryExpression.ResolveType does not pass (own operation, left, right)", ASTF, be)
    et = model.cls(TYPES, "ExpressionType")
    col.check(f"return self._operands[{et.own_method('GetOperandType').args.args[1].arg}]" in unparse(et.own_method("GetOperandType")) and "return self._result" in unparse(et.own_method("GetReturnType")), "R09.3", f"{TYPES}::ExpressionType accessors", "operand i / result are returned as stored", None, TYPES, et.node)
    nets = 0
    for c in ast.walk(rb):
        if isinstance(c, ast.Call) and last_attr(c) == "ExpressionType":
            nets += 1
            ok_ = len(c.args) == 2 and isinstance(c.args[1], ast.List) and len(c.args[1].elts) == 2
            col.check(ok_, "R09.3", f"{TYPES}::ResolveBinaryExpressionType ExpressionType at `{unparse(c.args[0])[:30]}`", "(result, [left operand type, right operand type])",
                      f"`{unparse(c)[:70]}` does not carry exactly two operand types", TYPES, c)
    col.floor("R09.3", "ExpressionType constructions", nets, 8)
    # scalar-on-the-left / scalar-on-the-right roles of MUL
    for evs, status in paths(rb.body):
        if status != "return":
            continue
        atoms = cond_atoms(evs)
        rv = evs[-1].node.value
        if not (isinstance(rv, ast.Call) and last_attr(rv) == "ExpressionType"):
            continue
        ops_ = [unparse(e) for e in rv.args[1].elts] if len(rv.args) == 2 and isinstance(rv.args[1], ast.List) else []
        if atoms.get("left.IsScalar()") is True and atoms.get("operation == op.Operation.MUL") is not False and "resultType" in ops_ and "baseType" in ops_ and atoms.get("op.IsComparison(operation)") is False:
            col.check(ops_ == ["baseType", "resultType"], "R09.3", f"{TYPES}::ResolveBinaryExpressionType scalar * shaped operand roles", "left operand converts to the scalar base type, right to the shaped type",
                      f"operand types are {ops_} although the left operand is the scalar", TYPES, rv)
        if atoms.get("right.IsScalar()") is True and atoms.get("left.IsScalar()") is False and "resultType" in ops_ and "baseType" in ops_ and atoms.get("op.IsComparison(operation)") is False:
            col.check(ops_ == ["resultType", "baseType"], "R09.3", f"{TYPES}::ResolveBinaryExpressionType shaped op scalar operand roles", "left operand converts to the shaped type, right to the scalar base type",
                      f"operand types are {ops_} although the right operand is the scalar", TYPES, rv)
    # ---------------- R09.4 ------------------------------------------------------
    total = 0
    fall = 0
    other = 0
    for evs, status in paths(rb.body):
        total += 1
        if status == "fall":
            fall += 1
        elif status == "return":
            rv = evs[-1].node.value
            if not (isinstance(rv, ast.Call) and last_attr(rv) == "ExpressionType"):
                other += 1
    col.note("R09.4 paths of ResolveBinaryExpressionType", total)
    col.floor("R09.4", "paths through ResolveBinaryExpressionType", total, 10)
    col.check(fall == 0, "R09.4", f"{TYPES}::ResolveBinaryExpressionType never falls off the end", f"all {total} paths return or raise",
              f"{fall} of {total} paths reach the end of the function without returning: the operator is None and the expression is accepted by accident (or crashes later)", TYPES, rb)
    col.check(other == 0, "R09.4", f"{TYPES}::ResolveBinaryExpressionType returns only ExpressionType", "every return builds an ExpressionType", f"{other} paths return something else", TYPES, rb)
    raised = {unparse(c.func.value).split(".")[-1] for c in ast.walk(rb) if isinstance(c, ast.Call) and last_attr(c) == "Raise"}
    for err in ("ERROR_INCOMPATIBLE_TYPES", "ERROR_INVALID_BINARY_EXPRESSION_OPERATION"):
        col.check(err in raised, "R09.4", f"{TYPES}::ResolveBinaryExpressionType raises {err}", "the rejection is reported with this error", f"{err} is never raised: the combinations it covers are accepted or crash", TYPES, rb)
    rz = model.cls("nsl/Errors.py", "ErrorMessage").own_method("Raise")
    col.check(len(rz.body) == 1 and isinstance(rz.body[0], ast.Raise) and "CompileException(self, *args)" in unparse(rz.body[0]), "R09.4", "nsl/Errors.py::ErrorMessage.Raise never returns", "raise CompileException(self, *args)",
              "ErrorMessage.Raise can return: every rejection path would fall through", "nsl/Errors.py", rz)
    # ---------------- R09.5 the shape of a matrix product, folded over all small shapes ------------------------
    fp = fold_matrix_product(model, rb)
    if fp is None:
        col.ok("R09.5", f"{TYPES}::ResolveBinaryExpressionType matrix product shape", "not folded (the product tail is not in a foldable form); the guard inventory below still applies")
    else:
        col.check(not fp[1], "R09.5", f"{TYPES}::ResolveBinaryExpressionType matrix product shape", f"{fp[0]} shape pairs: inner dimensions must agree; rows(left) x columns(right), a vector iff that is one column",
                  "; ".join(fp[1][:3]) + f" ({len(fp[1])} of {fp[0]}): the product has another type than rows(left) x columns(right)", TYPES, rb)
    # ---------------- R09.5 guard inventory --------------------------------------------
    guards = {"vector comparison needs equal component counts": False, "DIV needs a scalar right operand": False, "MUL needs matching inner dimensions": False,
              "fallback needs equal kinds": False, "scalar op scalar is exempt from the shape rules": False}
    from ..sem import local_env as _le95, rtext as _rt95

    env95 = _le95(rb)
    opn9, ln9, rn9 = (a.arg for a in rb.args.args[:3])
    for n in ast.walk(rb):
        if isinstance(n, ast.Assert) and _rt95(n.test, env95).replace(" ", "") in (f"{ln9}.GetComponentCount()=={rn9}.GetComponentCount()", f"{rn9}.GetComponentCount()=={ln9}.GetComponentCount()"):
            guards["vector comparison needs equal component counts"] = True
        if isinstance(n, ast.If):
            t = _rt95(n.test, env95)
            tc = t.replace(" ", "")
            # (canonical form: `if not C: raise .. else: ..` is presented as `if C: .. else: raise ..`; look at both arms)
            raises_body = any(isinstance(c, ast.Call) and last_attr(c) == "Raise" for s in n.body for c in ast.walk(s))
            raises_else = any(isinstance(c, ast.Call) and last_attr(c) == "Raise" for s in n.orelse for c in ast.walk(s))
            if (raises_body and t == f"not {rn9}.IsScalar()") or (raises_else and t == f"{rn9}.IsScalar()"):
                guards["DIV needs a scalar right operand"] = True
            SHL9, SHR9 = f"_GetRowsColumns({ln9})", f"_GetRowsColumns({rn9})"
            # a shape returned as a namedtuple: `.rows` / `.columns` of that result are its positions 0 / 1
            for nt_fields in _namedtuples(model, TYPES).values():
                for i_, fld_ in enumerate(nt_fields):
                    tc = tc.replace(f"{SHL9}.{fld_}", f"{SHL9}[{i_}]").replace(f"{SHR9}.{fld_}", f"{SHR9}[{i_}]")
            if (raises_body and tc in (f"{SHL9}[1]!={SHR9}[0]", f"{SHR9}[0]!={SHL9}[1]")) or (raises_else and tc in (f"{SHL9}[1]=={SHR9}[0]", f"{SHR9}[0]=={SHL9}[1]")):
                guards["MUL needs matching inner dimensions"] = True
            if (raises_body and tc in (f"{ln9}.GetKind()!={rn9}.GetKind()", f"{rn9}.GetKind()!={ln9}.GetKind()")) or (raises_else and tc in (f"{ln9}.GetKind()=={rn9}.GetKind()", f"{rn9}.GetKind()=={ln9}.GetKind()")):
                guards["fallback needs equal kinds"] = True
            if "MUL" in t and "DIV" in t and (f"not ({ln9}.IsScalar() and {rn9}.IsScalar())" in t or f"not ({rn9}.IsScalar() and {ln9}.IsScalar())" in t):
                guards["scalar op scalar is exempt from the shape rules"] = True
    # placement: the DIV guard must be on the DIV path, the MUL guard after both scalar cases
    for g, present in guards.items():
        col.check(present, "R09.5", f"{TYPES}::ResolveBinaryExpressionType guard: {g}", "present as a rejecting path condition", f"the guard `{g}` is gone: combinations the language excludes are typed", TYPES, rb)
    for evs, status in paths(rb.body):
        atoms = cond_atoms(evs)
        if status == "raise" and atoms.get(f"{rn9}.IsScalar()") is False and atoms.get(f"{opn9} == op.Operation.DIV") is True:
            col.ok("R09.5", f"{TYPES}::ResolveBinaryExpressionType DIV guard is on the DIV path", "a non-scalar right operand of / raises")
            break
    else:
        col.bad("R09.5", f"{TYPES}::ResolveBinaryExpressionType DIV guard is on the DIV path", "no rejecting path has (operation == DIV, right operand not scalar)", TYPES, rb)
    # ---------------- R09.6 identical shapes on the component-wise tail ------------------
    # (+ - % && ||): an accepting path either established `left == right` or builds its types with
    # _GetCommonPrimitiveType(left, right), which asserts equal sizes (R09.2)
    ntail = 0
    for evs, status in paths(rb.body):
        if status != "return":
            continue
        taken = [unparse(e.node) for e in evs if e.kind == "cond" and e.val]
        if any("IsComparison" in t_ or "Operation.MUL" in t_ or "Operation.DIV" in t_ for t_ in taken):
            continue
        ntail += 1
        atoms = cond_atoms(evs)
        eq = atoms.get(f"{ln9} == {rn9}") is True or atoms.get(f"{rn9} == {ln9}") is True
        common = any(last_attr(c) == "_GetCommonPrimitiveType" and [unparse(a) for a in c.args] in ([ln9, rn9], [rn9, ln9]) for c in calls_on_path(evs))
        rv = evs[-1].node
        col.check(eq or common, "R09.6", f"{TYPES}::ResolveBinaryExpressionType component-wise tail `{' '.join(unparse(rv).split())[:50]}`",
                  "the operands are equal types, or the common type is built by _GetCommonPrimitiveType (asserts identical shape)",
                  f"the accepting path under {[t_[:50] for t_ in taken]} neither requires `left == right` nor builds the common type of (left, right): two vectors or matrices of different shape are accepted", TYPES, rv)
    col.floor("R09.6", "accepting paths of the component-wise tail", ntail, 2)
    grc = model.func(TYPES, "_GetRowsColumns")
    t = " ".join(unparse(grc).split())
    for nt_name in _namedtuples(model, TYPES):
        t = t.replace(f"{nt_name}(", "(")  # a shape wrapped in a namedtuple is the same pair
    t = t.replace("(", "").replace(")", "")
    pt9 = grc.args.args[0].arg
    col.check(f"return {pt9}.GetSize[0], 1" in t and "return 1, 1" in t and f"return {pt9}.GetSize" in t, "R09.5", f"{TYPES}::_GetRowsColumns", "matrix -> (rows, cols), vector -> (n, 1), scalar -> (1, 1)", "the shapes used by the MUL rule changed", TYPES, grc)
    check_builtin_names(model, col, "R09.7")


def fold_matrix_product(model, rb):
    """The tail of ResolveBinaryExpressionType that types `matrix * matrix|vector` (everything from the statement that reads
    the shapes with _GetRowsColumns), folded over all shapes (r x k) * (k' x c) with r, k, k', c in 1..4.
    -> (number folded, [counter-examples]) or None if the tail is not foldable."""
    import itertools

    from ..miniev import CannotEval, Sample, run_block, run_pure

    opn, ln, rn = (a.arg for a in rb.args.args[:3])
    tail = None
    for n in ast.walk(rb):
        for fld in ("body", "orelse"):
            blk = getattr(n, fld, None)
            if not isinstance(blk, list):
                continue
            for i, st in enumerate(blk):
                if isinstance(st, ast.Assign) and isinstance(st.value, ast.Call) and last_attr(st.value) == "_GetRowsColumns" and st.value.args and unparse(st.value.args[0]) == ln:
                    tail = blk[i:]
    if tail is None:
        return None

    class Signal(Exception):
        pass

    calls = {}
    for name, f in model.file(TYPES).functions.items():
        calls[name] = (lambda *a, f=f: run_pure(f, list(a), calls))
    for c in ast.walk(rb):
        if isinstance(c, ast.Call) and last_attr(c) == "Raise" and isinstance(c.func, ast.Attribute):
            nm = unparse(c.func.value).split(".")[-1]

            def mk(nm=nm):
                def raiser(*a):
                    raise Signal(nm)
                return raiser

            calls[unparse(c.func)] = mk()
    calls["VectorType"] = lambda ct, n: ("vector", ct, n)
    calls["MatrixType"] = lambda ct, r, c: ("matrix", ct, r, c)
    calls["ExpressionType"] = lambda t, ops=None: ("expr", t, ops)
    bad = []
    n = 0
    for r, k, k2, c in itertools.product((1, 2, 3, 4), repeat=4):
        shapes = {"L": (r, k), "R": (k2, c)}
        calls["_GetRowsColumns"] = lambda s: shapes[s.label]
        L = Sample("L", {"WithComponentType": lambda ct: ("L", ct), "IsScalar": False})
        R = Sample("R", {"WithComponentType": lambda ct: ("R", ct), "IsScalar": False})
        env = {ln: L, rn: R, opn: "MUL", "baseType": "T"}
        try:
            out = run_block(tail, env, calls)
            got = ("return", out.get("$return")) if out.get("$return") is not None else ("fell through", None)
        except Signal as sg:
            got = ("error", str(sg))
        except CannotEval:
            return None
        except Exception:
            return None
        n += 1
        if k != k2:
            ok = got[0] == "error" and "INVALID_BINARY" in got[1]
            want = "the invalid-operation error"
        else:
            want_t = ("vector", "T", r) if c == 1 else ("matrix", "T", r, c)
            ok = got[0] == "return" and isinstance(got[1], tuple) and got[1][:2] == ("expr", want_t)
            want = f"{want_t}"
        if not ok:
            bad.append(f"({r}x{k}) * ({k2}x{c}): {got[0]} {got[1]}, expected {want}")
    return n, bad


def _namedtuples(model, rel):
    """{class name: [field names]} of the namedtuple classes a module defines at top level"""
    out = {}
    for name, v in model.file(rel).assigns.items():
        if isinstance(v, ast.Call) and (last_attr(v) or (v.func.id if isinstance(v.func, ast.Name) else "")) in ("namedtuple", "NamedTuple") and len(v.args) >= 2:
            f = v.args[1]
            if isinstance(f, ast.Constant) and isinstance(f.value, str):
                out[name] = f.value.replace(",", " ").split()
            elif isinstance(f, (ast.List, ast.Tuple)) and all(isinstance(e, ast.Constant) for e in f.elts):
                out[name] = [e.value for e in f.elts]
    return out


def check_builtin_names(model, col, rule):
    """The type a source name denotes is the type of that name: every row `"<base><n>": VectorType(Base(), n)` /
    `"<base><r>x<c>"`: MatrixType(Base(), r, c)` of BuiltinTypeFactory agrees with its key (spelling of the component type as
    the type class reports it, `matrix` being the alias of float matrices; the numbers of the key are the shape)."""
    import re

    btf = model.func(TYPES, "BuiltinTypeFactory")
    tbl = next((n.value for n in ast.walk(btf) if isinstance(n, ast.Assign) and isinstance(n.value, ast.Dict)), None)
    if tbl is None:
        # the table may live at module level
        for r in ast.walk(btf):
            if isinstance(r, ast.Subscript) and isinstance(r.value, ast.Name):
                cand = model.module_assign(TYPES, r.value.id)
                if isinstance(cand, ast.Dict):
                    tbl = cand
    if tbl is None:
        raise AnchorMissing(f"{TYPES}::BuiltinTypeFactory table")

    def base_name(call):
        if not (isinstance(call, ast.Call) and not call.args):
            return None
        ci = model.resolve_class_expr(TYPES, call.func)
        m = ci.find_method("GetName") if ci is not None else None
        if m is None:
            return None
        rets = [r.value for r in ast.walk(m[1]) if isinstance(r, ast.Return)]
        return rets[0].value if len(rets) == 1 and isinstance(rets[0], ast.Constant) else None

    n = 0
    for k, v in zip(tbl.keys, tbl.values):
        if not (isinstance(k, ast.Constant) and isinstance(k.value, str)):
            continue
        n += 1
        key = k.value
        nums = [int(x) for x in re.findall(r"\d+", key)]
        word = re.match(r"[a-z]+", key).group(0) if re.match(r"[a-z]+", key) else ""
        got = None
        if isinstance(v, ast.Call):
            ci = model.resolve_class_expr(TYPES, v.func)
            cname = ci.name if ci is not None else None
            ints = [a.value for a in v.args[1:] if isinstance(a, ast.Constant) and isinstance(a.value, int)]
            if cname == "VectorType" and len(v.args) == 2:
                got = (base_name(v.args[0]), ints, "vector")
            elif cname == "MatrixType" and len(v.args) == 3:
                got = (base_name(v.args[0]), ints, "matrix")
            elif not v.args:
                got = (base_name(v), [], "scalar")
        ok = got is not None and got[0] is not None and nums == got[1] and (word == got[0] or (got[2] == "matrix" and word == "matrix" and got[0] == "float")) \
            and {"scalar": 0, "vector": 1, "matrix": 2}[got[2]] == len(nums)
        col.check(ok, rule, f"{TYPES}::BuiltinTypeFactory row '{key}'", f"`{key}` denotes {got[2] if got else '?'} of {got[0] if got else '?'} {got[1] if got else ''}",
                  f"the source name `{key}` is bound to `{unparse(v)}`: a variable declared `{key}` has another component type or shape than its name says, so every rule about "
                  "operand shapes and conversions is applied to the wrong type", TYPES, v)
    col.floor(rule, "builtin type names", n, 17)
    check_self_typed(model, col, rule)
    check_literal_types(model, col, rule)
    check_shape_preserving_copies(model, col, rule)


def check_self_typed(model, col, rule):
    """Expression classes whose constructor receives the node's type (casts, constructor calls, literals) keep it: no path of
    the type pass's expression walk that such a node can take (isinstance tests folded over the class hierarchy, every other
    test open) assigns it another type."""
    ASTF_ = "nsl/ast/__init__.py"
    CT_ = "nsl/passes/ComputeTypes.py"
    from ..sem import expand_helpers

    ctv = model.cls(CT_, "ComputeTypeVisitor")
    pe0 = ctv.own_method("_ProcessExpression")
    pe = expand_helpers(model, ctv, pe0)
    ep = pe.args.args[1].arg
    base = model.cls(ASTF_, "Expression")
    n = 0
    for ci in model.subclasses(base, strict=True):
        init = ci.methods.get("__init__")
        if init is None or ci.file != ASTF_:
            continue
        ps = {a.arg for a in init.args.args[1:]}
        selfn = init.args.args[0].arg
        if not any(isinstance(c, ast.Call) and last_attr(c) == "SetType" and isinstance(c.func, ast.Attribute) and unparse(c.func.value) == selfn and c.args and isinstance(c.args[0], ast.Name) and c.args[0].id in ps
                   for c in ast.walk(init)):
            continue
        n += 1
        names = {c.name for c in ci.mro}

        def fold(t, names=names):
            if isinstance(t, ast.Call) and isinstance(t.func, ast.Name) and t.func.id == "isinstance" and len(t.args) == 2 and unparse(t.args[0]) == ep:
                alts = []
                stack = [t.args[1]]
                while stack:
                    e = stack.pop()
                    if isinstance(e, ast.BinOp) and isinstance(e.op, ast.BitOr):
                        stack += [e.left, e.right]
                    elif isinstance(e, ast.Tuple):
                        stack += list(e.elts)
                    else:
                        alts.append(unparse(e).split(".")[-1])
                return any(a in names for a in alts)
            if isinstance(t, ast.BoolOp):
                vals = [fold(v) for v in t.values]
                if isinstance(t.op, ast.And):
                    return False if any(v is False for v in vals) else (True if all(v is True for v in vals) else None)
                return True if any(v is True for v in vals) else (False if all(v is False for v in vals) else None)
            if isinstance(t, ast.UnaryOp) and isinstance(t.op, ast.Not):
                v = fold(t.operand)
                return None if v is None else not v
            return None

        retyped = None
        for evs, status in paths(pe.body, fold=fold):
            for c in calls_on_path(evs):
                if last_attr(c) == "SetType" and isinstance(c.func, ast.Attribute) and unparse(c.func.value) == ep:
                    retyped = retyped or c
        col.check(retyped is None, rule, f"{CT_}::_ProcessExpression leaves the type of {ci.name} alone", f"a {ci.name} keeps the type its constructor was given",
                  f"a {ci.name} can reach `{' '.join(unparse(retyped).split())[:60] if retyped is not None else ''}`: the type written in the source (the constructor's / cast's target, the literal's type) "
                  "is replaced, so operators and overloads are resolved against another type than the expression has", CT_, retyped if retyped is not None else pe0)
    col.floor(rule, "expression classes typed by their constructor", n, 3)


def check_literal_types(model, col, rule):
    """A literal's type is decided by how it is converted from the token text: int(..) -> Integer, float(..) -> Float."""
    from ..grammar import PARSER as _PARSER, Grammar as _Grammar

    want = {"int": "Integer", "float": "Float"}
    n = 0
    # (through the grammar model: actions are read with the parser's private statement helpers in place)
    seen_funcs = {}
    for P in _Grammar(model).productions:
        seen_funcs.setdefault(P.func.name, P.func)
    for c in [x for f_ in seen_funcs.values() for x in ast.walk(f_)]:
        conv = (last_attr(c.args[0]) or "").lower() if isinstance(c, ast.Call) and last_attr(c) == "LiteralExpression" and len(c.args) == 2 and isinstance(c.args[0], ast.Call) else ""
        conv = "float" if "float" in conv else conv
        if conv in want:
            n += 1
            t = c.args[1]
            tn = last_attr(t) if isinstance(t, ast.Call) else None
            col.check(tn == want[conv] and not t.args, rule, f"{_PARSER}:: literal built with {conv}(..) at `{' '.join(unparse(c.args[0]).split())[:30]}`",
                      f"typed {want[conv]}", f"`{' '.join(unparse(c).split())[:80]}`: the literal is typed `{unparse(t)}`: the spelling of a constant (hex, octal, exponent) changes the "
                      "type of every expression it takes part in and the overload a call with it selects", _PARSER, c)
    col.floor(rule, "literal constructions in the parser", n, 4)


def check_shape_preserving_copies(model, col, rule):
    """`WithComponentType` returns the same shape with another component type: every shape argument of the copy is the field
    the constructor stored that same parameter in."""
    n = 0
    for ci in model.classes.values():
        if ci.file != TYPES or "WithComponentType" not in ci.methods or "__init__" not in ci.methods:
            continue
        init, w = ci.methods["__init__"], ci.methods["WithComponentType"]
        params = [a.arg for a in init.args.args[1:]]
        selfn = init.args.args[0].arg
        # field expression -> constructor parameter
        fmap = {}
        for x in ast.walk(init):
            if isinstance(x, ast.Assign) and isinstance(x.targets[0], ast.Attribute) and isinstance(x.targets[0].value, ast.Name) and x.targets[0].value.id == selfn:
                fld = x.targets[0].attr
                if isinstance(x.value, ast.Name) and x.value.id in params:
                    fmap[f"self.{fld}"] = x.value.id
                elif isinstance(x.value, ast.Tuple):
                    for i, e in enumerate(x.value.elts):
                        if isinstance(e, ast.Name) and e.id in params:
                            fmap[f"self.{fld}[{i}]"] = e.id

        def origin(e, depth=0):
            t = unparse(e).replace(w.args.args[0].arg + ".", "self.", 1) if unparse(e).startswith(w.args.args[0].arg + ".") else unparse(e)
            if t in fmap:
                return fmap[t]
            if isinstance(e, ast.Call) and isinstance(e.func, ast.Attribute) and not e.args and depth < 3:
                g = ci.find_method(e.func.attr)
                if g is not None:
                    rets = [r.value for r in ast.walk(g[1]) if isinstance(r, ast.Return) and r.value is not None]
                    if len(rets) == 1:
                        return origin(rets[0], depth + 1)
            if isinstance(e, ast.Subscript) and isinstance(e.slice, ast.Constant) and depth < 3:
                inner = e.value
                if isinstance(inner, ast.Call) and isinstance(inner.func, ast.Attribute) and not inner.args:
                    g = ci.find_method(inner.func.attr)
                    rets = [r.value for r in ast.walk(g[1]) if isinstance(r, ast.Return) and r.value is not None] if g is not None else []
                    if len(rets) == 1:
                        return origin(ast.Subscript(value=rets[0], slice=e.slice, ctx=ast.Load()), depth + 1)
            return None

        for r in [x.value for x in ast.walk(w) if isinstance(x, ast.Return) and isinstance(x.value, ast.Call)]:
            rc = model.resolve_class_expr(TYPES, r.func)
            if rc is not ci:
                continue
            n += 1
            wrong = []
            for p, a in list(zip(params, r.args))[1:] + [(k.arg, k.value) for k in r.keywords if k.arg in params[1:]]:
                o = origin(a)
                if o is not None and o != p:
                    wrong.append(f"{p} <- {' '.join(unparse(a).split())} (which holds `{o}`)")
            col.check(not wrong, rule, f"{TYPES}::{ci.name}.WithComponentType keeps the shape", "each shape argument of the copy is the field of the same constructor parameter",
                      f"{wrong}: converting the component type of a {ci.name} (implicit promotion of an operand) also changes its shape, so results of mixed-type operations get another "
                      "shape than the defined one", TYPES, r)
    col.floor(rule, "shape-preserving copies", n, 2)
