"""C19 Wasm writer: integers, names and section sizes decode to what was written."""
from __future__ import annotations

import ast

from ..model import AnalysisError, AnchorMissing, dotted, find_assign, last_attr, unparse
from ..paths import paths
from ..wasmmodel import Terms, WA, norm

TITLE = "LEB128 signed/unsigned positions, names, size fields"
LEVEL = "other"
GEN = "nsl/passes/GenerateWasm.py"
EXPLANATION = (
    "R19.1 every integer write site of the writer is classified: counts, sizes and indices must use the unsigned encoding "
    "(no signed flag), i32.const immediates the signed one, selected by the instruction's opcode; one encoding for both is a "
    "violation by construction (unsigned LEB128 of 64 is 40, signed is C0 00). R19.2 every size field is uleb(len(X)) directly "
    "followed by bytes(X) of the same buffer (= R07.2). R19.3 names are written as uleb(len(b)) bytes(b) with b the UTF-8 "
    "encoding. R19.4 the shape of both encoder loops: 7 value bits per byte, continuation bit on all but the last byte, "
    "termination on the remaining value (and, signed, on the sign bit of the last group); no raise/assert whose guard is "
    "decidable from (value, signed) is taken for a boundary value of the signed or unsigned 32-bit range. R19.2 also: the "
    "Instruction constructor, folded over the argument shapes its call sites use, stores every immediate it is given. "
    "R19.5 the writer is a function of its arguments (no import-time state, no one-shot iterators in fields)."
)
NOT_DECIDED = "that the encoder's arithmetic is right for every integer of the range (a statement about values; R19.4 checks the loops' shape only)"
ASSUMPTIONS = ["LEB128 as defined by the WebAssembly 1.0 binary format"]


def check_signed(model, col, rule):
    """R19.1: signed vs unsigned positions."""
    wi = model.func(WA, "WriteInteger")
    pi = model.func(WA, "PackInteger")
    wparams = [a.arg for a in wi.args.args]
    pparams = [a.arg for a in pi.args.args]
    has_signed = len(pparams) >= 2 or any(isinstance(c, ast.Call) and "igned" in (last_attr(c) or "") for c in ast.walk(wi))
    signed_fns = [f for f in model.file(WA).functions if "igned" in f and f.startswith(("Pack", "Write"))]
    # sites
    sites = []
    for cls in model.classes.values():
        if cls.file != WA:
            continue
        for m in cls.methods.values():
            for c in ast.walk(m):
                if isinstance(c, ast.Call) and last_attr(c) in ("WriteInteger", "WriteSignedInteger", "PackInteger", "PackSignedInteger"):
                    sites.append((cls, m, c))
    for fn in model.file(WA).functions.values():
        if fn.name in ("WriteInteger", "PackInteger", "WriteSignedInteger", "PackSignedInteger"):
            continue
        for c in ast.walk(fn):
            if isinstance(c, ast.Call) and last_attr(c) in ("WriteInteger", "WriteSignedInteger", "PackInteger", "PackSignedInteger"):
                sites.append((None, fn, c))
    col.floor(rule, "integer write sites", len(sites), 15)
    nuns = 0
    imm_sites = []
    for cls, m, c in sites:
        owner = (cls.name + "." if cls else "") + m.name
        val = c.args[1] if last_attr(c).startswith("Write") and len(c.args) > 1 else (c.args[0] if c.args else None)
        sg = None
        if last_attr(c) in ("WriteSignedInteger", "PackSignedInteger"):
            sg = "True"
        else:
            extra = c.args[2:] if last_attr(c).startswith("Write") else c.args[1:]
            if extra:
                sg = norm(extra[0])
            for k in c.keywords:
                if k.arg == "signed":
                    sg = norm(k.value)
        if cls is not None and cls.name == "Instruction":
            imm_sites.append((m, c, sg))
            continue
        nuns += 1
        col.check(sg in (None, "False"), rule, f"{WA}::{owner} writes {norm(val)[:40]} unsigned",
                  "a count/size/index is written as unsigned LEB128",
                  f"`{norm(c)}` writes a count/size/index with signed={sg}: an unsigned decoder reads another value for anything >= 64", WA, c)
    ins = model.cls(WA, "Instruction").own_method("WriteTo")
    if not imm_sites:
        col.bad(rule, f"{WA}::Instruction.WriteTo immediates", "no integer write found for instruction immediates", WA, ins)
    for m, c, sg in imm_sites:
        key = f"{WA}::Instruction.WriteTo immediates"
        if sg in (None, "False"):
            col.bad(rule, key, "instruction immediates go through the same unsigned packing as sizes and indices; i32.const immediates are signed LEB128 "
                    "(64 is written as 0x40, which decodes as -64; no single function of the value yields both encodings)", WA, c)
            continue
        src = sg
        v = find_assign(m, sg) if sg.isidentifier() else []
        if v:
            src = norm(v[-1])
        dep = "i32.const" in src and "opcode" in src
        col.check(dep or src == "True" and False, rule, key, f"signed encoding is selected by `{src}`",
                  f"the signed flag is `{src}`: it must be true exactly for the i32.const opcode (indices such as local.get's stay unsigned)", WA, c)
        if dep:
            eq = "==" in src and "!=" not in src and "not " not in src
            col.check(eq, rule, key + " polarity", "signed iff opcode == i32.const", f"`{src}` selects the signed encoding for the wrong opcodes", WA, c)
    # the generator hands constants to i32.const and indices to local.get/set
    gc = model.func(GEN, "_GenerateConstant")
    ints = [c for c in ast.walk(gc) if isinstance(c, ast.Call) and last_attr(c) == "Instruction" and "i32.const" in unparse(c)]
    col.check(bool(ints) and f"{gc.args.args[0].arg}.Value" in unparse(ints[0]), rule, f"{GEN}::_GenerateConstant", "integer constants become i32.const with the value as immediate", None, GEN, gc)
    return has_signed


def run(model, col, tier):
    check_signed(model, col, "R19.1")
    # ---------------- R19.2 ------------------------------------------------------
    from . import c07
    from ..report import Collector

    sub = Collector("C07")
    c07.check_framing(model, sub, "R19.2")
    for ob in sub.obligations:
        if any(k in ob.construct for k in ("framing", "payload", "items", "Code.Encode")):
            col.obligations.append(ob)
    # an instruction is its opcode byte followed by its immediates, all written to the same stream
    insw = model.cls(WA, "Instruction").own_method("WriteTo")
    ti = Terms(model, insw)
    oi = ti.out(insw.args.args[1].arg)
    shape_ok = len(oi) == 2 and oi[0][0] == "byte" and oi[0][1].endswith("opcode") and oi[1][0] == "if" and oi[1][1].endswith("args") and not oi[1][3] \
        and len(oi[1][2]) == 1 and oi[1][2][0][0] == "each" and oi[1][2][0][1] == oi[1][1] and len(oi[1][2][0][3]) == 1 and oi[1][2][0][3][0][0] == "leb" and oi[1][2][0][3][0][1] == oi[1][2][0][2]
    if not shape_ok and len(oi) == 2 and oi[0][0] == "byte" and oi[1][0] == "each":
        # unguarded loop over the immediates (an empty list writes nothing): equivalent
        shape_ok = oi[0][1].endswith("opcode") and oi[1][1].endswith("args") and len(oi[1][3]) == 1 and oi[1][3][0][0] == "leb" and oi[1][3][0][1] == oi[1][2]
    streams_ok = len(ti.buffers) == 1
    if not streams_ok and set(ti.buffers) == {insw.args.args[1].arg, "$guard"}:
        # `if not self.__args: return` after the opcode byte was written is the guarded loop spelled as an early exit
        body_ = [s for s in insw.body if not (isinstance(s, ast.Expr) and isinstance(s.value, ast.Constant))]
        i_op = next((i for i, s in enumerate(body_) if any(isinstance(c, ast.Call) and any("opcode" in unparse(a) for a in c.args) for c in ast.walk(s))), None)
        guards = [(i, s) for i, s in enumerate(body_) if isinstance(s, ast.If) and len(s.body) == 1 and isinstance(s.body[0], ast.Return) and not s.orelse]
        streams_ok = i_op is not None and bool(guards) and all(i > i_op and isinstance(s.test, ast.UnaryOp) and isinstance(s.test.op, ast.Not) and unparse(s.test.operand).endswith("args") for i, s in guards)
    col.check(shape_ok and streams_ok, "R19.2", f"{WA}::Instruction.WriteTo", "byte(opcode) then uleb/sleb(arg) for each immediate, to the output stream",
              f"an instruction is written as {oi} (streams {sorted(ti.buffers)}); expected its opcode byte followed by each immediate", WA, insw)
    check_immediates_kept(model, col, "R19.2")
    # ---------------- R19.3 ------------------------------------------------------
    ws = model.func(WA, "WriteString")
    t = Terms(model, ws)
    o = t.out(ws.args.args[0].arg)
    ok = len(o) == 2 and o[0][0] == "leb" and o[1][0] == "bytes" and (o[0][1] == f"len({o[1][1]})" or t.resolve(o[0][1]) == f"len({o[1][1]})") and not o[0][2]
    src = t.resolve(o[1][1]) if ok else ""
    col.check(ok and src == f"PackString({ws.args.args[1].arg})", "R19.3", f"{WA}::WriteString", "uleb(len(b)) bytes(b) with b = PackString(s)",
              f"a name is written as {[(i[0], i[1]) for i in o]} with b = `{src}`: the length prefix must count the encoded bytes that follow", WA, ws)
    ps = model.func(WA, "PackString")
    r = [norm(x.value) for x in ast.walk(ps) if isinstance(x, ast.Return)]
    col.check(r in ([f"{ps.args.args[0].arg}.encode('utf-8')"], [f"{ps.args.args[0].arg}.encode()"], [f"{ps.args.args[0].arg}.encode('utf8')"]), "R19.3", f"{WA}::PackString",
              "names are UTF-8 encoded", f"names are encoded as {r}", WA, ps)
    ex = model.cls(WA, "Export").own_method("WriteTo")
    tex = Terms(model, ex)
    oex = tex.out(ex.args.args[1].arg)
    named = bool(oex) and (oex[0][0] == "name" or (len(oex) >= 2 and oex[0][0] == "leb" and oex[1][0] == "bytes" and oex[0][1] == f"len({oex[1][1]})" and not oex[0][2]
                                                     and tex.resolve(oex[1][1]).startswith("PackString(")))
    col.check(named, "R19.3", f"{WA}::Export.WriteTo uses WriteString", "the export name is written as uleb(byte length) + UTF-8 bytes (WriteString, or the same spelled out)",
              f"the export entry starts with {[(i[0], i[1]) for i in oex[:2]]}: not a length-prefixed UTF-8 name", WA, ex)
    check_encoder_shape(model, col, "R19.4")
    # ---------------- R19.5 the encoder is a function of its arguments -------------------
    # no module- or class-level container in nsl/WebAssembly.py is written after import (a memo keyed by value would hand the
    # unsigned bytes of an earlier write to a signed immediate)
    from . import c18

    sub = Collector("C18")
    c18.run(model, sub, "quick")
    n5 = 0
    for ob in sub.obligations:
        if ob.rule == "R18.2" and "WebAssembly" in ob.construct:
            ob.rule = "R19.5"
            col.obligations.append(ob)
            n5 += 1
    if n5 == 0:
        col.ok("R19.5", f"{WA}:: no module-level or class-level mutable state", "the writer module binds no mutable object at import time")
    # a body / section is serialised more than once (once to measure its size, once to emit it): what an object writes must
    # not depend on how often it was written.  A field bound to a one-shot iterator is empty the second time.
    from ..infra import one_shot_fields

    probe = ast.parse("class K:\n    def __init__(self, a):\n        self.a = map(int, a) if a else None\n").body[0]
    if len(one_shot_fields(probe)) != 1:
        raise AnalysisError("R19.5: the one-shot-iterator detector does not fire on its positive example")
    ncls = 0
    for ci in model.classes.values():
        if ci.file != WA:
            continue
        ncls += 1
        shots = one_shot_fields(ci.node)
        col.check(not shots, "R19.5", f"{WA}::{ci.name} writes the same bytes every time", "no field holds a one-shot iterator",
                  f"{[(f, mk) for f, mk, _ in shots]}: the field is an iterator that is exhausted by the first WriteTo; a second serialisation of the same object (size measurement, then emission) "
                  "writes nothing for it, so the size field and the payload disagree", WA, shots[0][2] if shots else ci.node)
    col.floor("R19.5", "writer classes", ncls, 8)
    check_vectors(model, col, "R19.2")


def check_immediates_kept(model, col, rule):
    """Every immediate handed to Instruction(..) is in the sequence WriteTo iterates.  The constructor is folded over the
    argument shapes its call sites use (a display of immediates; a bare number) with the values 0 and 7: what it stores must
    list exactly those values."""
    from ..miniev import CannotEval, ev
    from ..sem import local_env, resolve

    ic = model.cls(WA, "Instruction")
    init, wt = ic.own_method("__init__"), ic.own_method("WriteTo")
    if init is None or wt is None or len(init.args.args) < 3:
        raise AnchorMissing("Instruction.__init__(self, opcode, args)")
    oname, pname = init.args.args[1].arg, init.args.args[2].arg
    loops = [n for n in ast.walk(wt) if isinstance(n, ast.For) and isinstance(n.iter, ast.Attribute) and isinstance(n.iter.value, ast.Name) and n.iter.value.id == "self"]
    if len(loops) != 1:
        col.ok(rule, f"{WA}::Instruction keeps its immediates", "not decided: WriteTo does not iterate one field of the instruction")
        return
    field = "self." + loops[0].iter.attr
    # what is written for an immediate is the immediate: the loop variable reaches the packer as it is (not clamped, masked
    # or otherwise re-bound on the way)
    lv_ = loops[0].target.id if isinstance(loops[0].target, ast.Name) else None
    reb_ = [n for s_ in loops[0].body for n in ast.walk(s_) if isinstance(n, (ast.Assign, ast.AugAssign)) and any(isinstance(t, ast.Name) and t.id == lv_ for t in (n.targets if isinstance(n, ast.Assign) else [n.target]))]
    wr_ = [c for s_ in loops[0].body for c in ast.walk(s_) if isinstance(c, ast.Call) and last_attr(c) in ("WriteInteger", "WriteSignedInteger", "PackInteger", "PackSignedInteger")]
    passed_ = all(any(isinstance(a, ast.Name) and a.id == lv_ for a in c.args) for c in wr_)
    col.check(lv_ is not None and not reb_ and bool(wr_) and passed_, rule, f"{WA}::Instruction.WriteTo writes each immediate as it is", f"`{lv_}` is handed to the packer unchanged",
              (f"`{' '.join(unparse(reb_[0]).split())[:70]}` changes the immediate before it is written" if reb_ else "the packer is not given the loop variable") +
              ": the constant in the module is not the constant of the program (the VM computes with the original)", WA, reb_[0] if reb_ else wt)
    sites, seen = [], set()
    for rel, fi in model.files.items():
        if not rel.startswith("nsl/"):
            continue
        for f in ast.walk(fi.tree):
            if not isinstance(f, (ast.FunctionDef, ast.AsyncFunctionDef)):
                continue
            lenv = None
            for c in ast.walk(f):
                if not (isinstance(c, ast.Call) and last_attr(c) == "Instruction" and id(c) not in seen and model.resolve_class_expr(rel, c.func) is ic):
                    continue
                seen.add(id(c))
                a = c.args[1] if len(c.args) > 1 else next((k.value for k in c.keywords if k.arg == pname), None)
                if isinstance(a, ast.Name):
                    lenv = lenv if lenv is not None else local_env(f)
                    a = resolve(a, lenv)
                if a is None or (isinstance(a, ast.Constant) and a.value is None):
                    shape = "none"
                elif isinstance(a, (ast.Tuple, ast.List)):
                    shape = "seq"
                elif (isinstance(a, ast.Constant) and isinstance(a.value, (int, float))) or (isinstance(a, ast.Attribute) and a.attr == "Value"):
                    shape = "bare"
                else:
                    shape = "unknown"
                sites.append((rel, f, c, shape))
    col.floor(rule, "Instruction constructions", len(sites), 8)
    col.note("Instruction argument shapes", sorted({s[3] for s in sites}))

    def fold(sample):
        for evs, status in paths(init.body):
            env = {oname: 0x41, pname: sample}
            feasible = True
            for e in evs:
                if e.kind == "stmt" and isinstance(e.node, ast.Assign) and len(e.node.targets) == 1:
                    t = e.node.targets[0]
                    v = ev(e.node.value, env)
                    if isinstance(t, ast.Name):
                        env[t.id] = v
                    elif isinstance(t, ast.Attribute) and isinstance(t.value, ast.Name) and t.value.id == "self":
                        env["self." + t.attr] = v
                    else:
                        raise CannotEval("target")
                elif e.kind == "cond":
                    if bool(ev(e.node, env)) != bool(e.val):
                        feasible = False
                        break
                elif e.kind == "stmt" and isinstance(e.node, ast.Expr) and isinstance(e.node.value, ast.Constant):
                    continue
                elif e.kind in ("stmt", "loop", "raise"):
                    raise CannotEval(e.kind)
            if feasible:
                if field not in env:
                    raise CannotEval("field not stored")
                return env[field]
        raise CannotEval("no feasible path")

    shapes = {s[3] for s in sites}
    cases = [("a display of immediates", (0,), [0]), ("a display of immediates", (7,), [7]), ("a display of immediates", (0, 3), [0, 3])]
    if "bare" in shapes:
        cases += [("a bare number", 0, [0]), ("a bare number", 7, [7])]
    bad, undecided = [], []
    for what, sample, want in cases:
        try:
            got = fold(sample)
        except CannotEval as ex:
            undecided.append(f"{sample!r}: {ex}")
            continue
        try:
            lst = list(got) if got is not None else []
        except TypeError:
            lst = None
        if lst != want:
            bad.append((what, sample, got))
    where = next((s for s in sites if s[3] == "bare"), sites[0])
    col.check(not bad, rule, f"{WA}::Instruction keeps its immediates", f"{len(sites)} constructions ({', '.join(sorted(shapes))}); the constructor stores every immediate it is given"
              + (f"; not folded: {undecided}" if undecided else ""),
              f"Instruction(op, {bad[0][1]!r}) ({bad[0][0]}, as `{' '.join(unparse(where[2]).split())[:70]}` in {where[0]} passes it) stores {bad[0][2]!r}: WriteTo iterates that, so the immediate "
              f"{bad[0][1] if not isinstance(bad[0][1], tuple) else bad[0][1][0]} is not written after the opcode" if bad else None, where[0] if bad else WA, where[2] if bad else init)


def check_vectors(model, col, rule):
    """vec(T) = count, then exactly `count` items: wherever a method writes `len(X)` as a count, (a) that write does not depend
    on X being non-empty (the empty vector is the count 0, not nothing and not another byte), and (b) the loop over X in the
    same method writes every element (no `continue` / `break` / write under a condition on the element)."""
    fi = model.file(WA)
    parents = {}
    for p in ast.walk(fi.tree):
        for ch in ast.iter_child_nodes(p):
            parents[id(ch)] = p
    n = 0
    for f in [x for x in ast.walk(fi.tree) if isinstance(x, ast.FunctionDef)]:
        def _len_arg(c_):
            return next((a for a in c_.args if isinstance(a, ast.Call) and dotted(a.func) == "len" and a.args), None)

        counts = [c for c in ast.walk(f) if isinstance(c, ast.Call) and last_attr(c) in ("WriteInteger", "PackInteger") and _len_arg(c) is not None]
        selfn_ = f.args.args[0].arg if f.args.args else None
        owner_ = parents.get(id(f))
        qn = f"{owner_.name}.{f.name}" if isinstance(owner_, ast.ClassDef) else f.name
        for c in counts:
            X = unparse(_len_arg(c).args[0])
            if selfn_ is None or not X.startswith(selfn_ + "."):
                continue
            n += 1
            # (a) ancestors
            cond = None
            q = parents.get(id(c))
            while q is not None and q is not f:
                if isinstance(q, (ast.If, ast.IfExp, ast.While)) and X in unparse(q.test):
                    cond = q
                q = parents.get(id(q))
            col.check(cond is None, rule, f"{WA}::{qn} count of `{X}` is written for every length", f"`{' '.join(unparse(c).split())[:50]}` is unconditional",
                      f"the count of `{X}` is only written under `{' '.join(unparse(cond.test).split())[:50] if cond is not None else ''}`: for an empty `{X}` a decoder finds no count (or another byte) where "
                      "the vector length belongs and reads the following bytes as the count", WA, c)
            # (b) the element loop
            for lp in [l for l in ast.walk(f) if isinstance(l, ast.For) and unparse(l.iter) == X]:
                skips = [x for s in lp.body for x in ast.walk(s) if isinstance(x, (ast.Continue, ast.Break))]
                guarded = [x for s in lp.body for x in ast.walk(s) if isinstance(x, ast.If) and any(isinstance(w, ast.Call) and (last_attr(w) or "").startswith(("Write", "write", "Pack")) for w in ast.walk(x))]
                col.check(not skips and not guarded, rule, f"{WA}::{qn} writes every element of `{X}`", "the loop writes each element unconditionally",
                          f"the loop over `{X}` skips elements (`{'continue/break' if skips else (' '.join(unparse(guarded[0].test).split())[:40] if guarded else '')}`) although the count written before it is len({X}): "
                          "the vector announces more entries than follow", WA, lp)
    col.floor(rule, "vector counts written from len(..)", n, 6)


def check_encoder_shape(model, col, R):
    """R19.4: shape of the LEB128 encoder loops."""
    from ..miniev import CannotEval, ev

    pi = model.func(WA, "PackInteger")
    src = unparse(pi)
    loops = [n for n in ast.walk(pi) if isinstance(n, (ast.For, ast.While))]
    col.floor(R, "encoder loops", len(loops), 2)
    signed_region = set()
    for n in ast.walk(pi):
        if isinstance(n, ast.If) and ("signed" in unparse(n.test) or "< 0" in unparse(n.test)):
            for s_ in n.body:
                for x in ast.walk(s_):
                    signed_region.add(id(x))
    vname0 = pi.args.args[0].arg
    # the value being encoded changes only by dropping the 7 bits just written: any other re-binding (a wrap, a clamp, a mask)
    # encodes a different number than the caller passed
    rebinds = []
    for n in ast.walk(pi):
        if isinstance(n, ast.AugAssign) and isinstance(n.target, ast.Name) and n.target.id == vname0:
            if not (isinstance(n.op, ast.RShift) and isinstance(n.value, ast.Constant) and n.value.value == 7):
                rebinds.append(n)
        elif isinstance(n, (ast.Assign, ast.AnnAssign)) and any(isinstance(t, ast.Name) and t.id == vname0 for t in (n.targets if isinstance(n, ast.Assign) else [n.target])):
            if " ".join(unparse(n.value).split()) not in (f"{vname0} >> 7", f"{vname0} // 128"):
                rebinds.append(n)
    col.check(not rebinds, R, f"{WA}::PackInteger encodes the value it was given", f"`{vname0}` is only ever shifted right by 7",
              f"`{' '.join(unparse(rebinds[0]).split()) if rebinds else ''}` changes the number before / while it is encoded: counts, sizes and indices in that range decode to another value "
              "(e.g. an unsigned 0x80000000 written as a negative number)", WA, rebinds[0] if rebinds else pi)
    for lp in loops:
        kind = "signed" if id(lp) in signed_region else "unsigned"
        body = unparse(ast.Module(body=lp.body, type_ignores=[]))
        seven = "& 127" in body and ">>= 7" in body
        cont = "| 128" in body or "|= 128" in body
        col.check(seven, R, f"{WA}::PackInteger {kind} loop groups", "each byte carries the low 7 bits, then the value is shifted right by 7",
                  "the loop does not take `v & 0x7F` and shift right by 7 per byte", WA, lp)
        col.check(cont, R, f"{WA}::PackInteger {kind} loop continuation bit", "non-final bytes get the 0x80 continuation bit", "no continuation bit is set", WA, lp)
        if kind == "unsigned" and isinstance(lp, ast.For):
            # counted form: exactly ceil(bit_length / 7) groups (no clamp), continuation on all but the last
            cnt = lp.iter.args[0] if isinstance(lp.iter, ast.Call) and dotted(lp.iter.func) == "range" and len(lp.iter.args) == 1 else None
            cnt_src = cnt
            if isinstance(cnt, ast.Name):
                vals_ = find_assign(pi, cnt.id)
                cnt_src = vals_[0] if len(vals_) == 1 else None
            canon_ = " ".join(unparse(cnt_src).split()) if cnt_src is not None else None
            forms = (f"math.ceil({vname0}.bit_length() / 7)", f"ceil({vname0}.bit_length() / 7)", f"({vname0}.bit_length() + 6) // 7", f"-(-{vname0}.bit_length() // 7)")
            cname = cnt.id if isinstance(cnt, ast.Name) else canon_
            conds = [n for n in ast.walk(lp) if isinstance(n, ast.If)]
            from ..sem import local_env as _le19, rtext as _rt19

            env19 = {k: v for k, v in _le19(pi).items() if k != cname}
            last_ok = any(_rt19(c.test, env19) in (f"{lp.target.id} + 1 < {cname}", f"{lp.target.id} < {cname} - 1", f"{lp.target.id} != {cname} - 1", f"{lp.target.id} + 1 != {cname}") for c in conds) if isinstance(lp.target, ast.Name) else False
            col.check(canon_ in forms and last_ok, R, f"{WA}::PackInteger unsigned termination", "ceil(bit_length / 7) bytes, continuation on all but the last",
                      f"the number of groups is `{canon_}` (expected ceil(bit_length/7), unclamped) / the last-byte test is not `i + 1 < count`: values needing more groups are truncated or get a stray continuation bit", WA, lp)
        elif kind == "unsigned":
            # open form: while the value does not fit 7 bits emit a continued group; the rest is the last byte
            t_ = " ".join(unparse(lp.test).split())
            fits = t_ in (f"{vname0} >= 128", f"{vname0} > 127", f"{vname0} >> 7", f"{vname0} >> 7 != 0", f"{vname0} >> 7 > 0", f"{vname0} > 0x7f")
            col.check(fits, R, f"{WA}::PackInteger unsigned termination", "continued groups while the value does not fit 7 bits",
                      f"the loop continues while `{t_}`; a value whose rest is exactly 128 (or the boundary the test misses) is written with a continuation bit in its last byte or one group short", WA, lp)
        else:
            # fold the termination test over (remaining value, byte): stop iff the rest is the sign extension of bit 6
            ifs = [n for n in ast.walk(lp) if isinstance(n, ast.If) and any(isinstance(s, ast.Return) or isinstance(s, ast.Break) for s in ast.walk(n))]
            vname = pi.args.args[0].arg
            bname = next((n.targets[0].id for n in ast.walk(lp) if isinstance(n, ast.Assign) and isinstance(n.targets[0], ast.Name) and "& 127" in unparse(n.value)), "b")
            good = False
            wrong = []
            if ifs and isinstance(lp.test, ast.Constant):
                good = True
                from ..sem import local_env as _le19b, resolve as _rs19

                test19 = _rs19(ifs[0].test, {k: v for k, v in _le19b(pi).items() if k not in (vname, bname)})
                for rest in (0, -1, 1, -2, 37, -100):
                    for byte in (0x00, 0x01, 0x3F, 0x40, 0x41, 0x7F):
                        try:
                            stop = bool(ev(test19, {vname: rest, bname: byte}))
                        except CannotEval:
                            stop = None
                        want = (rest == 0 and not byte & 0x40) or (rest == -1 and bool(byte & 0x40))
                        if stop is not want:
                            good = False
                            wrong.append((rest, hex(byte), stop))
            if not good and isinstance(lp.test, ast.Constant):
                # the decision may be spread over several statements (a flag set by if/elif, then tested): walk the paths of
                # the loop body for each (rest, byte), keeping the locals the path binds, and see whether the feasible path
                # leaves the loop
                good, wrong = True, []
                all_paths = list(paths(lp.body))
                for rest in (0, -1, 1, -2, 37, -100):
                    for byte in (0x00, 0x01, 0x3F, 0x40, 0x41, 0x7F):
                        outcome = set()
                        for evs, status in all_paths:
                            env = {vname: rest, bname: byte}
                            feasible = True
                            for e in evs:
                                if e.kind == "stmt" and isinstance(e.node, ast.Assign) and isinstance(e.node.targets[0], ast.Name) and e.node.targets[0].id not in (vname, bname):
                                    try:
                                        env[e.node.targets[0].id] = ev(e.node.value, env)
                                    except CannotEval:
                                        env.pop(e.node.targets[0].id, None)
                                elif e.kind == "cond":
                                    try:
                                        if bool(ev(e.node, env)) != bool(e.val):
                                            feasible = False
                                            break
                                    except CannotEval:
                                        feasible = False
                                        outcome.add(None)
                                        break
                            if feasible:
                                outcome.add(status in ("return", "break"))
                        want = (rest == 0 and not byte & 0x40) or (rest == -1 and bool(byte & 0x40))
                        if outcome != {want}:
                            good = False
                            wrong.append((rest, hex(byte), sorted(outcome, key=str)))
            tests = [unparse(n.test) for n in ifs]
            col.check(good, R, f"{WA}::PackInteger signed termination", "stops exactly when the rest is the sign extension of bit 6 (v == 0 and bit clear, or v == -1 and bit set)",
                      f"termination test {tests} (loop `while {unparse(lp.test)}`) decides (remaining value, byte) = {wrong[:3]} wrongly: the last byte's bit 6 must equal the sign of what remains, "
                      "otherwise the value decodes with the wrong sign or one byte short", WA, lp)
    zero = [n for n in ast.walk(pi) if isinstance(n, ast.If) and "v == 0" in unparse(n.test) and any(isinstance(s, ast.Return) for s in n.body)]
    col.check(bool(zero) or "while" in src, R, f"{WA}::PackInteger zero", "0 is written as a single 0x00 byte", None, WA, pi)
    # the encoder is total on the 32-bit range: a `raise` (or assert) whose guard is decidable from (value, signed) alone
    # must not be reached for a value of the range the format writes -- the boundaries of both ranges are the samples
    rejected = []
    n_raise = 0
    sname = pi.args.args[1].arg if len(pi.args.args) > 1 else None
    samples = [(x, False) for x in (0, 1, 63, 64, 127, 128, 2**31 - 1, 2**31, 2**32 - 1)] + [(x, True) for x in (-2**31, -2**31 + 1, -129, -128, -65, -64, -1, 0, 63, 64, 2**31 - 1)] \
        + [(x, False) for x in (-1, -64, -65, -2**31)]
    def _leb(val, sg):
        out = bytearray()
        if sg or val < 0:
            while True:
                b = val & 0x7F
                val >>= 7
                if (val == 0 and not b & 0x40) or (val == -1 and b & 0x40):
                    out.append(b)
                    return bytes(out)
                out.append(b | 0x80)
        while True:
            b = val & 0x7F
            val >>= 7
            if val == 0:
                out.append(b)
                return bytes(out)
            out.append(b | 0x80)

    # a result returned before either loop runs (a fast path, the zero case) is the LEB128 encoding of the value for the
    # signedness asked for: folded over the boundary samples for which the path's conditions are decidable
    short_bad = []
    n_short = 0
    for evs, status in paths(pi.body):
        if status != "return" or any(e.kind not in ("stmt", "cond", "return") for e in evs):
            continue
        ret = evs[-1].node
        if not isinstance(ret, ast.Return) or ret.value is None:
            continue
        n_short += 1
        for val, sg in samples:
            env = {vname0: val}
            if sname:
                env[sname] = sg
            taken = True
            for e in evs[:-1]:
                try:
                    if e.kind == "stmt" and isinstance(e.node, ast.Assign) and len(e.node.targets) == 1 and isinstance(e.node.targets[0], ast.Name):
                        env[e.node.targets[0].id] = ev(e.node.value, env)
                    elif e.kind == "cond" and bool(ev(e.node, env)) != bool(e.val):
                        taken = False
                        break
                    elif e.kind == "stmt" and not isinstance(e.node, (ast.Assign, ast.Expr, ast.Pass)):
                        taken = False
                        break
                except CannotEval:
                    taken = False
                    break
            if not taken:
                continue
            try:
                got = ev(ret.value, env)
            except CannotEval:
                continue
            if isinstance(got, (bytes, bytearray)) and bytes(got) != _leb(val, sg):
                short_bad.append((val, sg, bytes(got).hex(), _leb(val, sg).hex(), ret))
    col.check(not short_bad, R, f"{WA}::PackInteger results returned without a loop", f"{n_short} early result path(s) agree with the encoding on the boundary samples",
              (f"PackInteger({short_bad[0][0]}, signed={short_bad[0][1]}) returns {short_bad[0][2]} on an early path; the encoding is {short_bad[0][3]}" if short_bad else "")
              + ": a single byte with bit 6 set is a negative number to a signed decoder (and a continuation to none)", WA, short_bad[0][4] if short_bad else pi)
    for evs, status in paths(pi.body):
        if status != "raise" and not any(e.kind == "stmt" and isinstance(e.node, ast.Assert) for e in evs):
            continue
        n_raise += 1
        for val, sg in samples:
            env = {vname0: val}
            if sname:
                env[sname] = sg
            reached = status == "raise"
            for e in evs:
                if e.kind == "stmt" and isinstance(e.node, ast.Assert):
                    try:
                        if not ev(e.node.test, env):
                            reached = True
                            break
                    except CannotEval:
                        reached = False
                        break
                elif e.kind == "stmt" and isinstance(e.node, ast.Assign) and len(e.node.targets) == 1 and isinstance(e.node.targets[0], ast.Name):
                    try:
                        env[e.node.targets[0].id] = ev(e.node.value, env)
                    except CannotEval:
                        env.pop(e.node.targets[0].id, None)
                elif e.kind == "cond":
                    try:
                        if bool(ev(e.node, env)) != bool(e.val):
                            reached = False
                            break
                    except CannotEval:
                        reached = False
                        break
                elif e.kind not in ("stmt", "raise"):
                    # a loop or anything else between entry and the raise: not decided by this rule
                    reached = False
                    break
            if reached:
                rejected.append((val, sg, evs[-1].node))
    col.check(not rejected, R, f"{WA}::PackInteger is total on the 32-bit range", f"{n_raise} raising path(s); none is taken for a boundary value of the signed or unsigned 32-bit range",
              f"PackInteger({rejected[0][0] if rejected else ''}, signed={rejected[0][1] if rejected else ''}) raises (`{' '.join(unparse(rejected[0][2]).split())[:60] if rejected else ''}`): "
              "a value of the 32-bit range the format writes is rejected instead of encoded", WA, rejected[0][2] if rejected else pi)
    wi = model.func(WA, "WriteInteger")
    calls = [c for c in ast.walk(wi) if isinstance(c, ast.Call) and last_attr(c) == "PackInteger"]
    passes = bool(calls) and (len(calls[0].args) + len(calls[0].keywords)) == len(wi.args.args) - 1
    col.check(passes, R, f"{WA}::WriteInteger forwards value and signedness", "output.write(PackInteger(i, signed))", "WriteInteger does not forward its signed flag to PackInteger", WA, wi)
