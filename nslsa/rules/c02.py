"""C02 Optimisation never changes observable behaviour."""
from __future__ import annotations

import ast

from ..dispatch import Dispatch
from ..irmodel import IR, operand_fields, replace_uses_of, uses_of
from ..model import AnalysisError, AnchorMissing, dotted, find_assign, last_attr, mangle, unparse
from ..paths import paths, calls_on_path, cond_atoms
from ..pipeline import Pipeline, COMPILER
from ..vmmodel import VMModel, VM

TITLE = "IR rewriting protocol: operand enumeration/rewiring, remove-after-rewire, closed substitutions, gating, fold/VM agreement"
LEVEL = "other"
LAS = "nsl/passes/OptimizeLoadAfterStore.py"
OCC = "nsl/passes/OptimizeConstantCasts.py"
EXPLANATION = (
    "R02.1 operand protocol (sibling agreement over all instruction classes): every operand field (constructor parameters "
    "typed Value/BasicBlock, fields set by SetStore/SetTrueBlock/SetFalseBlock) is yielded by Uses as `.Reference` (None-guarded "
    "iff optional) and rewired by ReplaceUses by comparing `.Reference == ref` and assigning newValue to the same field; "
    "R02.2 an instruction is removed only after its uses were rewired; R02.3 deferred substitutions are closed (a replacement "
    "that is itself scheduled for replacement is resolved) and uses are rewired before instructions are removed; R02.4 "
    "optimisation passes cannot reject (no raise reachable in their handlers, no validator), passes the VM depends on are not "
    "optimisation-flagged, and Compile skips exactly the flagged passes when optimisation is off; R02.5 constant-cast folding "
    "computes, per target type, the expression the VM's CAST arm computes; R02.6 the constant pool is keyed by type and value; "
    "R02.7 load forwarding is guarded by: load, adjacent previous instruction in the same block, a store, to the same variable. "
    "R02.8/R02.9 use lists are refreshed after swaps, optimisation visitors keep no state and have handlers only for the "
    "analysed instruction classes. R02.10 what the interpreter does per instruction depends neither on operand kinds "
    "(constant vs instruction) nor on state of the context across instructions (= R15.1); STORE/LOAD bind the value itself. "
    "R02.11 the value table and the constant pool only grow; one reference allocator (= R14.1)."
)
NOT_DECIDED = "that the set of rewrites preserves semantics on every program (equality of optimised and unoptimised runs needs execution)"
ASSUMPTIONS = ["value references are unique per function (C14 R14.1), so comparing references identifies operands"]


def check_operand_protocol(model, col, rule):
    D = Dispatch(model)
    classes = D.ir_instruction_classes()
    ncls = 0
    for ci in classes:
        fields = operand_fields(model, ci)
        uo, uses, uf = uses_of(model, ci)
        ro, repl, rf = replace_uses_of(model, ci)
        ncls += 1
        key = f"{IR}::{ci.name}"
        if rf is None or (ro is not None and ro.name == "ValueUser"):
            col.check(not fields, rule, key + ".ReplaceUses defined", "no operands, nothing to rewire",
                      f"{ci.name} has operand fields {fields} but inherits the abstract ReplaceUses (raises NotImplementedError)", IR, ci.node)
        for f in fields:
            m = f.mangled
            fk = f"{key} operand {f.name}"
            u = uses.get(m)
            if u is None:
                col.bad(rule, fk + " in Uses", f"operand field {f} ({f.source}) is not enumerated by Uses: its user is never found when the operand is replaced, "
                        "so after the producing instruction is removed this instruction reads a value that no longer exists", IR, uf or ci.node)
            else:
                yields_ref, guarded = u
                col.check(yields_ref, rule, fk + " in Uses", "yields the operand's .Reference",
                          f"Uses yields the operand object `self.{f.name}` instead of its .Reference: the use lists are keyed by reference numbers, so this user is never found", IR, uf)
                if f.optional and f.kind == "value":
                    col.check(guarded, rule, fk + " None-guard in Uses", "optional operand is tested before `.Reference`",
                              f"optional operand {f.name} is dereferenced in Uses without a None test", IR, uf)
            r = repl.get(m)
            if r is None:
                col.bad(rule, fk + " in ReplaceUses", f"operand field {f} is not rewired by ReplaceUses: a replaced value stays referenced (dangling operand after the replaced instruction is removed)", IR, rf or ci.node)
                continue
            p = [a.arg for a in rf.args.args]
            refp, newp = p[1], p[2]
            if r.get("list"):
                good = r["cmp_to"] == refp and r["assigned"] == newp
                col.check(good, rule, fk + " in ReplaceUses", "list operands rewired through _ReplaceUsesInList(list, ref, newValue)",
                          f"_ReplaceUsesInList is called with ({r['cmp_to']}, {r['assigned']}) instead of (ref, newValue)", IR, r["node"])
                continue
            want_cmp = f"self.{f.name}.Reference"
            good = r["cmp"] == want_cmp and r["cmp_to"] == refp and r["assigned"] == newp
            why = []
            if r["cmp"] != want_cmp:
                why.append(f"compares `{r['cmp']}` (expected `{want_cmp}`)")
            if r["cmp_to"] != refp:
                why.append(f"compares with `{r['cmp_to']}` instead of the reference `{refp}`")
            if r["assigned"] != newp:
                why.append(f"assigns `{r['assigned']}` instead of `{newp}`")
            col.check(good, rule, fk + " in ReplaceUses", f"if self.{f.name}.Reference == {refp}: self.{f.name} = {newp}",
                      f"ReplaceUses for operand {f.name}: " + "; ".join(why), IR, r["node"])
            col.check(not r.get("chained"), rule, fk + " rewired independently", "the test for this operand does not depend on another operand not matching",
                      f"the rewiring of operand {f.name} sits in the else-branch of another operand's test: when both operands are the same value (a swizzle read shuffles a value with itself) only the first is rewired", IR, r["node"])
            if f.optional:
                asserted = any(isinstance(s, ast.Assert) and f"self.{f.name}" in unparse(s.test) for s in rf.body)
                col.check(r["guarded"] or asserted, rule, fk + " None-guard in ReplaceUses", "optional operand is tested before `.Reference`",
                          f"optional operand {f.name} is dereferenced in ReplaceUses without a None test", IR, r["node"])
        # fields touched by Uses/ReplaceUses that are not operand fields of the class (typos, foreign privates)
        for m_, where in [(k, "Uses") for k in uses] + [(k, "ReplaceUses") for k in repl]:
            if m_ not in {f.mangled for f in fields}:
                col.bad(rule, f"{key}.{where} touches {m_}", f"{where} refers to `{m_}`, which is not an operand field this class stores (name mangling makes `self.__x` private to the class that writes it): AttributeError", IR, ci.node)
    col.floor(rule, "instruction classes", ncls, 14)
    helper = model.cls(IR, "Instruction").own_method("_ReplaceUsesInList")
    from ..sem import alpha as _alpha

    t = _alpha(helper)
    # parameters: p0 = the operand list, p1 = the reference to replace, p2 = the new value; v0 = the index / element variable
    col.check(("for v0 in range(len(p0)): if p0[v0].Reference == p1: p0[v0] = p2" in t) or ("for v0, v1 in enumerate(p0): if v1.Reference == p1: p0[v0] = p2" in t), rule, f"{IR}::Instruction._ReplaceUsesInList", "replaces every entry whose reference matches", None, IR, helper)


def _is_position(cls, func, X, arg, evs, atoms, depth=1):
    """On this path, does local X hold the position of `arg` in the block's instruction list?"""
    for e in evs:
        if e.kind == "loop" and isinstance(e.node, ast.For) and e.val == 1:
            it, tg = e.node.iter, e.node.target
            if isinstance(it, ast.Call) and last_attr(it) == "enumerate" and it.args and unparse(it.args[0]).endswith("__instructions") and len(it.args) == 1 \
                    and isinstance(tg, ast.Tuple) and len(tg.elts) == 2 and all(isinstance(x, ast.Name) for x in tg.elts) and tg.elts[0].id == X:
                E = tg.elts[1].id
                if any(atoms.get(k) is True for k in (f"{E} == {arg}", f"{arg} == {E}", f"{E} is {arg}", f"{arg} is {E}")):
                    return True
        if e.kind == "stmt" and isinstance(e.node, ast.Assign) and len(e.node.targets) == 1 and isinstance(e.node.targets[0], ast.Name) and e.node.targets[0].id == X:
            v = e.node.value
            if isinstance(v, ast.Call) and len(v.args) == 1 and unparse(v.args[0]) == arg and isinstance(v.func, ast.Attribute):
                if v.func.attr == "index" and unparse(v.func.value).endswith("__instructions"):
                    return True
                if depth > 0 and isinstance(v.func.value, ast.Name) and v.func.value.id == func.args.args[0].arg:
                    r = cls.find_method(v.func.attr) or cls.find_method(mangle(cls.name, v.func.attr))
                    if r is not None and len(r[1].args.args) == 2:
                        h = r[1]
                        p = h.args.args[1].arg
                        good = 0
                        for evs2, st2 in paths(h.body):
                            if st2 != "return":
                                continue
                            rv = evs2[-1].node.value
                            if rv is None or (isinstance(rv, ast.Constant) and rv.value is None):
                                continue
                            if not (isinstance(rv, ast.Name) and _is_position(cls, h, rv.id, p, evs2, cond_atoms(evs2), depth - 1)):
                                return False
                            good += 1
                        if good:
                            return True
    return False


def _previous_ok(bb, gp):
    """Every value-returning path of GetPreviousInstruction returns instructions[X - 1] where X is the
    position of the argument in the block and X > 0 holds on the path."""
    arg = gp.args.args[1].arg
    found = False
    for evs, status in paths(gp.body):
        if status != "return":
            continue
        rv = evs[-1].node.value
        if rv is None or (isinstance(rv, ast.Constant) and rv.value is None):
            continue
        if not (isinstance(rv, ast.Subscript) and unparse(rv.value).endswith("__instructions") and isinstance(rv.slice, ast.BinOp) and isinstance(rv.slice.op, ast.Sub)
                and isinstance(rv.slice.left, ast.Name) and isinstance(rv.slice.right, ast.Constant) and rv.slice.right.value == 1):
            return False
        X = rv.slice.left.id
        atoms = cond_atoms(evs)
        pos = any(atoms.get(k) is True for k in (f"{X} > 0", f"{X} >= 1", f"0 < {X}", f"1 <= {X}")) or any(atoms.get(k) is False for k in (f"{X} == 0", f"{X} < 1", f"{X} <= 0", f"0 == {X}"))
        if not pos or not _is_position(bb, gp, X, arg, evs, atoms):
            return False
        found = True
    return found


def check_pool_key(model, col, rule):
    fn = model.cls(IR, "Function").own_method("CreateConstant")
    params = [a.arg for a in fn.args.args[1:]]
    gets = [c for c in ast.walk(fn) if isinstance(c, ast.Call) and last_attr(c) == "get" and "constants" in unparse(c.func)]
    sets = [n for n in ast.walk(fn) if isinstance(n, ast.Assign) and isinstance(n.targets[0], ast.Subscript) and "constants" in unparse(n.targets[0].value)]

    def names_of(e):
        out = set()
        for n in ast.walk(e):
            if isinstance(n, ast.Name):
                out.add(n.id)
                for v in find_assign(fn, n.id):
                    out |= {x.id for x in ast.walk(v) if isinstance(x, ast.Name)}
        return out

    ok = bool(gets) and bool(sets)
    for e in [g.args[0] for g in gets] + [s.targets[0].slice for s in sets]:
        ok = ok and set(params) <= names_of(e)
    same = bool(gets) and bool(sets) and unparse(gets[0].args[0]) == unparse(sets[0].targets[0].slice)
    col.check(ok and same, rule, f"{IR}::Function.CreateConstant pool key", f"constants are looked up and stored under a key built from ({', '.join(params)})",
              "the constant pool is keyed by the value alone: 1, 1.0 and True are one key, so a float constant is handed out where an int one was asked for (and vice versa)", IR, fn)
    # 1, 1.0 and True are equal and hash alike: the key itself has to tell them apart (a check made after a hit comes too
    # late - the second constant then takes over the first one's slot, and the first, still an operand, is in no table)
    vpar = params[-1] if params else "value"

    def key_exprs(e):
        out = [e]
        for n in ast.walk(e):
            if isinstance(n, ast.Name):
                out += find_assign(fn, n.id)
        return out

    typed = bool(gets) and all(any(isinstance(c, ast.Call) and isinstance(c.func, ast.Name) and c.func.id in ("type", "repr") and c.args and unparse(c.args[0]) == vpar
                                   for k_ in key_exprs(e) for c in ast.walk(k_)) for e in [g.args[0] for g in gets] + [s.targets[0].slice for s in sets])
    col.check(typed, rule, f"{IR}::Function.CreateConstant pool key tells 1 from 1.0", f"the key contains type({vpar}) (or its repr)",
              f"the pool key does not contain the Python type of `{vpar}`: an int 1 and a float 1.0 of one IR type share a slot, one of the two constants ends up outside the table the VM "
              "loads constants from", IR, fn)
    reg = [c for c in ast.walk(fn) if isinstance(c, ast.Call) and last_attr(c) == "RegisterValue"]
    col.check(bool(reg), rule, f"{IR}::Function.CreateConstant registers the constant", "a new constant gets a reference of this function", None, IR, fn)


def run(model, col, tier, share=True):
    if share:
        # what the interpreter does for an instruction does not depend on how many instructions ran before it: the context
        # keeps no state of its own between instructions or activations (= R15.1 on ExecutionContext's fields). An optimised
        # function executes fewer instructions; a budget, a counter that is read, a depth that leaks all make that visible.
        from ..report import Collector as _C210
        from . import c15 as _c15

        sub = _C210("C15")
        _c15.run(model, sub, "quick")
        n15 = 0
        for ob in sub.obligations:
            if ob.rule == "R15.1" and "ExecutionContext" in ob.construct and ("sets attribute" in ob.construct or "mutates self" in ob.construct):
                ob.detail = "[R15.1] " + (ob.detail or "")
                ob.rule = "R02.10"
                col.obligations.append(ob)
                n15 += 1
        col.floor("R02.10", "context-state obligations shared with C15", n15, 1)
    pipe = Pipeline(model)
    vm = VMModel(model)
    check_operand_protocol(model, col, "R02.1")
    # ---------------- R02.2 ------------------------------------------------------
    lv = model.cls(LAS, "OptimizeLoadAfterStoreVisitor")
    h = lv.own_method("v_VariableAccessInstruction")
    ndel = 0
    for evs, status in paths(h.body):
        cs = calls_on_path(evs)
        rewired = set()
        for c in cs:
            la = last_attr(c)
            if la == "ReplaceUses" and c.args:
                rewired.add(unparse(c.args[0]))
            if la == "Replace" and len(c.args) == 2 and isinstance(c.args[1], ast.Constant) and c.args[1].value is None:
                ndel += 1
                col.check(unparse(c.args[0]) in rewired, "R02.2", f"{LAS}::v_VariableAccessInstruction remove after rewire",
                          f"`{unparse(c)}` is preceded by ReplaceUses({unparse(c.args[0])}, ...)",
                          f"`{unparse(c)}` removes the instruction without its uses having been rewired on this path", LAS, c)
    col.floor("R02.2", "instruction removals", ndel, 1)
    # ---------------- R02.3 ------------------------------------------------------
    bb = model.cls(IR, "BasicBlock")
    ru = bb.own_method("ReplaceUses")
    tr = bb.own_method("_Traverse")
    newp = ru.args.args[2].arg
    closing = []
    for n in ast.walk(ru):
        if isinstance(n, ast.If) and "in self.__replaceUses" in unparse(n.test) and newp in unparse(n.test):
            if any(isinstance(s, ast.Assign) and unparse(s.targets[0]) == newp and "self.__replaceUses[" in unparse(s.value) for s in n.body):
                closing.append("resolved when recorded (BasicBlock.ReplaceUses)")
    for n in ast.walk(tr):
        if isinstance(n, (ast.While, ast.For)) and "__replaceUses" in unparse(n) and ("in self.__replaceUses" in unparse(n)):
            closing.append("chains resolved when applied (BasicBlock._Traverse)")
    fr = model.cls(IR, "Function").own_method("ReplaceUses")
    for n in ast.walk(fr):
        if isinstance(n, ast.While) and " in uses" in unparse(n.test):
            closing.append("chains resolved when applied (Function.ReplaceUses)")
    col.check(bool(closing), "R02.3", f"{IR}::BasicBlock deferred substitutions are closed", "; ".join(closing),
              "the value recorded as a replacement can itself be an instruction the same pass deletes (the forwarded load feeding the next store), and nothing resolves such chains: "
              "`x = a; y = x; return y` leaves the return reading a removed instruction", IR, ru)
    # order in _Traverse: uses rewired before instructions are replaced/removed
    for evs, status in paths(tr.body):
        seq = [last_attr(c) for c in calls_on_path(evs)
               if last_attr(c) == "__Replace" or (last_attr(c) == "ReplaceUses" and c.args and "replaceUses" in unparse(c.args[0]))]
        if "__Replace" in seq and "ReplaceUses" in seq:
            col.check(seq.index("ReplaceUses") < seq.index("__Replace"), "R02.3", f"{IR}::BasicBlock._Traverse rewires before it removes",
                      f"order {seq}", f"order {seq}: instructions are removed before their uses are rewired (the reference to fix up is gone)", IR, tr)
    # the deferred work is actually applied: whenever a pending table is non-empty, the path through _Traverse hands that very table
    # to the function-level ReplaceUses (uses table first; replacements after the instructions were swapped)
    def _const_fold(t_):
        return bool(t_.value) if isinstance(t_, ast.Constant) else None

    tables = sorted({n.targets[0].value.attr for m_ in (ru, bb.own_method("Replace")) for n in ast.walk(m_)
                     if isinstance(n, ast.Assign) and isinstance(n.targets[0], ast.Subscript) and isinstance(n.targets[0].value, ast.Attribute)})
    col.floor("R02.3", "pending tables of BasicBlock", len(tables), 2)
    for tb in tables:
        applied_always = True
        seen_nonempty = False
        for evs, status in paths(tr.body, fold=_const_fold):
            if status == "raise":
                continue
            atoms = cond_atoms(evs)
            if atoms.get(f"self.{tb}") is False:
                continue  # nothing pending in this table on this path
            seen_nonempty = True
            handed = [c for c in calls_on_path(evs) if last_attr(c) == "ReplaceUses" and isinstance(c.func, ast.Attribute) and "Parent" in unparse(c.func.value)
                      and c.args and unparse(c.args[0]) == f"self.{tb}"]
            if not handed:
                applied_always = False
        col.check(seen_nonempty and applied_always, "R02.3", f"{IR}::BasicBlock._Traverse applies {tb}", f"a non-empty `{tb}` is always handed to the function's ReplaceUses",
                  f"there is a path through _Traverse on which `{tb}` can be non-empty but is not handed to self.Parent.ReplaceUses: users keep naming instructions that were forwarded / replaced / removed", IR, tr)
    t = unparse(tr)
    col.check(t.count("self.__replacements = {}") >= 1 and t.count("self.__replaceUses = {}") >= 1, "R02.3", f"{IR}::BasicBlock._Traverse resets pending maps", "pending maps are per traversal", None, IR, tr)
    rp = bb.find_method("__Replace")
    if rp:
        # every instruction that is not replaced, and every replacing *instruction*, ends up in the new list
        for lp_ in [n for n in ast.walk(rp[1]) if isinstance(n, ast.For)]:
            tg_ = unparse(lp_.target)
            okp = True
            why_ = ""
            for evs, status in paths(lp_.body, loop_iters=(1,)):
                atoms = cond_atoms(evs)
                apps = [unparse(c.args[0]) for c in calls_on_path(evs) if last_attr(c) == "append" and c.args]
                replaced = next((v for k, v in atoms.items() if k.startswith(f"{tg_}.Reference in ")), None)
                isinstr = next((v for k, v in atoms.items() if k.startswith("isinstance(") and k.endswith(", Instruction)")), None)
                if replaced is False and apps != [tg_]:
                    okp, why_ = False, f"an instruction that is not replaced is not kept (appends {apps})"
                if replaced is True and isinstr is True and len(apps) != 1:
                    okp, why_ = False, f"a replacing instruction is not put in the old one's place (appends {apps})"
                if replaced is True and isinstr is False and apps:
                    okp, why_ = False, f"a slot replaced by a non-instruction is kept (appends {apps})"
            col.check(okp, "R02.3", f"{IR}::BasicBlock.__Replace keeps / swaps / drops", "unreplaced instructions stay, replacing instructions take the slot, other replacements empty it",
                      why_ + ": the block loses or duplicates instructions when a pass replaces one", IR, lp_)
    # the function-level use table is rebuilt from all blocks, and refreshed after every batch of rewrites
    fu = model.cls(IR, "Function").own_method("UpdateUses")
    rebuilt = False
    for lp_ in [n for n in ast.walk(fu) if isinstance(n, ast.For)]:
        tg_ = unparse(lp_.target)
        calls_ = [c for s_ in lp_.body for c in ast.walk(s_) if isinstance(c, ast.Call)]
        upd_i = next((i for i, c in enumerate(calls_) if last_attr(c) == "UpdateUses" and unparse(c.func.value) == tg_), None)
        from ..sem import local_env as _le23, rtext as _rt23

        fu_env = _le23(fu, allow_impure=True)
        mrg_i = next((i for i, c in enumerate(calls_) if last_attr(c) in ("update",) and c.args and _rt23(c.args[0], fu_env).startswith(tg_ + ".")), None)
        if "BasicBlocks" in unparse(lp_.iter) or "basicBlocks" in unparse(lp_.iter):
            rebuilt = upd_i is not None and mrg_i is not None and not any(isinstance(x, (ast.If, ast.Continue, ast.Break)) for s_ in lp_.body for x in ast.walk(s_))
    fresh_tbl = any(isinstance(n, ast.Assign) and isinstance(n.targets[0], ast.Attribute) and "uses" in n.targets[0].attr.lower() for n in fu.body)
    col.check(rebuilt and fresh_tbl, "R02.3", f"{IR}::Function.UpdateUses rebuilds the use table", "fresh table; every block recomputes its uses and they are merged",
              "Function.UpdateUses does not rebuild the use table from every block (fresh table, bb.UpdateUses(), merge of bb.Uses): rewrites look users up in a stale or empty table", IR, fu)
    fr_last = [s_ for s_ in fr.body if not (isinstance(s_, ast.Expr) and isinstance(s_.value, ast.Constant))][-1]
    col.check(isinstance(fr_last, ast.Expr) and isinstance(fr_last.value, ast.Call) and last_attr(fr_last.value) == "UpdateUses", "R02.3", f"{IR}::Function.ReplaceUses refreshes the use table",
              "ends with self.UpdateUses()", "after a batch of rewrites the use table is not recomputed: the next batch rewires the users of the old operands", IR, fr)
    if rp:
        # on the path where a replacing instruction is put in, it first takes over the reference of the one it replaces
        takes = False
        for lp_ in [n for n in ast.walk(rp[1]) if isinstance(n, ast.For)]:
            tg_ = unparse(lp_.target)
            for evs, status in paths(lp_.body, loop_iters=(1,)):
                atoms = cond_atoms(evs)
                isinstr = next((k for k, v in atoms.items() if k.startswith("isinstance(") and k.endswith(", Instruction)") and v is True), None)
                if isinstr:
                    newn = isinstr[len("isinstance("):isinstr.rindex(",")].strip()
                    takes = takes or any(last_attr(c) == "SetReference" and unparse(c.func.value) == newn and c.args and unparse(c.args[0]) == f"{tg_}.Reference" for c in calls_on_path(evs))
        col.check(takes, "R02.3", f"{IR}::BasicBlock.__Replace",
                  "a replacing instruction takes over the reference; a non-instruction replacement (None/constant) removes the slot", None, IR, rp[1])
    # Function.ReplaceUses: for EVERY (ref -> new) pair EVERY recorded user of ref is rewired: the nested iteration reaches the
    # per-instruction ReplaceUses(ref, new) on all paths of its body (no filter, no early exit)
    good_fr = False
    why_fr = "no loop over the replacement map that rewires the users of each reference"
    for outer in [n for n in ast.walk(fr) if isinstance(n, ast.For)]:
        if not (isinstance(outer.target, ast.Tuple) and len(outer.target.elts) == 2 and ".items()" in unparse(outer.iter)):
            continue
        refn, newn = (unparse(e) for e in outer.target.elts)
        for inner in [n for n in ast.walk(outer) if isinstance(n, ast.For) and n is not outer]:
            if f"[{refn}]" not in unparse(inner.iter) or "uses" not in unparse(inner.iter).lower():
                continue
            instn = unparse(inner.target)
            allp = True
            for evs_, st_ in paths(inner.body, loop_iters=(1,)):
                if st_ == "raise":
                    continue
                cs_ = [c for c in calls_on_path(evs_) if last_attr(c) == "ReplaceUses" and isinstance(c.func, ast.Attribute) and unparse(c.func.value) == instn
                       and [unparse(a) for a in c.args] == [refn, newn]]
                if not cs_:
                    allp = False
                    why_fr = f"a path through the loop body ({[(' '.join(unparse(e.node).split())[:40], e.val) for e in evs_ if e.kind == 'cond']}) skips `{instn}.ReplaceUses({refn}, {newn})`: " \
                             "a user with two replaced operands keeps one of them pointing at a removed instruction"
            # the prefix of the outer body before the inner loop must not skip either
            good_fr = allp and not any(isinstance(x, (ast.Continue, ast.Break)) for s in outer.body for x in ast.walk(s) if x is not inner and not any(x is y for y in ast.walk(inner)))
    col.check(good_fr, "R02.3", f"{IR}::Function.ReplaceUses", "every recorded user of every replaced reference is rewired to the new value", why_fr, IR, fr)
    # ---------------- R02.4 ------------------------------------------------------
    flagged = []
    for pname in pipe.ir_passes:
        info = pipe.validator_info(pname)
        is_opt = "IsOptimization" in info.get("flags", "")
        if is_opt:
            flagged.append(pname)
        v = info["visitor"]
        if v is None:
            continue
        if is_opt:
            col.check(info["validator"] is None, "R02.4", f"{info['file']}::GetPass has no validator", "an optimisation pass cannot report failure", "an optimisation pass has a validator and can reject a program", info["file"], info["getpass"])
            raises = []
            for m in v.methods.values():
                for n in ast.walk(m):
                    if isinstance(n, ast.Raise) or (isinstance(n, ast.Call) and last_attr(n) == "Raise"):
                        raises.append((m.name, n))
            col.check(not raises, "R02.4", f"{info['file']}::{v.name} cannot reject",
                      "no raise is reachable in the pass's handlers",
                      f"handler {raises[0][0] if raises else ''} can raise: a program that compiles without optimisation is rejected with it", info["file"], raises[0][1] if raises else v.node)
    # an optimisation pass only removes or rewires: it builds no instruction of its own (a new instruction would have to be
    # registered, parented and entered into the use lists by hand, and it captures operands that the same pass is about to
    # remove); constants come from the function's pool
    Dq = Dispatch(model)
    icls = {c.name for c in Dq.ir_instruction_classes(concrete_only=False)}
    for pname in flagged:
        info = pipe.validator_info(pname)
        v = info["visitor"]
        if v is None:
            continue
        # the rewrites an optimisation pass performs are the ones the rules below decide (R02.2 / R02.5 / R02.7): a handler for
        # another instruction class is a rewrite nothing here has shown to preserve values (x * 0 -> 0 is wrong for inf and nan)
        allowed_h = {"OptimizeConstantCasts": {"v_CastInstruction"}, "OptimizeLoadAfterStore": {"v_VariableAccessInstruction"}}.get(pname)
        if allowed_h is not None:
            extra_h = sorted(h_ for h_ in v.methods if h_.startswith("v_") and h_ not in ("v_Generic", "v_Visit", "v_Default") and h_ not in allowed_h
                             and any(isinstance(c, ast.Call) and last_attr(c) in ("Replace", "ReplaceUses", "WithVariable") or isinstance(c, ast.Return) and getattr(c, "value", None) is not None
                                     for c in ast.walk(v.methods[h_])))
            col.check(not extra_h, "R02.4", f"{info['file']}::{v.name} rewrites only what the rules cover", f"rewriting handlers: {sorted(allowed_h)}",
                      f"handler(s) {extra_h} rewrite instructions of a class no rule of this check covers: whether optimised and unoptimised programs still agree is not established "
                      "(an arithmetic identity such as x * 0 = 0 does not hold for inf / nan)", info["file"], v.methods[extra_h[0]] if extra_h else v.node)
        built = [(m.name, c) for m in v.methods.values() for c in ast.walk(m) if isinstance(c, ast.Call) and (last_attr(c) or "") in icls]
        col.check(not built, "R02.4", f"{info['file']}::{v.name} builds no instructions", "only ReplaceUses / Replace(.., None) / CreateConstant",
                  f"{[(a, unparse(c)[:50]) for a, c in built][:2]}: the pass inserts a new instruction whose operand is a value the pass itself removes (a forwarded load), so the optimised "
                  "function refers to a value that no longer exists", info["file"], built[0][1] if built else v.node)
    col.check(sorted(flagged) == ["OptimizeConstantCasts", "OptimizeLoadAfterStore"], "R02.4", f"{COMPILER}::irPasses optimisation flags",
              f"optimisation-flagged IR passes: {flagged}", f"optimisation-flagged IR passes are {flagged}; RewriteFunctionArgAccess (the VM indexes arguments by position) and the printer must run unconditionally", COMPILER, pipe.cls.node)
    comp = pipe.compile
    skip = [n for n in ast.walk(comp) if isinstance(n, ast.If) and any(isinstance(s, ast.Continue) for s in n.body)]
    good = False
    tt = None
    optp = comp.args.args[2].arg if len(comp.args.args) > 2 else "options"
    switch_forms = (f"{optp}.get('optimize', False)", f"{optp}.get('optimize')", f"bool({optp}.get('optimize', False))", f"{optp}.get('optimize', False) is True")
    if skip:
        from ..sem import local_env as _le_c, rtext as _rt_c

        c_env = _le_c(comp, allow_impure=True)
        tt = _rt_c(skip[0].test, c_env)
        lp_ = next((n for n in ast.walk(comp) if isinstance(n, ast.For) and any(x is skip[0] for x in ast.walk(n))), None)
        names_ = [x.id for x in ast.walk(lp_.target) if isinstance(x, ast.Name)] if lp_ is not None else []
        good = lp_ is not None and "irPasses" in unparse(lp_.iter) and any(tt == f"not {sw} and {nm}.Flags & PassFlags.IsOptimization" for sw in switch_forms for nm in names_)
        if not good and lp_ is not None and "irPasses" in unparse(lp_.iter):
            # the same decision spelled over several tests: a pass is skipped on exactly the paths where the switch is off and
            # the pass carries the optimisation flag
            sw_keys = set(switch_forms)
            fl_keys = {f"{nm}.Flags & PassFlags.IsOptimization" for nm in names_}
            verdicts = []
            for evs, status in paths(lp_.body):
                a = cond_atoms(evs, c_env)
                first_exit = next((e.kind for e in evs if e.kind in ("continue", "break", "return")), status)
                sw = next((v for k, v in a.items() if k in sw_keys), None)
                fl = next((v for k, v in a.items() if k in fl_keys), None)
                # atoms of the path up to the skip decision only: stop looking after the first RunPass call
                skipped = first_exit == "continue" and not any(last_attr(c) in ("__RunPass", "Process") for c in calls_on_path(evs))
                verdicts.append((skipped, sw, fl))
            good = bool(verdicts) and any(s for s, _, _ in verdicts) and all((sw is False and fl is True) if s else (sw is True or fl is False) for s, sw, fl in verdicts)
            tt = f"{tt} (paths: {sorted(set(verdicts), key=str)})"
    col.check(good, "R02.4", f"{COMPILER}::Compile skips exactly the optimisation passes when optimisation is off", "if not <options.get('optimize', False)> and <pass>.Flags & IsOptimization: continue",
              f"skip condition is `{tt}`", COMPILER, comp)
    mp = model.func("nsl/Pass.py", "MakePassFromVisitor")
    flagsprop = [n for n in ast.walk(mp) if isinstance(n, ast.FunctionDef) and n.name == "Flags"]
    col.check(bool(flagsprop) and "return self.__flags" in unparse(flagsprop[0]) and "self.__flags = flags" in unparse(mp), "R02.4", "nsl/Pass.py::MakePassFromVisitor Flags", "the pass reports the flags it was built with", None, "nsl/Pass.py", mp)
    ap = pipe.ir_passes
    col.check(ap and ap[0] == "RewriteFunctionArgAccess", "R02.4", f"{COMPILER}::irPasses RewriteFunctionArgAccess first", "argument accesses are positional before any optimisation compares variables", f"irPasses order {ap}", COMPILER, pipe.cls.node)
    # ---------------- R02.8 use lists are refreshed after instructions were swapped -----
    # a handler that *returns* a new instruction replaces the visited one in its block (Node.ForEachChild);
    # the function-level use lists then still name the replaced objects until UpdateUses() runs
    from .. import lowering as _low

    _low.check_function_bracket(model, col, "R02.8")
    D_ = Dispatch(model)
    instr_names = {c.name for c in D_.ir_instruction_classes(concrete_only=False)}
    nswap = 0
    for pname in pipe.ir_passes:
        info = pipe.validator_info(pname)
        v = info["visitor"]
        if v is None:
            continue
        swaps = []
        for hn, hm in v.methods.items():
            if hn.startswith("v_") and hn[2:] in instr_names:
                if any(isinstance(r, ast.Return) and r.value is not None and not (isinstance(r.value, ast.Constant) and r.value.value is None) for r in ast.walk(hm)):
                    swaps.append(hn)
        if not swaps:
            continue
        nswap += 1
        refreshed = any(isinstance(c, ast.Call) and last_attr(c) == "UpdateUses" for m_ in v.methods.values() for c in ast.walk(m_))
        order_ok = False
        for m_ in v.methods.values():
            seq = [last_attr(c) for c in ast.walk(m_) if isinstance(c, ast.Call) and last_attr(c) in ("AcceptVisitor", "UpdateUses")]
            if "UpdateUses" in seq and "AcceptVisitor" in seq:
                calls = sorted([(c.lineno, last_attr(c)) for c in ast.walk(m_) if isinstance(c, ast.Call) and last_attr(c) in ("AcceptVisitor", "UpdateUses")])
                order_ok = [n for _, n in calls].index("AcceptVisitor") < [n for _, n in calls].index("UpdateUses")
        # the table the rewrites consult is the *function's* (Function.UpdateUses rebuilds it from every block; a block's own
        # UpdateUses does not touch it): the handler for Function refreshes it on the function it was given, on every path that
        # traversed the function
        hf = v.methods.get("v_Function")
        whole = False
        if hf is not None and len(hf.args.args) >= 2:
            fpar = hf.args.args[1].arg
            whole = True
            for evs, status in paths(hf.body):
                if status == "raise":
                    continue
                seq = []
                for c in calls_on_path(evs):
                    if last_attr(c) == "AcceptVisitor" and isinstance(c.func, ast.Attribute) and unparse(c.func.value) == fpar:
                        seq.append("walk")
                    elif last_attr(c) == "UpdateUses" and isinstance(c.func, ast.Attribute) and unparse(c.func.value) == fpar:
                        seq.append("refresh")
                if "walk" in seq and "refresh" not in seq[seq.index("walk"):]:
                    whole = False
        col.check(refreshed and order_ok and whole, "R02.8", f"{info['file']}::{v.name} refreshes the use lists",
                  f"handlers {swaps} swap instructions; UpdateUses() runs after the traversal",
                  f"handlers {swaps} replace instructions by new objects, but the use lists are not refreshed afterwards: a later ReplaceUses rewires the replaced objects "
                  "and leaves the instructions that are actually in the function untouched (dangling operand once the producer is removed)", info["file"], v.node)
    col.floor("R02.8", "IR passes that swap instructions", nswap, 1)
    # ---------------- R02.9 optimisation visitors keep no state ---------------------------
    # one visitor object processes every function of a module; values and constants belong to one function
    # (per-function reference numbering), so anything remembered across handler calls leaks between functions
    for pname in pipe.ir_passes:
        info = pipe.validator_info(pname)
        v = info["visitor"]
        if v is None or "IsOptimization" not in info.get("flags", ""):
            continue
        state = sorted(a for a in v.instance_attrs())
        # counters / logs that nothing but a pure accessor ever reads are not state of the rewriting (statistics)
        from .c15 import _own_write_only as _owo29

        state = [a for a in state if not _owo29(v, ast.Attribute(value=ast.Name(id="self", ctx=ast.Load()), attr=a.split("__", 2)[-1] if a.startswith("_" + v.name + "__") else a, ctx=ast.Load()))
                 and not _owo29(v, ast.Attribute(value=ast.Name(id="self", ctx=ast.Load()), attr="__" + a.split("__", 2)[-1] if a.startswith("_" + v.name + "__") else a, ctx=ast.Load()))]
        col.check(not state, "R02.9", f"{info['file']}::{v.name} is stateless", "the optimisation visitor stores nothing on itself",
                  f"the visitor keeps {state} across handler calls: IR values (constants, instructions) remembered from one function are plugged into another, "
                  "whose reference numbering they do not belong to", info["file"], v.node)
    # ---------------- R02.5 ------------------------------------------------------
    cv = model.cls(OCC, "OptimizeConstantCastVisitor").own_method("v_CastInstruction")
    if cv is not None:
        from ..sem import expand_helpers as _xh25

        cv = _xh25(model, model.cls(OCC, "OptimizeConstantCastVisitor"), cv)
        from ..sem import expand_module_helpers as _xmh25

        cv = _xmh25(model, OCC, cv, skip=("v_", "GetPass"))  # a module-level `_FoldCast(type, value)` is read in place

    def cast_table(body, typeexpr_markers, valnames):
        """{('Float',) / ('Integer', unsigned?): normalised expression}"""
        from ..sem import local_env

        holder = ast.FunctionDef(name="_", args=ast.arguments(posonlyargs=[], args=[], kwonlyargs=[], kw_defaults=[], defaults=[]), body=body, decorator_list=[], lineno=0)
        cast_env = {k: v for k, v in local_env(holder).items() if k not in valnames}
        table = {}
        for evs, status in paths(body):
            atoms = cond_atoms(evs, cast_env)
            tkey = None
            for k, v in atoms.items():
                if "isinstance" in k and "IntegerType" in k and v:
                    tkey = "Integer"
                elif "isinstance" in k and "FloatType" in k and v:
                    tkey = "Float"
            if tkey is None:
                # else-branch of `isinstance(.., IntegerType)` with an assert FloatType
                if any("IntegerType" in k and v is False for k, v in atoms.items()) and any(
                        e.kind == "stmt" and isinstance(e.node, ast.Assert) and "FloatType" in unparse(e.node) for e in evs):
                    tkey = "Float"
            if tkey is None:
                continue
            uns = None
            for k, v in atoms.items():
                if k.endswith(".Unsigned"):
                    uns = v
            expr = None
            for e in evs:
                if e.kind == "stmt" and isinstance(e.node, ast.Assign) and isinstance(e.node.targets[0], ast.Name) and e.node.targets[0].id in valnames:
                    src = unparse(e.node.value)
                    if any(vn in src for vn in valnames) and "localScope" not in src and ".Value" not in src:
                        expr = src
            if expr is None:
                # conversion given as a callable:  convert = math.floor / float
                for e in evs:
                    if e.kind == "stmt" and isinstance(e.node, ast.Assign) and isinstance(e.node.value, (ast.Name, ast.Attribute)) and \
                            (dotted(e.node.value) or "") in ("float", "int", "math.floor", "math.trunc", "math.ceil", "abs", "round"):
                        expr = f"{dotted(e.node.value)}($v)"
            if expr is None:
                # conversion given as a one-argument lambda:  convert = lambda v: <expr over v>
                for e in evs:
                    if e.kind == "stmt" and isinstance(e.node, ast.Assign) and isinstance(e.node.value, ast.Lambda) and len(e.node.value.args.args) == 1:
                        a = e.node.value.args.args[0].arg

                        class R(ast.NodeTransformer):
                            def visit_Name(self, n):
                                return ast.copy_location(ast.Name(id="$v", ctx=n.ctx), n) if n.id == a else n

                        expr = unparse(R().visit(ast.parse(unparse(e.node.value.body), mode="eval").body))
            if expr is None:
                continue
            for vn in valnames:
                expr = expr.replace(vn, "$v")
            key = (tkey,) if tkey == "Float" else (tkey, "unsigned" if uns else "signed")
            table[key] = expr
        return table

    vm_tab = cast_table(vm.arm("CAST").body, None, ["var"])
    fold_tab = cast_table(cv.body, None, ["constant"])
    col.note("R02.5", {"vm": {str(k): v for k, v in vm_tab.items()}, "fold": {str(k): v for k, v in fold_tab.items()}})
    col.floor("R02.5", "cast cases executed by the VM", len(vm_tab), 3)
    for k, vexpr in sorted(vm_tab.items()):
        f = fold_tab.get(k)
        if f is None:
            # not folded: must be left alone (no Replace on that path) - checked by 'cannot reject'
            col.ok("R02.5", f"{OCC}::v_CastInstruction target {k}", "not folded (the cast stays and is executed by the VM)")
        else:
            col.check(f == vexpr, "R02.5", f"{OCC}::v_CastInstruction target {k}", f"folds with {f}, the VM computes {vexpr}",
                      f"constant cast to {k} is folded with `{f}` but the VM's CAST arm computes `{vexpr}`: optimised and unoptimised modules return different values", OCC, cv)
    mk = [c for c in ast.walk(cv) if isinstance(c, ast.Call) and last_attr(c) == "CreateConstant"]
    from ..sem import local_env, rtext

    cip_ = cv.args.args[1].arg
    # the value variable: the local that starts as <cast>.Value.Value and is re-bound by the folding arithmetic
    valvars = {n.targets[0].id for n in ast.walk(cv) if isinstance(n, ast.Assign) and isinstance(n.targets[0], ast.Name) and rtext(n.value, local_env(cv)) == f"{cip_}.Value.Value"}
    # ... or a local every binding of which is a numeric conversion of that value (`constant = float(value.Value)` per
    # branch, with a module-level sentinel for "not folded")
    env0_ = local_env(cv)
    byname_ = {}
    for n in ast.walk(cv):
        if isinstance(n, ast.Assign) and len(n.targets) == 1 and isinstance(n.targets[0], ast.Name):
            byname_.setdefault(n.targets[0].id, []).append(n.value)
    for nm_, vs_ in byname_.items():
        if nm_ in valvars or len(vs_) < 2:
            continue

        def conv_(v_):
            t_ = rtext(v_, {k: x for k, x in env0_.items() if k != nm_})
            if isinstance(v_, ast.Name) and v_.id.isupper() and v_.id in model.file(OCC).assigns:
                return True
            if isinstance(v_, ast.Constant) and v_.value is None:
                return True  # "nothing folded" marker of a helper that returns (folded?, value)
            return t_.startswith(("float(", "int(", "math.floor(", "abs(", "math.trunc(")) and f"{cip_}.Value.Value" in t_

        if all(conv_(v_) for v_ in vs_):
            valvars.add(nm_)
    cv_env = {k: v for k, v in local_env(cv).items() if k not in valvars}
    col.check(bool(mk) and len(mk[0].args) == 2 and rtext(mk[0].args[0], cv_env) == f"{cip_}.Type" and (unparse(mk[0].args[1]) in valvars or rtext(mk[0].args[1], cv_env).startswith(("math.floor(", "abs(", "float(", "int("))), "R02.5", f"{OCC}::v_CastInstruction new constant", "the folded constant has the cast's target type", None, OCC, cv)
    # the replacement is, on every path, the constant just created in the cast's own function
    for c_ in [c for c in ast.walk(cv) if isinstance(c, ast.Call) and last_attr(c) == "Replace" and len(c.args) == 2]:
        a1 = c_.args[1]
        srcs = find_assign(cv, a1.id) if isinstance(a1, ast.Name) else [a1]
        good_src = bool(srcs) and all(isinstance(s_, ast.Call) and last_attr(s_) == "CreateConstant" and "Parent.Parent" in rtext(s_.func, cv_env) for s_ in srcs)
        col.check(good_src, "R02.5", f"{OCC}::v_CastInstruction replacement provenance", "the replacement is the result of <cast's function>.CreateConstant(...)",
                  f"the replacement `{unparse(a1)}` can come from {[unparse(s_)[:40] for s_ in srcs]}: a constant that was not created in the cast's own function has a reference of another function", OCC, c_)
    rpc = [c for c in ast.walk(cv) if isinstance(c, ast.Call) and last_attr(c) == "Replace"]
    col.check(bool(rpc) and unparse(rpc[0].args[0]) == cip_, "R02.5", f"{OCC}::v_CastInstruction replaces the cast", "the cast instruction is replaced by the constant", None, OCC, cv)
    guard = [n for n in ast.walk(cv) if isinstance(n, ast.If) and "isinstance" in unparse(n.test) and "ConstantValue" in unparse(n.test)]
    col.check(bool(guard), "R02.5", f"{OCC}::v_CastInstruction only constants", "only casts of constants are folded", "the fold is not restricted to constant operands", OCC, cv)
    # ---------------- R02.6 ------------------------------------------------------
    check_pool_key(model, col, "R02.6")
    # ---------------- R02.10 what forwarding relies on: STORE then LOAD yields the stored object itself ------
    vmm = VMModel(model)
    for opc_, want_desc in (("STORE", "binds the variable's slot to the stored value itself"), ("LOAD", "binds the result to the variable's current value itself")):
        arm_ = vmm.arm(opc_)
        holder_ = ast.Module(body=arm_.body, type_ignores=[])
        local_vals = {}
        for n in ast.walk(holder_):
            if isinstance(n, ast.Assign) and isinstance(n.targets[0], ast.Name):
                local_vals.setdefault(n.targets[0].id, []).append(n.value)
        nb = 0
        for n in ast.walk(holder_):
            if isinstance(n, ast.Assign) and isinstance(n.targets[0], ast.Subscript):
                v = n.value
                if isinstance(v, ast.Name) and len(local_vals.get(v.id, [])) == 1:
                    v = local_vals[v.id][0]
                keytxt = unparse(n.targets[0].slice)
                if opc_ == "STORE" and "Variable" in keytxt:
                    nb += 1
                    okv = isinstance(v, ast.Subscript) and "Store.Reference" in unparse(v.slice)
                elif opc_ == "LOAD" and ("Reference" in keytxt or keytxt == "ref"):
                    nb += 1
                    okv = isinstance(v, ast.Subscript) and "Variable" in unparse(v.slice)
                else:
                    continue
                col.check(okv, "R02.10", f"{VM}::__Execute {opc_} arm `{unparse(n.targets[0])[:40]}`", want_desc,
                          f"`{' '.join(unparse(n).split())[:70]}` (value `{' '.join(unparse(v).split())[:50]}`) transforms or copies the value: load-after-store forwarding replaces the reloaded value by the "
                          "stored one, so optimised and unoptimised programs then work on different objects (a write through the copy is lost or gained)", VM, n)
        col.floor("R02.10", f"slot bindings in the {opc_} arm", nb, 3)
    # constant folding turns an instruction operand into a ConstantValue: the interpreter may read the two differently, but
    # must not *keep* anything (a cache, a counter that is read, a shared list) for one kind only
    from ..state import mutations_in as _mut210, root_name as _root210

    # the value map: the local most often written as `<map>[...] = ..` in the interpreter loop
    import collections as _coll210

    cnt_ = _coll210.Counter(t.value.id for n in ast.walk(vmm.loop) if isinstance(n, ast.Assign) for t in n.targets if isinstance(t, ast.Subscript) and isinstance(t.value, ast.Name))
    vmap = cnt_.most_common(1)[0][0] if cnt_ else None
    if vmap is None:
        raise AnchorMissing(f"{VM}::__Execute registers the function's constants in the value map")
    kind_tests = []
    for m_ in vmm.ec.methods.values():
        for n in ast.walk(m_):
            if isinstance(n, ast.If) and "ConstantValue" in unparse(n.test):
                kept = [node for recv, node in _mut210(ast.Module(body=n.body + n.orelse, type_ignores=[])) if _root210(recv) != vmap]
                kind_tests.append((m_, n, kept))
    bad_ = next(((m_, n, k) for m_, n, k in kind_tests if k), None)
    col.check(bad_ is None, "R02.10", f"{VM}::ExecutionContext keeps nothing per operand kind", f"{len(kind_tests)} test(s) on ConstantValue operands; none guards a lasting write",
              (f"under `{' '.join(unparse(bad_[1].test).split())[:70]}` the interpreter does `{' '.join(unparse(bad_[2][0]).split())[:60]}`" if bad_ else "") + ": whether an operand is a constant or an "
              "instruction is exactly what constant folding changes, so the optimised and the unoptimised module are executed differently", VM, bad_[2][0] if bad_ else vmm.execute)
    # ---------------- R02.7 ------------------------------------------------------
    ld = h.args.args[1].arg  # the load being visited
    pv = None  # the name holding the previous instruction
    for n in ast.walk(h):
        if isinstance(n, ast.Assign) and isinstance(n.targets[0], ast.Name) and isinstance(n.value, ast.Call) and last_attr(n.value) == "GetPreviousInstruction":
            pv = n.targets[0].id
    if pv is None:
        inline = [c for c in ast.walk(h) if isinstance(c, ast.Call) and last_attr(c) == "GetPreviousInstruction"]
        if inline:
            pv = " ".join(unparse(inline[0]).split())
        else:
            col.bad("R02.7", f"{LAS}::previous instruction source",
                    "the handler never asks the load's block for the instruction directly before the load (GetPreviousInstruction): whatever it forwards from is not known to be "
                    "the store immediately preceding the load in the same block (a store from another block or an earlier function can be forwarded)", LAS, h)
            gp = bb.methods.get("GetPreviousInstruction")
            if gp is not None:
                col.check(_previous_ok(bb, gp), "R02.7", f"{IR}::BasicBlock.GetPreviousInstruction",
                          "the directly preceding instruction of the same block (index - 1), None for the first", "GetPreviousInstruction does not return the directly preceding instruction of the same block", IR, gp)
            return
    h_env = {k: v for k, v in local_env(h).items() if k != pv}
    need = {
        f"{ld}.Store is None": True,
        f"{pv} is None": False,
        f"isinstance({pv}, LinearIR.VariableAccessInstruction)": True,
        f"{pv}.Variable == {ld}.Variable": True,
        f"{pv}.Store is None": False,
    }
    nfw = 0
    for evs, status in paths(h.body):
        cs = [c for c in calls_on_path(evs) if last_attr(c) == "ReplaceUses"]
        if not cs:
            continue
        nfw += 1
        atoms = cond_atoms(evs, h_env)
        if atoms.get(f"{ld}.Variable == {pv}.Variable") is True:
            atoms[f"{pv}.Variable == {ld}.Variable"] = True
        missing = [k for k, v in need.items() if atoms.get(k) is not v]
        col.check(not missing, "R02.7", f"{LAS}::v_VariableAccessInstruction forwarding precondition",
                  "forwarding happens only for: a load, whose previous instruction exists, is a variable access, a store, to the same variable",
                  f"the forwarding path does not establish {missing}: a load is replaced by a value that is not what the variable holds", LAS, cs[0])
        a = cs[0].args
        col.check(len(a) == 2 and rtext(a[0], h_env) == ld and rtext(a[1], h_env) == f"{pv}.Store", "R02.7", f"{LAS}::v_VariableAccessInstruction forwarded value",
                  "uses of the load are rewired to the stored value", f"uses are rewired with {[rtext(x, h_env) for x in a]}", LAS, cs[0])
    col.floor("R02.7", "forwarding paths", nfw, 1)
    prev = find_assign(h, pv)
    col.check(bool(prev) and all(rtext(p_, h_env) == f"{ld}.Parent.GetPreviousInstruction({ld})" for p_ in prev), "R02.7", f"{LAS}::previous instruction source", "previous = the load's block .GetPreviousInstruction(load)", f"{[unparse(p) for p in prev]}", LAS, h)
    gp = bb.own_method("GetPreviousInstruction")
    col.check(_previous_ok(bb, gp), "R02.7", f"{IR}::BasicBlock.GetPreviousInstruction",
              "the directly preceding instruction of the same block (index - 1), None for the first", "GetPreviousInstruction does not return the directly preceding instruction of the same block", IR, gp)
    # ---------------- R02.11 the bookkeeping the rewrites run on -------------------------------------
    # replacing by reference is only sound if a reference names one value of the function: all values draw their number from
    # one allocator (= R14.1), whose table only grows
    from ..report import Collector as _C211
    from . import c14 as _c14

    sub = _C211("C14")
    _c14.check_allocator(model, sub)
    n211 = 0
    for ob in sub.obligations:
        if ob.rule == "R14.1":
            ob.rule = "R02.11"
            col.obligations.append(ob)
            n211 += 1
    col.floor("R02.11", "allocator obligations shared with C14", n211, 8)
    check_value_table(model, col, "R02.11")
    # forwarding hands an instruction the *stored* value, whose own type can differ from the variable's: what an arithmetic
    # arm does must follow the instruction's type, not the types its operand values carry (= R01.1, division)
    from ..grammar import Grammar as _G212
    from . import c01 as _c01_212

    sub212 = _C211("C01")
    _c01_212.run_R01_1(model, sub212, _G212(model), vm)
    n212 = 0
    for ob in sub212.obligations:
        if "operator / chain" in ob.construct:
            ob.detail = "[R01.1] " + (ob.detail or "")
            ob.rule = "R02.10"
            col.obligations.append(ob)
            n212 += 1
    col.floor("R02.10", "division obligations shared with C01", n212, 1)


def check_value_table(model, col, rule):
    """Function.__values (its length is the next fresh reference) only grows; BasicBlock.UpdateUses records every user of
    every used value."""
    fn = model.cls(IR, "Function")
    fld = mangle("Function", "__values")
    bad = []
    for name, m in fn.methods.items():
        if not m.args.args:
            continue
        s = m.args.args[0].arg
        for x in ast.walk(m):
            tg = x.targets if isinstance(x, ast.Assign) else [x.target] if isinstance(x, (ast.AugAssign, ast.AnnAssign)) else x.targets if isinstance(x, ast.Delete) else []
            for t in tg:
                b = t
                while isinstance(b, ast.Subscript):
                    b = b.value
                if isinstance(b, ast.Attribute) and isinstance(b.value, ast.Name) and b.value.id == s and mangle("Function", b.attr) == fld:
                    if not (name == "__init__" and t is b):
                        bad.append(f"{name}: `{' '.join(unparse(x).split())[:60]}`")
            if isinstance(x, ast.Call) and isinstance(x.func, ast.Attribute) and isinstance(x.func.value, ast.Attribute) and isinstance(x.func.value.value, ast.Name) \
                    and x.func.value.value.id == s and mangle("Function", x.func.value.attr) == fld and x.func.attr in ("pop", "remove", "clear", "insert", "extend", "sort", "reverse"):
                bad.append(f"{name}: `{unparse(x.func)}`")
    col.check(not bad, rule, f"{IR}::Function value table only grows", "bound in __init__, appended to by RegisterValue, never shrunk or re-bound",
              f"{bad}: the next reference is the table's length, so after an entry is dropped a new value gets a number that is still in use - replacing `by reference` then rewires "
              "operands of the wrong value", IR, fn.node)
    # the constant pool only grows as well: a constant stays an operand of whatever used it when a pass creates a second one,
    # and the interpreter binds exactly the pool's entries before it runs the function
    pool = [n.targets[0].attr for n in ast.walk(fn.own_method("__init__")) if isinstance(n, ast.Assign) and isinstance(n.targets[0], ast.Attribute) and "onstant" in n.targets[0].attr]
    if len(pool) != 1:
        raise AnchorMissing(f"{IR}::Function.__init__ creates the constant pool")
    bad_c = []
    for name, m in fn.methods.items():
        if not m.args.args or name == "__init__":
            continue
        s = m.args.args[0].arg
        for x in ast.walk(m):
            tg = x.targets if isinstance(x, (ast.Assign, ast.Delete)) else [x.target] if isinstance(x, ast.AugAssign) else []
            for t in tg:
                if isinstance(t, ast.Attribute) and isinstance(t.value, ast.Name) and t.value.id == s and t.attr == pool[0] and name != "_Traverse":
                    bad_c.append((name, x))
                if isinstance(x, ast.Delete) and isinstance(t, ast.Subscript) and isinstance(t.value, ast.Attribute) and t.value.attr == pool[0]:
                    bad_c.append((name, x))
            if isinstance(x, ast.Call) and isinstance(x.func, ast.Attribute) and isinstance(x.func.value, ast.Attribute) and x.func.value.attr == pool[0] \
                    and x.func.attr in ("pop", "popitem", "clear", "remove", "discard"):
                bad_c.append((name, x))
    col.check(not bad_c, rule, f"{IR}::Function constant pool only grows", f"`{pool[0]}` is bound in __init__ and only ever gains entries",
              (f"{bad_c[0][0]}: `{' '.join(unparse(bad_c[0][1]).split())[:70]}`" if bad_c else "") + " takes a constant out of the pool: an instruction in another block (or one created later "
              "for the same literal) still has it as an operand, and the interpreter no longer binds it before the function runs (KeyError)", IR, bad_c[0][1] if bad_c else fn.node)
    bb = model.cls(IR, "BasicBlock")
    uu = bb.own_method("UpdateUses")
    if uu is None:
        raise AnchorMissing(f"{IR}::BasicBlock.UpdateUses")
    ok = False
    for outer in [l for l in ast.walk(uu) if isinstance(l, ast.For) and isinstance(l.target, ast.Name)]:
        if not (isinstance(outer.iter, ast.Attribute) and "instructions" in outer.iter.attr):
            continue
        for inner in [l for b_ in outer.body for l in ast.walk(b_) if isinstance(l, ast.For) and isinstance(l.target, ast.Name)]:
            from ..sem import local_env as _le211, resolve as _rs211

            it_ = _rs211(inner.iter, _le211(uu, allow_impure=True))
            if not any(isinstance(a, ast.Attribute) and a.attr == "Uses" and isinstance(a.value, ast.Name) and a.value.id == outer.target.id for a in ast.walk(it_)):
                continue
            for st in inner.body:
                c = st.value if isinstance(st, ast.Expr) else None
                if isinstance(c, ast.Call) and last_attr(c) == "append" and len(c.args) == 1 and isinstance(c.args[0], ast.Name) and c.args[0].id == outer.target.id:
                    recv = c.func.value
                    key = recv.slice if isinstance(recv, ast.Subscript) else recv.args[0] if isinstance(recv, ast.Call) and last_attr(recv) == "setdefault" and recv.args else None
                    base = recv.value if isinstance(recv, ast.Subscript) else recv.func.value if isinstance(recv, ast.Call) and isinstance(recv.func, ast.Attribute) else None
                    if isinstance(key, ast.Name) and key.id == inner.target.id and isinstance(base, ast.Attribute) and "uses" in base.attr:
                        ok = True
    col.check(ok, rule, f"{IR}::BasicBlock.UpdateUses records every user", "for every instruction, for every value it uses: uses[value].append(instruction)",
              "UpdateUses no longer appends each using instruction to the list of each value it uses: when a value has several users only some are rewired by ReplaceUses, "
              "the others keep naming the removed instruction", IR, uu)
