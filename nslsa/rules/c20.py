"""C20 Reported source positions designate the text they talk about."""
from __future__ import annotations

import ast

from ..grammar import Grammar, PARSER
from ..model import AnalysisError, AnchorMissing, dotted, find_assign, last_attr, unparse, walk_no_nested
from ..paths import paths, calls_on_path
from ..pipeline import Pipeline
from .c08 import select_stmts, p_index

TITLE = "source positions: located token = named token, same text, hull, diagnostic wiring, line/column idioms"
LEVEL = "other"
ASTF = "nsl/ast/__init__.py"
UPD = "nsl/passes/UpdateLocations.py"
NAMES = "nsl/passes/ValidateVariableNames.py"
EXPLANATION = (
    "R20.1 in every grammar action that locates a node built from a token, the symbol handed to __GetLocation is the symbol "
    "whose text names the node, it is a terminal, and p[k] still holds the token text at that point (the helper measures "
    "len(p[k])); R20.2 the SourceMapping is built from the very string handed to the parser and positions come only from "
    "lexpos; R20.3 Location.Merge takes the minimum of begins and the maximum of ends over all arguments, UpdateLocations "
    "visits children first, merges own and children's known locations and runs before every pass that reports positions; "
    "R20.4 the redeclaration diagnostic receives (name, new location, existing location) in the order of its placeholders; "
    "R20.5 the line table / lookup / formatting idioms: line starts accumulate len(line)+1 over split('\\n'), lookup is "
    "bisect_right-1, columns are offset - line start + 1 with the end column taken against the END line's start (the line "
    "table is folded over sample texts, whatever way it is computed). R20.2 also: Parse maps and parses the caller's text, "
    "not a re-bound one."
)
NOT_DECIDED = "the line/column arithmetic for every text and offset as values (R20.5 checks the idioms' shape, not their evaluation)"
ASSUMPTIONS = ["1-based line:column with end-exclusive end column is the display convention (stated in Location.__str__'s own comment)"]


def canon(e, env=None, depth=0):
    """Canonical text of an integer expression: names inlined from env, sums
    flattened and sorted."""
    env = env or {}

    def terms(n, sign=1):
        if isinstance(n, ast.BinOp) and isinstance(n.op, ast.Add):
            return terms(n.left, sign) + terms(n.right, sign)
        if isinstance(n, ast.BinOp) and isinstance(n.op, ast.Sub):
            return terms(n.left, sign) + terms(n.right, -sign)
        if isinstance(n, ast.Name) and n.id in env and depth < 6:
            return terms(env[n.id], sign)
        if isinstance(n, ast.Call):
            f = unparse(n.func)
            args = ",".join(canon(a, env, depth + 1) for a in n.args)
            return [(sign, f"{f}({args})")]
        return [(sign, " ".join(unparse(n).split()))]

    ts = sorted(terms(e), key=lambda t: (t[1], t[0]))
    return " ".join(("+" if s > 0 else "-") + t for s, t in ts)


def run(model, col, tier):
    G = Grammar(model)
    pipe = Pipeline(model)
    pc = G.parser_class
    # ---------------- R20.1 ----------------------------------------------------
    nsites = 0
    for P in G.productions:
        stmts, pname = select_stmts(P.func, len(P.syms))
        # symbolic walk in statement order, tracking which p[i] were overwritten and local aliases
        overwritten = {}
        built = {}  # variable text (e.g. 'p[0]', 'pe') -> (class, token index j, node)

        def token_arg(call):
            cands = []
            for a in list(call.args) + [k.value for k in call.keywords]:
                for s in ast.walk(a):
                    i = p_index(s, pname)
                    if i is not None and 1 <= i <= len(P.syms) and P.syms[i - 1] in G.terminals:
                        cands.append(i)
            return cands

        for st in stmts:
            # record constructions
            if isinstance(st, ast.Assign) and isinstance(st.value, ast.Call):
                ci = model.resolve_class_expr(PARSER, st.value.func)
                if ci is not None and ci.file == ASTF:
                    tgt = unparse(st.targets[0])
                    cands = token_arg(st.value)
                    # token text must not have been overwritten already
                    built[tgt] = (ci.name, cands, st.value, dict(overwritten))
            for c in ast.walk(st):
                if isinstance(c, ast.Call) and last_attr(c) == "SetLocation" and c.args and isinstance(c.args[0], ast.Call) and last_attr(c.args[0]) == "__GetLocation":
                    g = c.args[0]
                    recv = unparse(c.func.value)
                    k = g.args[1].value if len(g.args) > 1 and isinstance(g.args[1], ast.Constant) else None
                    nsites += 1
                    key = f"{PARSER}::{P.func.name}[{P}] location of {recv}"
                    info = built.get(recv)
                    if info is None or k is None:
                        col.bad("R20.1", key, f"cannot relate `{unparse(c)}` to a node built from a token in this action", PARSER, c)
                        continue
                    cname, cands, ctor, _ow = info
                    if len(set(cands)) != 1:
                        col.bad("R20.1", key, f"{cname} is built from tokens {cands}; cannot tell which one names it", PARSER, c)
                        continue
                    j = cands[0]
                    term = 1 <= k <= len(P.syms) and P.syms[k - 1] in G.terminals
                    fresh = k not in overwritten
                    good = k == j and term and fresh
                    why = []
                    if k != j:
                        why.append(f"the node is named by symbol {j} (`{P.syms[j-1]}`) but symbol {k} (`{P.syms[k-1] if 1 <= k <= len(P.syms) else '?'}`) is located")
                    if not term:
                        why.append(f"symbol {k} is not a token")
                    if not fresh:
                        why.append(f"p[{k}] was overwritten with a node before the call, but __GetLocation measures len(p[{k}])")
                    col.check(good, "R20.1", key, f"{cname} built from token p[{j}] (`{P.syms[j-1]}`) is located at symbol {k}",
                              "; ".join(why) + f": the reported range designates other text than the {cname}'s", PARSER, c)
            # overwrites of p[i]
            if isinstance(st, ast.Assign):
                for t in st.targets:
                    i = p_index(t, pname)
                    if i is not None and i != 0:
                        overwritten[i] = st
    col.floor("R20.1", "located token sites", nsites, 14)
    # the converse: the leaves every range is built from.  Nodes of these classes are what diagnostics point at (declarations,
    # parameters) or the leaves UpdateLocations hulls composite ranges from (names, literals): wherever a grammar action builds
    # one from a single naming token, it locates it (confirmed for all 19 construction sites of the pinned tree)
    LEAVES = ("Argument", "LiteralExpression", "PrimaryExpression", "VariableDeclaration")
    nleaf = 0
    for P in G.productions:
        stmts, pname = select_stmts(P.func, len(P.syms))
        built2, located2 = {}, set()
        for st in stmts:
            if isinstance(st, ast.Assign) and isinstance(st.value, ast.Call):
                ci = model.resolve_class_expr(PARSER, st.value.func)
                if ci is not None and ci.file == ASTF and ci.name in LEAVES:
                    toks = {i for a in list(st.value.args) + [k.value for k in st.value.keywords] for s_ in ast.walk(a) for i in [p_index(s_, pname)]
                            if i is not None and 1 <= i <= len(P.syms) and P.syms[i - 1] in G.terminals}
                    if len(toks) == 1:
                        built2[unparse(st.targets[0])] = (ci.name, st.value)
            for c in ast.walk(st):
                if isinstance(c, ast.Call) and last_attr(c) == "SetLocation" and isinstance(c.func, ast.Attribute):
                    located2.add(unparse(c.func.value))
        for tgt, (cname, ctor) in built2.items():
            nleaf += 1
            col.check(tgt in located2, "R20.1", f"{PARSER}::{P.func.name}[{P}] locates its {cname}", f"the {cname} built from a token gets that token's range",
                      f"`{' '.join(unparse(ctor).split())[:60]}` is never given a location in this action: the node keeps the unknown range, so a diagnostic about it shows no / another "
                      "position and enclosing constructs are hulled without it", PARSER, ctor)
    col.floor("R20.1", "leaf constructions that must be located", nleaf, 16)
    gl = pc.own_method("__GetLocation")
    which = gl.args.args[2].arg
    pn = gl.args.args[1].arg
    mk = [c for c in ast.walk(gl) if isinstance(c, ast.Call) and last_attr(c) == "Location"]
    good = False
    from ..sem import local_env, resolve

    gl_env = local_env(gl, allow_impure=True)
    span0 = resolve(mk[0].args[0], gl_env) if mk and mk[0].args else None
    if isinstance(span0, ast.Tuple) and len(span0.elts) == 2:
        b, e = span0.elts
        good = canon(b) ==f"+{pn}.lexpos(+{which})" and sorted(canon(e).split(" ")) == sorted([f"+len(+{pn}[{which}])", f"+{pn}.lexpos(+{which})"])
        ctext = (canon(b), canon(e))
    else:
        ctext = None
    if not good:
        # optional parameters that no call site passes take their default: read the helper along the path that follows from
        # `<param> is None`, with the locals that path binds
        sites_gl = [c for c in ast.walk(pc.node) if isinstance(c, ast.Call) and last_attr(c) == "__GetLocation"]
        npos = len(gl.args.args) - 1 - len(gl.args.defaults)
        opt = [a.arg for a in gl.args.args[1 + npos:]]
        unpassed = {o for i, o in enumerate(opt) if not any(len(c.args) > npos + i or any(k.arg == o for k in c.keywords) for c in sites_gl)
                    and isinstance(gl.args.defaults[i], ast.Constant) and gl.args.defaults[i].value is None}

        def fold_gl(t_):
            if isinstance(t_, ast.Compare) and len(t_.ops) == 1 and isinstance(t_.left, ast.Name) and t_.left.id in unpassed and isinstance(t_.comparators[0], ast.Constant) and t_.comparators[0].value is None:
                return isinstance(t_.ops[0], ast.Is)
            return None

        for evs_, st_ in paths(gl.body, fold=fold_gl):
            if st_ != "return":
                continue
            penv = {}
            for e_ in evs_:
                if e_.kind == "stmt" and isinstance(e_.node, ast.Assign) and len(e_.node.targets) == 1 and isinstance(e_.node.targets[0], ast.Name):
                    penv[e_.node.targets[0].id] = resolve(e_.node.value, {k_: v_ for k_, v_ in penv.items() if k_ != e_.node.targets[0].id})
            rv_ = resolve(evs_[-1].node.value, penv)
            sp_ = rv_.args[0] if isinstance(rv_, ast.Call) and last_attr(rv_) == "Location" and rv_.args else None
            if isinstance(sp_, ast.Tuple) and len(sp_.elts) == 2:
                b, e = sp_.elts
                good = canon(b) == f"+{pn}.lexpos(+{which})" and sorted(canon(e).split(" ")) == sorted([f"+len(+{pn}[{which}])", f"+{pn}.lexpos(+{which})"])
                ctext = (canon(b), canon(e))
            else:
                good = False
            if not good:
                break
    col.check(good, "R20.1", f"{PARSER}::NslParser.__GetLocation span", "span = (lexpos(k), lexpos(k) + len(p[k]))",
              f"span is {ctext}; expected (lexpos(k), lexpos(k) + len(p[k])) of the same symbol", PARSER, gl)
    # what the helper returns on every path is that token span and nothing merged into it: at parse time composite nodes still
    # carry the unknown range (-1, -1), so a hull taken here drags the begin to -1 (the hull of composites is UpdateLocations' job)
    merged = [c for c in ast.walk(gl) if isinstance(c, ast.Call) and last_attr(c) in ("Merge", "GetLocation")]
    rets_gl = [resolve(r.value, gl_env) for r in ast.walk(gl) if isinstance(r, ast.Return) and r.value is not None]
    plain = bool(rets_gl) and all(isinstance(r, ast.Call) and last_attr(r) == "Location" for r in rets_gl)
    col.check(not merged and plain, "R20.1", f"{PARSER}::NslParser.__GetLocation returns the token's own span", "every return is Location(<token span>); no other location is merged in",
              f"__GetLocation merges other locations into the token span (`{' '.join(unparse(merged[0]).split())[:60] if merged else [unparse(r)[:40] for r in rets_gl]}`): parts that are not located yet "
              "contribute the unknown range, so the reported range starts at offset -1", PARSER, gl)
    col.check(bool(mk) and len(mk[0].args) > 1 and "sourceMapping" in unparse(mk[0].args[1]), "R20.2", f"{PARSER}::NslParser.__GetLocation mapping",
              "every location carries the parser's source mapping", "locations are created without the parser's source mapping", PARSER, gl)
    # ---------------- R20.2 ----------------------------------------------------
    pa = pc.own_method("Parse")
    if pa is not None:
        from ..sem import expand_helpers as _xh202

        pa = _xh202(model, pc, pa)  # e.g. an extracted `__CreateSourceMapping(text, name)` is read in place
    textp = pa.args.args[1].arg
    sm = [n for n in ast.walk(pa) if isinstance(n, ast.Assign) and isinstance(n.value, ast.Call) and last_attr(n.value) == "SourceMapping"]
    prs = [c for c in ast.walk(pa) if isinstance(c, ast.Call) and last_attr(c) == "parse"]
    good = bool(sm) and bool(prs) and sm[0].value.args and unparse(sm[0].value.args[0]) == textp and prs[0].args and unparse(prs[0].args[0]) == textp
    col.check(good, "R20.2", f"{PARSER}::NslParser.Parse same text", "SourceMapping(text) and parser.parse(text, ...) use the same string",
              "the source mapping is not built from the very string that is parsed: offsets and line table refer to different texts", PARSER, pa)
    if sm and prs:
        col.check(sm[0].lineno < prs[0].lineno, "R20.2", f"{PARSER}::NslParser.Parse mapping before parsing", "the mapping exists before actions run", None, PARSER, pa)
    # ... and that string is the caller's: positions are reported to someone who holds the text that was passed in, so the
    # parameter is not re-bound (comments blanked out, line ends normalised, a BOM dropped) before it is mapped and parsed
    reb = [n for n in ast.walk(pa) if isinstance(n, ast.Name) and n.id == textp and isinstance(n.ctx, ast.Store)]
    col.check(not reb, "R20.2", f"{PARSER}::NslParser.Parse maps the caller's text", f"`{textp}` is mapped and parsed as it was passed in",
              f"`{textp}` is re-bound (line {reb[0].lineno if reb else 0}) before it is mapped / parsed: offsets are offsets into the changed text, but they are reported against the text the caller "
              "has - every range behind the first change designates other characters", PARSER, reb[0] if reb else pa)
    lex = model.cls("nsl/lexer.py", "NslLexer")
    # ... and the lexer scans that very string: NslLexer.input forwards its argument unchanged
    li = lex.own_method("input")
    lip = li.args.args[1].arg
    fwd = [c for c in ast.walk(li) if isinstance(c, ast.Call) and last_attr(c) == "input" and isinstance(c.func, ast.Attribute) and "lexer" in unparse(c.func.value)]
    from ..sem import local_env as _le0, rtext as _rt0

    li_env = _le0(li)
    rebound = any(isinstance(n, ast.Name) and isinstance(n.ctx, ast.Store) and n.id == lip for n in ast.walk(li))
    col.check(bool(fwd) and all(len(c.args) == 1 and _rt0(c.args[0], li_env) == lip for c in fwd) and not rebound, "R20.2", "nsl/lexer.py::NslLexer.input forwards the text unchanged",
              "token offsets index the string the source mapping was built from",
              f"the lexer scans `{_rt0(fwd[0].args[0], li_env) if fwd and fwd[0].args else '?'}`, not the string it was given: every token offset is relative to a different text than the "
              "line table (ranges are shifted)", "nsl/lexer.py", li)
    # no lexer rule rewrites lexpos
    rew = [n for m in lex.methods.values() for n in ast.walk(m) if isinstance(n, (ast.Assign, ast.AugAssign)) and "lexpos" in unparse(n.targets[0] if isinstance(n, ast.Assign) else n.target)]
    col.check(not rew, "R20.2", "nsl/lexer.py::NslLexer leaves lexpos alone", "token offsets are PLY's offsets into the input string", "a lexer rule rewrites lexpos", "nsl/lexer.py", lex.node)
    # __GetLocation measures len(p[k]): the token value must stay the matched text
    for name, m in lex.methods.items():
        if not name.startswith("t_") or len(m.args.args) < 2:
            continue
        tp = m.args.args[1].arg
        vrew = [n for n in ast.walk(m) if isinstance(n, (ast.Assign, ast.AugAssign)) and
                any(isinstance(t, ast.Attribute) and t.attr == "value" and isinstance(t.value, ast.Name) and t.value.id == tp
                    for t in (n.targets if isinstance(n, ast.Assign) else [n.target]))]
        col.check(not vrew, "R20.2", f"nsl/lexer.py::NslLexer.{name} keeps the token text",
                  "the token value is the matched source text (its length is the token's extent)",
                  f"`{unparse(vrew[0]) if vrew else ''}` changes the token's value: the parser computes a token's end as lexpos + len(value), so the located range no longer covers the token's characters", "nsl/lexer.py", m)
    # ---------------- R20.3 ----------------------------------------------------
    loc = model.cls(ASTF, "Location")
    mg = loc.own_method("Merge")
    from ..sem import local_env as _le, resolve as _resolve

    m_env = _le(mg)
    tup = [n for n in ast.walk(mg) if isinstance(n, ast.Assign) and isinstance(n.value, ast.Tuple) and len(n.value.elts) == 2]
    st_start = st_end = None
    if tup:
        e0, e1 = (_resolve(e, m_env) for e in tup[0].value.elts)
        if isinstance(e0, ast.Call) and dotted(e0.func) == "min":
            st_start = sorted(unparse(a) for a in e0.args)
        if isinstance(e1, ast.Call) and dotted(e1.func) == "max":
            st_end = sorted(unparse(a) for a in e1.args)
    acc = unparse(tup[0].targets[0]) if tup else "result"
    loops = [n for n in ast.walk(mg) if isinstance(n, ast.For)]
    elem = unparse(loops[0].target) if loops else "arg"
    va = mg.args.vararg.arg if mg.args.vararg else "args"
    good = st_start == sorted([f"{acc}[0]", f"{elem}.GetBegin()"]) and st_end == sorted([f"{acc}[1]", f"{elem}.GetEnd()"])
    col.check(good, "R20.3", f"{ASTF}::Location.Merge hull", "begin = min of begins, end = max of ends, result = (begin, end)",
              f"hull is computed as start={st_start}, end={st_end}: not min over begins / max over ends", ASTF, mg)
    col.check(bool(loops) and unparse(loops[0].iter) == f"{va}[1:]" and f"{va}[0]" in unparse(mg), "R20.3", f"{ASTF}::Location.Merge covers all arguments",
              "starts from args[0] and folds in args[1:]", "does not fold all arguments into the hull", ASTF, mg)
    uv = model.cls(UPD, "UpdateLocationsVisitor")
    vg = uv.own_method("v_Generic")
    first = vg.body[0]
    col.check(isinstance(first, ast.Expr) and isinstance(first.value, ast.Call) and last_attr(first.value) == "AcceptVisitor", "R20.3",
              f"{UPD}::v_Generic children first", "children are updated before the parent's hull is computed", "the parent's hull is computed before its children were updated", UPD, vg)
    src = unparse(vg)
    mcall = [c for c in ast.walk(vg) if isinstance(c, ast.Call) and last_attr(c) == "Merge"]
    setl = [c for c in ast.walk(vg) if isinstance(c, ast.Call) and last_attr(c) == "SetLocation"]
    col.check(bool(setl) and "Merge" in unparse(setl[0]), "R20.3", f"{UPD}::v_Generic stores the hull", "obj.SetLocation(Location.Merge(*locations))", None, UPD, vg)
    # only *known* locations enter the hull (an unknown one is the span (-1,-1): it would drag the begin to -1), and a non-empty
    # collection is always stored
    from ..paths import cond_atoms as _ca20
    from ..sem import local_env as _le20

    def _cf(t_):
        return bool(t_.value) if isinstance(t_, ast.Constant) else None

    fns20 = [vg] + [n for n in ast.walk(vg) if isinstance(n, ast.FunctionDef) and n is not vg]
    # (the collecting callback may equally be a module-level function of the pass that v_Generic names)
    fns20 += [f_ for nm_, f_ in model.file(UPD).functions.items() if any(isinstance(x, ast.Name) and x.id == nm_ for x in ast.walk(vg)) and f_ not in fns20]
    nknown = 0
    known_sites = set()
    bad_app = []
    objp20 = vg.args.args[1].arg
    sources = set()     # whose location reaches the collection: the node's own, its children's
    for fn_ in fns20:
        env_ = _le20(fn_, allow_impure=True)
        for evs, status in paths(fn_.body, fold=_cf):
            atoms = _ca20(evs, env_)
            inner_ids = {id(x) for d_ in ast.walk(fn_) if isinstance(d_, ast.FunctionDef) and d_ is not fn_ for x in ast.walk(d_)}
            for c in calls_on_path(evs):
                if id(c) in inner_ids:
                    continue
                if last_attr(c) == "append" and c.args and isinstance(c.func, ast.Attribute):
                    from ..sem import rtext as _rt20

                    what = _rt20(c.args[0], env_)
                    known = atoms.get(f"{what}.IsUnknown")
                    if known is False:
                        known_sites.add(id(c))
                        nknown = len(known_sites)
                        if fn_ is vg and what == f"{objp20}.GetLocation()":
                            sources.add("own")
                        elif fn_ is not vg and fn_.args.args and what == f"{fn_.args.args[0].arg}.GetLocation()":
                            for k_ in walk_no_nested(vg):
                                if isinstance(k_, ast.Call) and last_attr(k_) == "ForEachChild" and unparse(k_.func.value) == objp20 and k_.args and unparse(k_.args[0]) == fn_.name:
                                    sources.add("children")
                                if isinstance(k_, ast.Call) and isinstance(k_.func, ast.Name) and k_.func.id == fn_.name and k_.args and unparse(k_.args[0]) == objp20:
                                    sources.add("own")
                    else:
                        bad_app.append(f"`{unparse(c)}` under {[(k, v) for k, v in atoms.items() if 'IsUnknown' in k]}")
    col.check(sources == {"own", "children"} and bool(mcall) and any(isinstance(a, ast.Starred) for a in mcall[0].args), "R20.3", f"{UPD}::v_Generic merges own and children",
              "the node's own known location and every child's known location are merged", f"only {sorted(sources)} of (own, children) locations are merged into the node's location", UPD, vg)
    col.check(nknown >= 1 and not bad_app, "R20.3", f"{UPD}::v_Generic collects known locations only", "the own and each child location is added exactly when it is not unknown",
              (bad_app[0] if bad_app else "own / child location is never collected") + ": an unknown location (-1,-1) enters the hull or a known one is left out, so a composite's range does not cover its parts", UPD, vg)
    stored_paths = unstored_nonempty = 0
    for evs, status in paths(vg.body, fold=_cf):
        atoms = _ca20(evs)
        has = any(last_attr(c) == "SetLocation" for c in calls_on_path(evs))
        if has:
            stored_paths += 1
        elif atoms.get("locations") is not False:
            unstored_nonempty += 1
    col.check(stored_paths > 0 and unstored_nonempty == 0, "R20.3", f"{UPD}::v_Generic stores a non-empty hull", "whenever a location was collected the node's location is set",
              "there is a path on which locations were collected but the node's location is not updated: composite constructs keep their unknown / partial location", UPD, vg)
    unk = loc.find_method("IsUnknown")
    col.check(unk is not None and "(-1, -1)" in unparse(unk[1]), "R20.3", f"{ASTF}::Location.IsUnknown", "unknown = span (-1, -1), the default of every node", None, ASTF, loc.node)
    ap = pipe.ast_passes
    for later in ("ValidateVariableNames",):
        col.check("UpdateLocations" in ap and later in ap and ap.index("UpdateLocations") < ap.index(later), "R20.3", f"nsl/Compiler.py::astPasses UpdateLocations < {later}",
                  "locations are completed before positions are reported", f"UpdateLocations does not run before {later}", "nsl/Compiler.py", pipe.cls.node)
    # passes that build new AST nodes before the diagnostics are produced run before UpdateLocations (their nodes get a hull too)
    rewriters = []
    for pname in ap:
        pf_ = model.files.get(pipe.pass_file(pname))
        if pf_ is None:
            continue
        if any(isinstance(c, ast.Call) and isinstance(c.func, ast.Attribute) and isinstance(c.func.value, ast.Name) and c.func.value.id == "ast"
               and c.func.attr.endswith(("Expression", "Statement")) for c in ast.walk(pf_.tree)):
            rewriters.append(pname)
    col.floor("R20.3", "AST-rewriting passes", len(rewriters), 1)
    if "UpdateLocations" in ap and "ValidateVariableNames" in ap:
        late = [p_ for p_ in rewriters if ap.index("UpdateLocations") < ap.index(p_) < ap.index("ValidateVariableNames")]
        col.check(not late, "R20.3", "nsl/Compiler.py::astPasses rewriting passes precede UpdateLocations", f"rewriters {rewriters}: none between UpdateLocations and the diagnostics",
                  f"{late} builds new nodes after UpdateLocations ran and before positions are reported: the rewritten composites keep an unknown location although their parts are located", "nsl/Compiler.py", pipe.cls.node)
    # a node's location is whatever was set last (the hull computed by UpdateLocations replaces the parser's partial location)
    node_cls = model.cls(ASTF, "Node")
    sl, gl = node_cls.own_method("SetLocation"), node_cls.own_method("GetLocation")
    slp = sl.args.args[1].arg
    real = [s_ for s_ in sl.body if not isinstance(s_, (ast.Assert, ast.Expr))]
    uncond = len(real) == 1 and isinstance(real[0], ast.Assign) and isinstance(real[0].targets[0], ast.Attribute) and unparse(real[0].value) == slp
    fld_ = real[0].targets[0].attr if uncond else None
    gret = [r.value.attr for r in ast.walk(gl) if isinstance(r, ast.Return) and isinstance(r.value, ast.Attribute)]
    col.check(uncond and gret == [fld_], "R20.3", f"{ASTF}::Node.SetLocation/GetLocation", "SetLocation stores its argument unconditionally in the field GetLocation returns",
              "SetLocation does not always store the new location (or GetLocation reads another field): the hull computed for a composite node is dropped and its range stays that of one part", ASTF, sl)
    # the text that is parsed is the text the caller gave (positions are reported against it)
    cc_ = pipe.compile
    srcp = cc_.args.args[1].arg
    prs_ = [c for c in ast.walk(cc_) if isinstance(c, ast.Call) and last_attr(c) == "Parse" and c.args]
    rebound_ = any(isinstance(n, ast.Name) and isinstance(n.ctx, ast.Store) and n.id == srcp for n in ast.walk(cc_))
    from ..sem import local_env as _le20b, rtext as _rt20b

    col.check(bool(prs_) and all(_rt20b(c.args[0], _le20b(cc_)) == srcp for c in prs_) and not rebound_, "R20.2", "nsl/Compiler.py::Compiler.Compile parses the source as given",
              "parser.Parse(source) with the caller's string",
              f"the parser receives `{_rt20b(prs_[0].args[0], _le20b(cc_)) if prs_ else '?'}`, not the caller's text: every reported line:column refers to a transformed text", "nsl/Compiler.py", cc_)
    pipe.makepass_process(col, "R20.4")
    # ---------------- R20.4 ----------------------------------------------------
    add = model.cls(NAMES, "ValidateVariableNamesVisitor.Context").own_method("Add")
    rs = [c for c in ast.walk(add) if isinstance(c, ast.Call) and last_attr(c) == "Raise"]
    pnames = [a.arg for a in add.args.args[1:]]
    good = False
    if rs and len(rs[0].args) == 3:
        a = [unparse(x) for x in rs[0].args]
        ex = find_assign(add, a[2])
        good = a[0] == pnames[0] and a[1] == pnames[1] and bool(ex) and "Get(" in unparse(ex[0])
    col.check(good, "R20.4", f"{NAMES}::Context.Add diagnostic arguments", "Raise(name, new location, existing location)",
              f"the diagnostic is raised with {[unparse(x) for x in rs[0].args] if rs else None}; expected (name, new location, existing location)", NAMES, add)
    msg = model.module_assign("nsl/Errors.py", "ERROR_VARIABLE_NAME_ALREADY_USED")
    text = [a.value for a in ast.walk(msg) if isinstance(a, ast.Constant) and isinstance(a.value, str)]
    col.check(bool(text) and text[-1].count("{}") == 3 and text[-1].index("variable") < text[-1].index("already declared"), "R20.4",
              "nsl/Errors.py::ERROR_VARIABLE_NAME_ALREADY_USED placeholders", "three positional placeholders: name, (new), already declared here (existing)", None, "nsl/Errors.py", msg)
    ce = model.cls("nsl/Errors.py", "CompileException").own_method("__init__")
    from ..sem import alpha as _alpha204

    col.check("p0.message.format(*p1)" in _alpha204(ce), "R20.4", "nsl/Errors.py::CompileException formats positionally", "message.format(*args)", None, "nsl/Errors.py", ce)
    lv = model.cls(NAMES, "ValidateVariableNamesVisitor")
    vd = lv.own_method("v_VariableDeclaration")
    dp20 = vd.args.args[1].arg
    col.check(f"{dp20}.GetName(), {dp20}.GetLocation()" in unparse(vd).replace("\n", " "), "R20.4", f"{NAMES}::v_VariableDeclaration passes its own location",
              "ctx.Add(decl.GetName(), decl.GetLocation())", "the declaration does not pass its own name and location", NAMES, vd)
    # every name registered for the redeclaration diagnostic carries the location of the entity that bears the name
    nadd = 0
    for mname_, m_ in lv.methods.items():
        for c in ast.walk(m_):
            if isinstance(c, ast.Call) and last_attr(c) == "Add" and len(c.args) == 2 and isinstance(c.args[0], ast.Call) and last_attr(c.args[0]) == "GetName" and isinstance(c.args[0].func, ast.Attribute):
                nadd += 1
                owner = unparse(c.args[0].func.value)
                col.check(" ".join(unparse(c.args[1]).split()) == f"{owner}.GetLocation()", "R20.4", f"{NAMES}::{mname_} registers {owner} with its own location",
                          f"Add({owner}.GetName(), {owner}.GetLocation())",
                          f"`{unparse(c)[:70]}` registers the name of `{owner}` with the location `{unparse(c.args[1])}`: the 'already declared here' position of a later clash points at another entity", NAMES, c)
    col.floor("R20.4", "name registrations in the variable-name validator", nadd, 2)
    # ---------------- R20.5 idioms ------------------------------------------------
    smc = model.cls(ASTF, "SourceMapping")
    init = smc.own_method("__init__")
    from ..state import is_mutable_literal as _iml

    shared_tbl = [k for k, v in smc.class_attrs.items() if _iml(v)]
    tbl_fresh = [n for n in init.body if isinstance(n, ast.Assign) and isinstance(n.targets[0], ast.Attribute) and (isinstance(n.value, (ast.List, ast.ListComp)) or (isinstance(n.value, ast.Call) and dotted(n.value.func) == "list"))]
    apps_ = [c for c in ast.walk(init) if isinstance(c, ast.Call) and last_attr(c) == "append" and isinstance(c.func.value, ast.Attribute)]
    fresh_ok = not shared_tbl and all(any(t.targets[0].attr == c.func.value.attr and t.lineno < c.lineno for t in tbl_fresh) for c in apps_)
    col.check(fresh_ok, "R20.5", f"{ASTF}::SourceMapping line table is per instance", "the table is created in __init__ before it is filled; no class-level container",
              f"the line table is shared between SourceMapping objects (class-level {shared_tbl or 'container'} / not re-created in __init__): the second text mapped in a process appends to the first "
              "text's table and every line number is wrong", ASTF, init)
    loops = [n for n in ast.walk(init) if isinstance(n, ast.For)]
    good = False
    # however the table is computed (a loop, accumulate, a comprehension): folded over sample texts it must list the offset
    # at which each line starts
    folded_tbl = None
    try:
        from ..miniev import CannotEval as _CE205, run_pure as _rp205

        folded_tbl = []
        for text_ in ("", "a", "a\n", "a\nb", "\n\n", "ab\ncd\n\nx", "x\r\ny\n", "int a;\n  float b;\n"):
            env_ = {}
            _rp205(init, [None, text_], None, 4000, None, env_)
            tables_ = [v for k, v in env_.items() if k.startswith("self.") and isinstance(v, list)]
            want_ = [0] + [i + 1 for i, ch in enumerate(text_) if ch == "\n"]
            if len(tables_) != 1 or tables_[0] != want_:
                folded_tbl.append(f"{text_!r}: {tables_[0] if tables_ else None}, expected {want_}")
    except Exception:
        folded_tbl = None
    if folded_tbl is not None:
        good = not folded_tbl
    elif loops:
        lp = loops[0]
        it_ok = unparse(lp.iter) in (f"{init.args.args[1].arg}.split('\\n')",)
        lv_ = lp.target.id if isinstance(lp.target, ast.Name) else None
        body = lp.body
        app = [i for i, s in enumerate(body) if isinstance(s, ast.Expr) and isinstance(s.value, ast.Call) and last_attr(s.value) == "append"]
        aug = [i for i, s in enumerate(body) if isinstance(s, ast.AugAssign) and isinstance(s.op, ast.Add)]
        if app and aug and lv_:
            a_arg = unparse(body[app[0]].value.args[0])
            inc = canon(body[aug[0]].value)
            cur = unparse(body[aug[0]].target)
            zero = find_assign(init, cur)
            good = it_ok and app[0] < aug[0] and a_arg == cur and sorted(inc.split(" ")) == sorted(["+1", f"+len(+{lv_})"]) and bool(zero) and unparse(zero[0]) == "0"
    col.check(good, "R20.5", f"{ASTF}::SourceMapping.__init__ line table",
              "for each line of source.split('\\n'): record the running offset, then advance it by len(line) + 1, starting at 0",
              "the line-start table is not built as running offsets advanced by len(line) + 1 (the newline) per line from 0", ASTF, init)
    glo = smc.own_method("GetLineFromOffset")
    r = [x.value for x in ast.walk(glo) if isinstance(x, ast.Return)]
    good = len(r) == 1 and isinstance(r[0], ast.BinOp) and isinstance(r[0].op, ast.Sub) and unparse(r[0].right) == "1" and isinstance(r[0].left, ast.Call) \
        and dotted(r[0].left.func) in ("bisect.bisect_right", "bisect.bisect", "bisect_right") and unparse(r[0].left.args[1]) == glo.args.args[1].arg \
        and "lineOffsets" in unparse(r[0].left.args[0])
    col.check(good, "R20.5", f"{ASTF}::SourceMapping.GetLineFromOffset lookup",
              "line = bisect_right(line starts, offset) - 1  (starts[i] <= offset < starts[i+1])",
              f"lookup is `{unparse(r[0]) if r else None}`; with ascending line starts the line containing an offset is bisect_right(starts, offset) - 1 (bisect_left puts an offset that is exactly a line start on the previous line)", ASTF, glo)
    gls = smc.own_method("GetLineStartOffset")
    r = [unparse(x.value) for x in ast.walk(gls) if isinstance(x, ast.Return)]
    col.check(r == [f"self.__lineOffsets[{gls.args.args[1].arg}]"], "R20.5", f"{ASTF}::SourceMapping.GetLineStartOffset", "returns the recorded start of that line", f"returns {r}", ASTF, gls)
    sf = loc.own_method("__str__")
    env = {}
    for n in ast.walk(sf):
        if isinstance(n, ast.Assign) and isinstance(n.targets[0], ast.Name):
            env.setdefault(n.targets[0].id, n.value)
    fm = [c for c in ast.walk(sf) if isinstance(c, ast.Call) and last_attr(c) == "format" and isinstance(c.func.value, ast.Constant)]
    SL = "self.__sourceMapping.GetLineFromOffset(+self.GetBegin())"
    EL = "self.__sourceMapping.GetLineFromOffset(+self.GetEnd())"
    SO = f"self.__sourceMapping.GetLineStartOffset(+{SL})"
    EO = f"self.__sourceMapping.GetLineStartOffset(+{EL})"
    want = {
        "{}:{}-{}": [f"+1 +{SL}", f"+1 +self.GetBegin() -{SO}", f"+1 +self.GetEnd() -{SO}"],
        "{}:{}-{}:{}": [f"+1 +{SL}", f"+1 +self.GetBegin() -{SO}", f"+1 +{EL}", f"+1 +self.GetEnd() -{EO}"],
    }
    seen = set()
    for c in fm:
        pat = c.func.value.value
        if pat in want:
            seen.add(pat)
            got = [" ".join(sorted(canon(a, env).split(" "), key=lambda s: s[1:])) for a in c.args]
            exp = [" ".join(sorted(w.split(" "), key=lambda s: s[1:])) if False else w for w in want[pat]]
            # compare as multisets of signed terms
            def ms(s):
                out, depth, cur = [], 0, ""
                for ch in s:
                    if ch == "(":
                        depth += 1
                    elif ch == ")":
                        depth -= 1
                    if ch == " " and depth == 0:
                        out.append(cur)
                        cur = ""
                    else:
                        cur += ch
                out.append(cur)
                return sorted(out)
            ok_ = len(got) == len(exp) and all(ms(g) == ms(e) for g, e in zip(got, exp))
            kind = "single-line" if pat == "{}:{}-{}" else "multi-line"
            col.check(ok_, "R20.5", f"{ASTF}::Location.__str__ {kind} format",
                      "1-based line(s); columns = offset - start of the offset's own line + 1",
                      f"{kind} range is formatted from {got}; expected {exp} (1-based; the end column is measured from the start of the END line)", ASTF, c)
    col.check(seen == set(want), "R20.5", f"{ASTF}::Location.__str__ formats", "single-line `l:c-c` and multi-line `l:c-l:c` forms exist",
              f"range formats found: {sorted(seen)}; expected both l:c-c and l:c-l:c", ASTF, sf)
    from ..sem import local_env as _le205, rtext as _rt205

    env205 = _le205(sf)
    lb_, le_ = "self.__sourceMapping.GetLineFromOffset(self.GetBegin())", "self.__sourceMapping.GetLineFromOffset(self.GetEnd())"
    sl_if = [n for n in ast.walk(sf) if isinstance(n, ast.If) and _rt205(n.test, env205) in (f"{lb_} == {le_}", f"{le_} == {lb_}")
             and any(isinstance(r_, ast.Return) and "{}:{}-{}" in unparse(r_) and "{}:{}-{}:{}" not in unparse(r_) for s_ in n.body for r_ in ast.walk(s_))]
    col.check(bool(sl_if), "R20.5", f"{ASTF}::Location.__str__ single/multi-line split", "the short form is used exactly when begin and end are on one line", "the single-line form is not selected by startLine == endLine", ASTF, sf)
    li = loc.own_method("__init__")
    sp20 = li.args.args[1].arg
    # (canonical form of order comparisons: `a >= b` is presented as `b <= a`)
    col.check(any(isinstance(a_, ast.Assert) and " ".join(unparse(a_.test).split()) == f"{sp20}[0] <= {sp20}[1]" for a_ in ast.walk(li)), "R20.5", f"{ASTF}::Location.__init__ span order", "a span's end is not before its begin", None, ASTF, li)
    for m, i in (("GetBegin", 0), ("GetEnd", 1)):
        mm = loc.own_method(m)
        r = [unparse(x.value) for x in ast.walk(mm) if isinstance(x, ast.Return)]
        col.check(r == [f"self.__span[{i}]"], "R20.5", f"{ASTF}::Location.{m}", f"returns span[{i}]", f"returns {r}", ASTF, mm)
