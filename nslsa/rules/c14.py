"""C14 Every compiled IR module is well-formed."""
from __future__ import annotations

import ast

from ..dispatch import Dispatch
from ..grammar import Grammar
from ..irmodel import IR
from ..model import AnalysisError, AnchorMissing, dotted, find_assign, last_attr, unparse
from ..paths import paths, calls_on_path
from .. import lowering
from . import c02, c03

TITLE = "IR well-formedness: one reference allocator, created->added->used, branch targets, straight-line operands, rewrite protocol, call targets"
LEVEL = "other"
LOWER = "nsl/passes/LowerToIR.py"
EXPLANATION = (
    "R14.1 SetReference is called only by the per-function allocator (RegisterValue: fresh number = index in the value list) and "
    "by the two sites that deliberately re-use the reference of the instruction they replace; every instruction, block and "
    "constant goes through RegisterValue. R14.2 in every lowering handler an instruction object is added to the current block "
    "on all paths before it is returned or used as an operand. R14.3 every branch gets its true target (and its false target "
    "iff it has a predicate) on all paths, targets being blocks created by the same context (derived from the emission "
    "templates). R14.4 expression handlers never start or end a basic block, so an expression's operands are defined earlier in "
    "the same block. R14.5 the rewriting protocol keeps this well-formed (= R02.1-R02.3, R02.6). R14.6 a call names a function "
    "through the helper that names definitions and passes one operand per call argument. R14.3 also: a function's block list "
    "is created empty, grows by append only and is otherwise only handed through the generic traversal; R14.5 includes the "
    "value table and constant pool that only grow (= R02.11)."
)
NOT_DECIDED = "well-formedness of one particular emitted module (that is a property of a run; the rule set is about all runs)"
ASSUMPTIONS = ["the VM executes blocks in creation order, falling through to the next block when a block does not end in a branch"]

ALLOWED_SETREF = {
    ("Function", "RegisterValue"): "the allocator",
    ("BasicBlock", "__Replace"): "a replacing instruction takes over the reference of the one it replaces",
    ("VariableAccessInstruction", "WithVariable"): "a copy with another variable name keeps the reference",
    ("DeclareVariableInstruction", "SetReference"): "override delegating to super()",
}


def run(model, col, tier):
    G = Grammar(model)
    D = Dispatch(model)
    check_allocator(model, col)
    check_block_list(model, col, "R14.3")
    run_rest(model, col, tier, G, D)


def check_allocator(model, col):
    # ---------------- R14.1 ------------------------------------------------------
    sites = []
    for cls in model.classes.values():
        for m in cls.methods.values():
            for c in ast.walk(m):
                if isinstance(c, ast.Call) and last_attr(c) == "SetReference":
                    sites.append((cls, m, c))
    for fi in model.files.values():
        for fn in fi.functions.values():
            for c in ast.walk(fn):
                if isinstance(c, ast.Call) and last_attr(c) == "SetReference":
                    sites.append((None, fn, c))
    col.floor("R14.1", "SetReference call sites", len(sites), 4)
    for cls, m, c in sites:
        k = (cls.name if cls else None, m.name)
        col.check(k in ALLOWED_SETREF, "R14.1", f"{cls.file if cls else '?'}::{k[0]}.{k[1]} calls SetReference",
                  f"allowed: {ALLOWED_SETREF.get(k)}", f"`{unparse(c)}` assigns a value reference outside the per-function allocator: references are no longer unique within a function", cls.file if cls else None, c)
    fn = model.cls(IR, "Function")
    rv = fn.own_method("RegisterValue")
    from ..sem import alpha as _alpha

    s = _alpha(rv, inline=True)
    i_set, i_app = s.find("p0.SetReference(len(self.__values))"), s.find("self.__values.append(p0)")
    col.check(0 <= i_set < i_app, "R14.1", f"{IR}::Function.RegisterValue",
              "fresh reference = index in the function's value list, then the value is appended", "RegisterValue does not hand out len(values) and append the value: references can repeat", IR, rv)
    bb = model.cls(IR, "BasicBlock")
    for meth in ("AddInstruction", "AddInstructionBefore", "AddInstructionAfter"):
        m = bb.own_method(meth)
        from ..sem import expand_helpers as _xh

        mx = _xh(model, bb, m)
        ip_ = m.args.args[1].arg
        t = unparse(mx)
        col.check(f"RegisterValue({ip_})" in t and f"{ip_}.SetParent(self)" in t, "R14.1", f"{IR}::BasicBlock.{meth} registers", "the instruction is registered with the function and parented to the block",
                  "an added instruction is not registered (no reference) or not parented", IR, m)
    ai = bb.own_method("AddInstruction")
    col.check("self.__instructions.append(p0)" in _alpha(ai) and "return p0" in _alpha(ai), "R14.1", f"{IR}::BasicBlock.AddInstruction appends", "appended at the end; returns the instruction", None, IR, ai)
    cbb = fn.own_method("CreateBasicBlock")
    t = _alpha(cbb)
    col.check("v0 = BasicBlock(self)" in t and "self.RegisterValue(v0)" in t and "self.__basicBlocks.append(v0)" in t and t.endswith("return v0"), "R14.1", f"{IR}::Function.CreateBasicBlock", "a block is registered and appended to its function", None, IR, cbb)
    wv = model.cls(IR, "VariableAccessInstruction").own_method("WithVariable")
    t = _alpha(wv)
    col.check("v0.SetReference(self.Reference)" in t and "v0.SetParent(self.Parent)" in t and "v0.SetStore(self.Store)" in t and "self.__scope" in t and t.endswith("return v0"), "R14.1", f"{IR}::VariableAccessInstruction.WithVariable",
              "the copy keeps reference, parent, store operand and scope", "the copy does not keep reference/parent/store/scope of the original", IR, wv)


def check_block_list(model, col, rule):
    """The blocks of a function are the ones lowering created, in creation order: `Function.__basicBlocks` is a fresh list
    in __init__, grows by `append` (CreateBasicBlock) and is otherwise only handed through the generic traversal.  The
    emission templates (R01.3 / R14.3) give every branch a block of this list as its target and rely on fall-through to the
    next block; a block taken out or moved afterwards leaves branches pointing at something the function no longer has."""
    fn = model.cls(IR, "Function")
    fld = None
    init = fn.own_method("__init__")
    for n in ast.walk(init) if init is not None else []:
        if isinstance(n, ast.Assign) and isinstance(n.targets[0], ast.Attribute) and isinstance(n.value, ast.List) and not n.value.elts and "lock" in n.targets[0].attr:
            fld = n.targets[0].attr
    if fld is None:
        raise AnchorMissing(f"{IR}::Function.__init__ creates the block list")
    nw = 0
    for m in fn.methods.values():
        for n in ast.walk(m):
            bad = None
            if isinstance(n, (ast.Assign, ast.AugAssign, ast.Delete)):
                tg = n.targets if isinstance(n, (ast.Assign, ast.Delete)) else [n.target]
                for t in tg:
                    base = t.value if isinstance(t, ast.Subscript) else t
                    if isinstance(base, ast.Attribute) and base.attr == fld:
                        nw += 1
                        if m.name == "__init__" and isinstance(n, ast.Assign) and isinstance(n.value, ast.List) and not n.value.elts:
                            continue
                        if m.name == "_Traverse":
                            continue  # the generic traversal (infra contract: stores back what the callback returns)
                        bad = n
            elif isinstance(n, ast.Call) and isinstance(n.func, ast.Attribute) and isinstance(n.func.value, ast.Attribute) and n.func.value.attr == fld \
                    and n.func.attr in ("append", "remove", "pop", "insert", "clear", "extend", "sort", "reverse"):
                nw += 1
                if n.func.attr != "append":
                    bad = n
            if bad is not None:
                col.bad(rule, f"{IR}::Function.{m.name} changes the block list", f"`{' '.join(unparse(bad).split())[:80]}` removes, replaces or reorders blocks of a function: branches (and fall-through) "
                        "were laid out against the blocks as created; a branch whose target is dropped names a block the function does not have (KeyError in the VM, or the wrong code runs)", IR, bad)
    col.floor(rule, "writes to Function's block list", nw, 2)
    col.ok(rule, f"{IR}::Function block list only grows", f"`{fld}`: created empty, appended to by CreateBasicBlock, handed through _Traverse; {nw} writes")
    # nobody outside the class takes blocks out either (BasicBlocks returns the list itself)
    for rel, fi in sorted(model.files.items()):
        if not rel.startswith("nsl/"):
            continue
        for n in ast.walk(fi.tree):
            if isinstance(n, ast.Call) and isinstance(n.func, ast.Attribute) and n.func.attr in ("remove", "pop", "insert", "clear", "sort", "reverse") and isinstance(n.func.value, ast.Attribute) \
                    and n.func.value.attr == "BasicBlocks":
                col.bad(rule, f"{rel}:: changes a function's block list", f"`{' '.join(unparse(n).split())[:80]}` changes the list Function.BasicBlocks hands out", rel, n)
            elif isinstance(n, ast.Delete) and any(isinstance(t, ast.Subscript) and isinstance(t.value, ast.Attribute) and t.value.attr == "BasicBlocks" for t in n.targets):
                col.bad(rule, f"{rel}:: changes a function's block list", f"`{' '.join(unparse(n).split())[:80]}` deletes from the list Function.BasicBlocks hands out", rel, n)


def run_rest(model, col, tier, G, D):
    from ..sem import alpha as _alpha, expand_helpers as _xh

    fn = model.cls(IR, "Function")
    bb = model.cls(IR, "BasicBlock")
    # a value is initialised once: no method of an IR class other than __init__ runs a constructor on `self` again (that
    # resets the reference to "unassigned" and drops the parent link of an instruction that is already in a block)
    reinit = []
    nir = 0
    for ci in model.classes.values():
        if ci.file != IR:
            continue
        nir += 1
        for mname, m in ci.methods.items():
            if mname in ("__init__", "__new__", "__setstate__", "__reduce__", "__getstate__") or not m.args.args:
                continue
            for c in ast.walk(m):
                if isinstance(c, ast.Call) and last_attr(c) == "__init__" and (("super" in unparse(c.func)) or (c.args and unparse(c.args[0]) == m.args.args[0].arg)):
                    reinit.append((ci.name, mname, c))
    col.floor("R14.1", "IR classes searched for re-initialisation", nir, 20)
    col.check(not reinit, "R14.1", f"{IR}:: values are initialised once", "no method besides __init__ calls a constructor on self",
              f"{[(a, b) for a, b, _ in reinit][:3]} re-run a base constructor on an existing value: its reference falls back to the unassigned default, so several instructions of a function "
              "share one reference (and lose their block)", IR, reinit[0][2] if reinit else fn.node)
    # every declared parameter / member gets its slot in the IR type: the conversion enumerates them without a filter
    clt = model.func(LOWER, "_CreateLinearIRType")
    comps = [c for c in ast.walk(clt) if isinstance(c, (ast.ListComp, ast.DictComp, ast.GeneratorExp, ast.SetComp))
             and any(k in unparse(c.generators[0].iter) for k in ("GetArgumentTypes", "GetSymbolNames", "GetMembers"))]
    loops14 = [l for l in ast.walk(clt) if isinstance(l, ast.For) and any(k in unparse(l.iter) for k in ("GetArgumentTypes", "GetSymbolNames", "GetMembers"))]
    col.floor("R14.1", "parameter / member enumerations in _CreateLinearIRType", len(comps) + len(loops14), 2)
    for l in loops14:
        # the same enumeration written as a loop: every iteration stores (no `if` / `continue` around the store)
        guarded = [unparse(x.test)[:50] for s in l.body for x in ast.walk(s) if isinstance(x, ast.If)] + ["continue" for s in l.body for x in ast.walk(s) if isinstance(x, ast.Continue)]
        col.check(not guarded, "R14.1", f"{LOWER}::_CreateLinearIRType enumerates `{' '.join(unparse(l.iter).split())[:50]}` completely", "no filter on the enumeration",
                  f"`{guarded[0] if guarded else ''}` leaves declared parameters / members out of the IR type", LOWER, l)
    for c in comps:
        filt = [unparse(i) for g in c.generators for i in g.ifs]
        col.check(not filt, "R14.1", f"{LOWER}::_CreateLinearIRType enumerates `{' '.join(unparse(c.generators[0].iter).split())[:50]}` completely", "no filter on the enumeration",
                  f"`if {filt[0] if filt else ''}` leaves declared parameters / members out of the IR type: a call passes more operands than the callee's type has arguments, "
                  "and later parameters are read from the wrong slot", LOWER, c)
    # ---------------- R14.2 ------------------------------------------------------
    lv = model.cls(LOWER, "LowerToIRVisitor")
    instr_classes = {c.name for c in D.ir_instruction_classes()}
    nh = 0
    for name, h in sorted(lv.methods.items()):
        if not name.startswith("v_") or name == "v_MethodCallExpression":
            continue
        created_any = any(isinstance(c, ast.Call) and last_attr(c) in instr_classes | {"FromOperation"} for c in ast.walk(h))
        if not created_any:
            continue
        nh += 1
        problems = []
        for evs, status in paths(h.body):
            if status == "raise":
                continue
            state = {}  # var -> 'created' | 'added'

            def is_ctor(e):
                return isinstance(e, ast.Call) and last_attr(e) in instr_classes | {"FromOperation"}

            for e in evs:
                node = e.node if e.kind in ("stmt", "return") else None
                if node is None:
                    continue
                # uses of a created-but-not-added instruction as an operand / return value
                for c in ast.walk(node):
                    if isinstance(c, ast.Call):
                        la = last_attr(c)
                        if la == "AddInstruction" and c.args:
                            a = c.args[0]
                            if isinstance(a, ast.Name) and a.id in state:
                                state[a.id] = "added"
                        elif is_ctor(c) or la in ("SetStore", "BeginAssignment", "append"):
                            for a in c.args:
                                for x in ast.walk(a):
                                    if isinstance(x, ast.Name) and state.get(x.id) == "created" and la != "AddInstruction":
                                        # SetStore(x) before x is added: operand not yet in a block
                                        problems.append(f"`{x.id}` is used as an operand in `{unparse(c)[:50]}` before it was added to a block")
                if isinstance(node, ast.Assign) and isinstance(node.targets[0], ast.Name):
                    v = node.value
                    if is_ctor(v):
                        state[node.targets[0].id] = "created"
                    elif isinstance(v, ast.Call) and last_attr(v) == "AddInstruction" and v.args and (is_ctor(v.args[0]) or isinstance(v.args[0], ast.Name)):
                        state[node.targets[0].id] = "added"
                if e.kind == "return" and node.value is not None and isinstance(node.value, ast.Name) and state.get(node.value.id) == "created":
                    problems.append(f"`{node.value.id}` is returned without having been added to a block")
            for var, st in state.items():
                if st == "created":
                    problems.append(f"`{var}` is created but never added to a block on a path")
        problems = sorted(set(problems))
        col.check(not problems, "R14.2", f"{LOWER}::{name} created -> added", "every instruction object is added to the current block before it is used or returned",
                  "; ".join(problems[:3]) + ": the instruction has no reference / is not part of the function, its users read an undefined value", LOWER, h)
    col.floor("R14.2", "lowering handlers that create instructions", nh, 14)
    # ---------------- R14.3 ------------------------------------------------------
    from ..report import Collector

    sub = Collector("C14")
    lowering.run_templates(model, sub, G, "R14.3")
    for ob in sub.obligations:
        col.obligations.append(ob)
    vmf = model.file("nsl/VM.py")
    # ---------------- R14.4 ------------------------------------------------------
    expr_base = model.cls("nsl/ast/__init__.py", "Expression")
    block_api = {"CreateBasicBlock", "EndBasicBlock", "BeginLoop", "EndLoop"}
    seen = set()
    for ci in D.ast_classes():
        if expr_base not in ci.mro:
            continue
        kind, owner, h, base = D.resolve(lv, ci)
        if kind != "explicit" or h.name in seen:
            continue
        seen.add(h.name)
        used = sorted({last_attr(c) for c in ast.walk(h) if isinstance(c, ast.Call) and last_attr(c) in block_api})
        col.check(not used, "R14.4", f"{LOWER}::{h.name} stays in its block", "an expression handler never starts or ends a basic block",
                  f"expression handler {h.name} calls {used}: an operand computed before it would be used in another block, i.e. not on every path before its use", LOWER, h)
    col.floor("R14.4", "expression handlers", len(seen), 9)
    # ---------------- R14.5 ------------------------------------------------------
    c02.check_operand_protocol(model, col, "R14.5")
    c02.check_pool_key(model, col, "R14.5")
    sub = Collector("C02")
    c02.run(model, sub, "quick")
    for ob in sub.obligations:
        if ob.rule in ("R02.2", "R02.3", "R02.7", "R02.8", "R02.9") or (ob.rule == "R02.4" and "builds no instructions" in ob.construct) or (ob.rule == "R02.11" and "only grows" in ob.construct):
            # R02.7: a forwarded load is replaced by the operand of the store *directly before it in its block* (anything else can be
            # defined later / on another path: use before definition); R02.9: a pass object that remembers values of an earlier
            # function hands out operands that are not values of this function
            ob.rule = "R14.5"
            col.obligations.append(ob)
    # ---------------- R14.6 ------------------------------------------------------
    sub = Collector("C03")
    c03.run(model, sub, "quick", share=False)
    for ob in sub.obligations:
        if ob.rule == "R03.4":
            ob.rule = "R14.6"
            col.obligations.append(ob)
    vc = lv.own_method("v_CallExpression")
    from ..sem import visits_each_in_order, expand_helpers, local_env, rtext

    np_ = vc.args.args[1].arg
    good = visits_each_in_order(model, lv, vc, {np_, f"{np_}.GetArguments()", f"{np_}.children"})
    col.check(good, "R14.6", f"{LOWER}::v_CallExpression one operand per argument", "args = [visit(arg) for arg in call]: one operand per call argument, in order",
              "the call instruction does not get exactly one operand per call argument", LOWER, vc)
    mk = [c for c in ast.walk(vc) if isinstance(c, ast.Call) and last_attr(c) == "CallInstruction"]
    a3 = mk[0].args[2] if mk and len(mk[0].args) == 3 else None
    a3_ok = isinstance(a3, ast.ListComp) or (isinstance(a3, ast.Name) and bool(find_assign(vc, a3.id)))
    col.check(a3_ok, "R14.6", f"{LOWER}::v_CallExpression passes the operands", "CallInstruction(type, name, args)", None, LOWER, vc)
    # the AST pass that re-builds argument lists (implicit casts) keeps one element per argument
    from ..sem import appends_once_per_iteration

    aic_v = model.cls("nsl/passes/AddImplicitCasts.py", "AddImplicitCastVisitor")
    nreb = 0
    for hname in ("v_CallExpression", "v_ConstructPrimitiveExpression"):
        hh = aic_v.own_method(hname)
        nodep_ = hh.args.args[1].arg
        for lp_ in [n for n in ast.walk(hh) if isinstance(n, ast.For)]:
            if "GetArguments" not in unparse(lp_.iter) and f"{nodep_}.children" not in unparse(lp_.iter) and unparse(lp_.iter) != nodep_:
                continue
            lists_ = {unparse(c.func.value) for c in ast.walk(lp_) if isinstance(c, ast.Call) and last_attr(c) == "append" and isinstance(c.func, ast.Attribute)}
            for ln_ in sorted(lists_):
                nreb += 1
                ok_, why_ = appends_once_per_iteration(lp_, ln_)
                installed = any(isinstance(c, ast.Call) and last_attr(c) == "SetArguments" and c.args and unparse(c.args[0]) == ln_ and c.lineno > lp_.lineno for c in ast.walk(hh))
                col.check(installed, "R14.6", f"nsl/passes/AddImplicitCasts.py::{hname} installs `{ln_}`", "the rebuilt list replaces the node's arguments (SetArguments)",
                          f"the list `{ln_}` with the converted arguments is built but never installed: the conversions of call / constructor arguments are silently dropped", "nsl/passes/AddImplicitCasts.py", hh)
                col.check(ok_, "R14.6", f"nsl/passes/AddImplicitCasts.py::{hname} rebuilds `{ln_}` one element per argument", "every argument (converted or not) is appended exactly once",
                          f"{why_}: the rebuilt argument list no longer has one entry per argument, so the call instruction passes fewer (or more) operands than the callee has parameters",
                          "nsl/passes/AddImplicitCasts.py", lp_)
    col.floor("R14.6", "argument lists rebuilt by the cast pass", nreb, 2)
    ci_init = model.cls(IR, "CallInstruction").own_method("__init__")
    dflt = [d for d in ci_init.args.defaults if isinstance(d, (ast.List, ast.Dict))]
    if dflt:
        col.info("CallInstruction.__init__ has a mutable default `arguments=[]`; v_CallExpression always passes a fresh list (see C18 R18.2)")
    iter_ = model.cls("nsl/ast/__init__.py", "Expression").own_method("__iter__")
    col.check("self.children.__iter__()" in unparse(iter_), "R14.6", "nsl/ast/__init__.py::Expression.__iter__", "iterating a call expression yields its argument expressions", None, "nsl/ast/__init__.py", iter_)
    # a call's target must exist in the *linked* program: imports recorded, loaded (also imports of imports), merged (= R16.1-R16.4)
    from . import c16

    sub = Collector("C16")
    c16.run(model, sub, "quick")
    for ob in sub.obligations:
        if ob.rule in ("R16.1", "R16.2", "R16.3", "R16.4"):
            ob.rule = "R14.6"
            col.obligations.append(ob)
    # (that AddModule enters every function of a module under its IR name is R16.3 `AddModule merges module.Functions`, shared above)
    # two exported functions of one name would make the later definition replace the earlier one in Module.Functions while calls to
    # the earlier one keep its argument count: the exported-function validator must be in the pipeline, gate, and be asked
    from ..pipeline import Pipeline

    pipe14 = Pipeline(model)
    col.check("ValidateExportedFunctions" in pipe14.ast_passes, "R14.6", "nsl/Compiler.py::astPasses contains ValidateExportedFunctions", "exported names are checked for uniqueness",
              "ValidateExportedFunctions is not in the AST pass list: nothing rejects two exported functions of one name", "nsl/Compiler.py", pipe14.cls.node)
    if "ValidateExportedFunctions" in pipe14.ast_passes:
        pipe14.check_validator(col, "R14.6", "ValidateExportedFunctions")
    pipe14.makepass_process(col, "R14.6")
    pipe14.check_gating(col, "R14.6")
