"""C13 Static checks on element selection: constant bounds, index type, swizzle mask."""
from __future__ import annotations

import ast
import re

from .. import oracles
from ..astcover import can_contain, field_coverage
from ..dispatch import Dispatch
from ..grammar import Grammar, PARSER, LEXER
from ..miniev import CannotEval, ev
from ..model import AnalysisError, AnchorMissing, dotted, find_assign, last_attr, unparse, walk_no_nested
from ..paths import paths, calls_on_path, cond_atoms
from ..pipeline import Pipeline
from .c08 import select_stmts, p_index

TITLE = "constant index bounds, index type, swizzle mask validation"
LEVEL = "other"
OOB = "nsl/passes/ValidateArrayOutOfBoundsAccess.py"
IDX = "nsl/passes/ValidateArrayAccessType.py"
SWZ = "nsl/passes/ValidateSwizzle.py"
CT = "nsl/passes/ComputeTypes.py"
TYPES = "nsl/types.py"
ASTF = "nsl/ast/__init__.py"
VALIDATORS = ["ValidateArrayAccessType", "ValidateArrayOutOfBoundsAccess", "ValidateExportedFunctions",
              "ValidateFlowStatements", "ValidateSwizzle", "ValidateVariableNames"]
EXPLANATION = (
    "R13.1 the rejection condition of the bounds validator, folded over a grid of (index, size) values, rejects exactly "
    "index < 0 or index >= size; R13.2 the size it compares with is the dimension the index selects (leading dimension, in "
    "agreement with the dimension the typing pass drops); R13.3 the index-type validator rejects exactly the non-integer "
    "scalar types; R13.4 the swizzle validator passes the mask *text* and the component count of the swizzled type, the mask "
    "helper tests the full alphabet, both letter families, mixing, and the count; R13.5 all six validation visitors clear "
    "their flag on every error they swallow and return it; R13.6 signed literals reach the bounds check as literals; R13.7 the "
    "three validators visit every expression node (explicit handlers keep traversing, fields that can hold an access are traversed). "
    "R13.4 also: ValidateSwizzleMask folded over 296 (mask, component count) pairs rejects exactly unknown letters, missing "
    "components and mixed families. R13.5 also: no handler of a validator or of the typing pass returns before its traversal "
    "calls, or makes one depend on more than the presence / kind of a child."
)
NOT_DECIDED = "the arithmetic of the comparisons on every concrete size (covered by the grid abstraction up to size 6); masks longer than 4 letters"
ASSUMPTIONS = ["GetSize() of array/vector/matrix types returns a tuple whose first entry is the leading dimension (checked: R13.2)"]


def rejecting_if(func):
    """The `if` in a validator helper whose body clears the flag / raises."""
    for n in ast.walk(func):
        if isinstance(n, ast.If):
            direct = [s for s in n.body if not isinstance(s, (ast.If, ast.For, ast.While, ast.With, ast.Try))]
            if any(isinstance(c, ast.Call) and last_attr(c) == "Raise" for s in direct for c in ast.walk(s)):
                return n
    return None


_TRAVERSAL = ("AcceptVisitor", "v_Visit", "v_Generic", "Visit")


def _presence_test(t) -> bool:
    """a test that only asks whether a child is there / what kind of node it is: `x is None`, `x`, `not x`, `x.HasY()`,
    `len(x) == 0`, `isinstance(x, C)`, and boolean combinations of these"""
    if isinstance(t, ast.UnaryOp) and isinstance(t.op, ast.Not):
        return _presence_test(t.operand)
    if isinstance(t, ast.BoolOp):
        return all(_presence_test(x) for x in t.values)
    if isinstance(t, (ast.Name, ast.Attribute)):
        return True
    if isinstance(t, ast.Compare) and len(t.ops) == 1:
        if isinstance(t.ops[0], (ast.Is, ast.IsNot)) and isinstance(t.comparators[0], ast.Constant) and t.comparators[0].value is None:
            return True
        if isinstance(t.left, ast.Call) and isinstance(t.left.func, ast.Name) and t.left.func.id == "len" and isinstance(t.comparators[0], ast.Constant):
            return True
        return False
    if isinstance(t, ast.Call):
        if isinstance(t.func, ast.Name) and t.func.id == "isinstance":
            return True
        if isinstance(t.func, ast.Attribute) and not t.args and not t.keywords and t.func.attr.startswith(("Has", "Is", "Get")):
            return True
    return False


def validator_early_exits(v):
    """[(handler, return statement, guard)] explicit `return`s of a validating visitor's handlers that come before one of
    the handler's traversal calls, are not preceded by an error report on their path, and are guarded by something other
    than a presence / kind test."""
    out = []
    for hname, h in sorted(v.methods.items()):
        if not hname.startswith("v_"):
            continue
        own = [n for n in walk_no_nested(h)]
        visits = [n for n in own if isinstance(n, ast.Call) and last_attr(n) in _TRAVERSAL]
        if not visits:
            continue
        last_visit = max(n.lineno for n in visits)
        parents = {}
        for n in own + [h]:
            for fld in ("body", "orelse"):
                for s in (getattr(n, fld, None) if isinstance(getattr(n, fld, None), list) else []):
                    if isinstance(s, ast.stmt):
                        parents[id(s)] = n
        for r in own:
            if not isinstance(r, ast.Return) or r.lineno >= last_visit:
                continue
            p = parents.get(id(r))
            guards = []
            node = r
            while p is not None and p is not h:
                if isinstance(p, ast.If):
                    guards.append(p.test)
                node, p = p, parents.get(id(p))
            # an error reported just before the return is a rejection, not a skip
            sib = parents.get(id(r))
            blk = (sib.body if r in getattr(sib, "body", []) else getattr(sib, "orelse", [])) if sib is not None else []
            reported = any(isinstance(c, ast.Call) and last_attr(c) == "Raise" for s in blk for c in ast.walk(s)) or clears_flag(blk)
            if reported:
                continue
            odd = [g for g in guards if not _presence_test(g)]
            if odd or not guards:
                out.append((h, r, odd[0] if odd else r))
    return out


def fold_swizzle_validator(model, helper, contains_any):
    """-> (pairs folded, [counter-examples]) or None"""
    import itertools

    from ..miniev import run_pure

    class Signal(Exception):
        pass

    calls = {"Utility.ContainsAnyOf": (lambda a, b: run_pure(contains_any, (a, b))), "ContainsAnyOf": (lambda a, b: run_pure(contains_any, (a, b)))}
    for c in ast.walk(helper):
        if isinstance(c, ast.Call) and last_attr(c) == "Raise" and isinstance(c.func, ast.Attribute):
            nm = unparse(c.func.value).split(".")[-1]

            def mk(nm=nm):
                def raiser(*a):
                    raise Signal(nm)
                return raiser

            calls[unparse(c.func)] = mk()
    letters = "xyzwrgbaq"
    masks = [m for m in letters] + ["".join(p) for p in itertools.product("xyzwrga", repeat=2)] + ["xyz", "zyx", "xxx", "xyx", "rgb", "bgr", "xyzw", "wzyx", "rgba", "xxyy", "yxyx", "zzzy", "xyzr", "xqx", "rgbx", "xyzwx"]
    bad = []
    n = 0
    for mask in masks:
        for count in (1, 2, 3, 4):
            try:
                run_pure(helper, (mask, count), calls)
                got = "accepted"
            except Signal as s:
                got = str(s)
            except CannotEval:
                return None
            except Exception:
                return None
            n += 1
            idx = {ch: i % 4 for i, ch in enumerate("xyzwrgba")}
            reasons = set()
            if any(ch not in idx for ch in mask) or any(idx.get(ch, 0) >= count for ch in mask):
                reasons.add("INVALID")
            if any(ch in "xyzw" for ch in mask) and any(ch in "rgba" for ch in mask):
                reasons.add("MIXED")
            ok = (got == "accepted") if not reasons else any(r in got for r in reasons)
            if not ok:
                bad.append(f"{mask!r} on a {count}-component value: {got}, expected {' or '.join(sorted(r.lower() for r in reasons)) or 'accepted'}")
    return n, bad


def conditional_traversals(v):
    """[(handler, traversal call, guard)] traversal calls of a visitor's handlers that sit under a condition which is not
    a presence / kind test (or under the else of one): the child below is looked at for some programs only."""
    out = []
    for hname, h in sorted(v.methods.items()):
        if not hname.startswith("v_"):
            continue
        own = list(walk_no_nested(h))
        parents = {}
        for n in own + [h]:
            for fld in ("body", "orelse", "finalbody", "handlers"):
                val = getattr(n, fld, None)
                for s in (val if isinstance(val, list) else []):
                    parents[id(s)] = n
            if isinstance(n, ast.Expr) or isinstance(n, (ast.Assign, ast.Return, ast.AugAssign)):
                for c in ast.walk(n):
                    if isinstance(c, ast.Call):
                        parents.setdefault(id(c), n)
        for c in own:
            if not (isinstance(c, ast.Call) and last_attr(c) in _TRAVERSAL):
                continue
            p = parents.get(id(c))
            while p is not None and p is not h:
                if isinstance(p, ast.If) and not _presence_test(p.test):
                    out.append((h, c, p.test))
                    break
                p = parents.get(id(p))
    return out


def clears_flag(stmts, flag="valid"):
    for s in stmts:
        for n in ast.walk(s):
            if isinstance(n, ast.Assign) and isinstance(n.targets[0], ast.Attribute) and n.targets[0].attr == flag \
                    and isinstance(n.value, ast.Constant) and n.value.value is False:
                return True
    return False


def run(model, col, tier):
    G = Grammar(model)
    D = Dispatch(model)
    pipe = Pipeline(model)
    # ---------------- R13.1 / R13.2 bounds ------------------------------------
    oob = model.cls(OOB, "ValidateArrayOutOfBoundsAccessVisitor")
    f = oob.own_method("_ValidateArrayExpression")
    rif = rejecting_if(f)
    if rif is None:
        col.bad("R13.1", f"{OOB}::_ValidateArrayExpression", "no rejecting branch (if ...: raise) found: constant indices are never rejected", OOB, f)
    else:
        vnames = {}
        size_sub = None
        for n in walk_no_nested(f):
            if isinstance(n, ast.Assign) and isinstance(n.targets[0], ast.Name):
                t = unparse(n.value)
                if "GetValue()" in t:
                    vnames[n.targets[0].id] = "v"
                elif "GetSize()" in t and isinstance(n.value, ast.Subscript):
                    vnames[n.targets[0].id] = "n"
                    size_sub = n.value
        # inline use without names
        env_names = {k: v for k, v in vnames.items()}
        from ..sem import local_env, resolve

        f_env = {k: v for k, v in local_env(f).items() if k not in vnames}
        rif_test = resolve(rif.test, f_env)
        ok_grid = True
        wrong = []
        cannot = None
        for n_ in range(1, 7):
            for v_ in range(-3, n_ + 4):
                env = {k: (v_ if r == "v" else n_) for k, r in env_names.items()}
                try:
                    rej = bool(ev(rif_test, env))
                except CannotEval as e:
                    cannot = str(e)
                    break
                want = v_ < 0 or v_ >= n_
                if rej != want:
                    wrong.append((v_, n_, rej))
            if cannot:
                break
        if cannot:
            raise AnalysisError(f"{OOB}::_ValidateArrayExpression: rejection condition `{unparse(rif.test)}` cannot be folded ({cannot})")
        lows = [w for w in wrong if w[0] < 0]
        highs = [w for w in wrong if w[0] >= 0]
        col.check(not lows, "R13.1", f"{OOB}::_ValidateArrayExpression lower bound",
                  f"`{unparse(rif.test)}` rejects every negative constant index",
                  f"`{unparse(rif.test)}` accepts negative constant indices, e.g. index {lows[0][0]} for size {lows[0][1]}" if lows else "", OOB, rif)
        col.check(not highs, "R13.1", f"{OOB}::_ValidateArrayExpression upper bound",
                  f"`{unparse(rif.test)}` rejects exactly the indices >= size",
                  f"`{unparse(rif.test)}` decides index {highs[0][0]} for size {highs[0][1]} as {'rejected' if highs[0][2] else 'accepted'} (off by one / wrong direction)" if highs else "", OOB, rif)
        col.check(clears_flag(rif.body), "R13.1", f"{OOB}::_ValidateArrayExpression clears the flag", "the rejecting branch sets valid = False", "the rejecting branch does not clear `valid`", OOB, rif)
        # literal guard
        guards = [n for n in ast.walk(f) if isinstance(n, ast.If) and "isinstance" in unparse(n.test) and "LiteralExpression" in unparse(n.test)]
        col.check(bool(guards), "R13.6", f"{OOB}::_ValidateArrayExpression literal test", "constant indices are recognised as ast.LiteralExpression", None, OOB, f)

        def _pure_lit(t):
            if isinstance(t, ast.UnaryOp) and isinstance(t.op, ast.Not):
                t = t.operand
            return isinstance(t, ast.Call) and isinstance(t.func, ast.Name) and t.func.id == "isinstance" and len(t.args) == 2 and "LiteralExpression" in unparse(t.args[1])

        # the value compared with the bound is the value written in the source, typed as the parser types integer constants
        from . import c08 as _c08_13, c09 as _c09_13

        _c08_13.check_ctor_params_unchanged(model, col, "R13.1")
        _c09_13.check_literal_types(model, col, "R13.1")
        # ... and the value is the one the spelling denotes (sign included, = R01.9): `x[-0x1]` must not be read as x[1]
        from ..report import Collector as _C131
        from ..vmmodel import VMModel as _VM131
        from . import c01 as _c01_13

        sub131 = _C131("C01")
        _c01_13.run_R01_9(model, sub131, G, _VM131(model))
        for ob in sub131.obligations:
            if "integer constant spellings" in ob.construct:
                ob.rule = "R13.1"
                col.obligations.append(ob)
        # names are typed in the scope they are used in: the bounds and index-type tests read the type of *this* `a`, not of an
        # earlier sibling's (memo-key completeness over the type pass, = R12.4)
        from .. import memo as _memo13

        _memo13.check_file(model, col, "R13.1", CT)
        narrowed = [" ".join(unparse(g.test).split())[:90] for g in guards if not _pure_lit(g.test)]
        col.check(not narrowed, "R13.1", f"{OOB}::_ValidateArrayExpression what counts as a constant index", "being a LiteralExpression is the whole test",
                  f"`{narrowed[0] if narrowed else ''}` narrows what counts as a constant index: literals that fail the extra condition (another literal type, another spelling) are never "
                  "compared with the bound", OOB, guards[0] if guards else f)
        # every constant index reaches the comparison: no exit between the literal test and the bounds test
        skipping = []
        nlit = 0
        for evs, status in paths(f.body):
            conds_ = [e for e in evs if e.kind == "cond"]
            from ..paths import cond_atoms as _ca13

            lit = any(k_.startswith("isinstance(") and "LiteralExpression" in k_ and v_ is True for k_, v_ in _ca13(evs).items())
            if not lit or status == "raise":
                continue
            nlit += 1
            if not any(e.node is rif.test for e in conds_):
                skipping.append([(" ".join(unparse(e.node).split())[:40], e.val) for e in conds_])
        col.check(nlit > 0 and not skipping, "R13.1", f"{OOB}::_ValidateArrayExpression every constant index is compared", "all paths with a literal index evaluate the bounds test",
                  f"a path with a literal index leaves before the bounds test (conditions {skipping[0] if skipping else ''}): constant indices into some kinds of value (array / vector / matrix) are never checked", OOB, f)
        # ---- R13.2 which dimension
        ctv13 = model.cls(CT, "ComputeTypeVisitor")
        ctf0 = ctv13.own_method("_ProcessExpression")
        # the typing of an index expression may sit in a private helper of the pass (`_GetArrayAccessType`): the walk covers the
        # expression walk and the methods of the class it calls
        callees13 = [m for nm, m in ctv13.methods.items() if m is not ctf0 and not nm.startswith("v_") and any(isinstance(c, ast.Call) and last_attr(c) in (nm, nm.lstrip("_")) for c in ast.walk(ctf0))]
        ctf = ast.Module(body=[ctf0] + callees13, type_ignores=[])
        dropped = None
        for n in ast.walk(ctf):
            if isinstance(n, ast.Subscript) and isinstance(n.slice, ast.Slice) and isinstance(n.value, ast.Name) and "ize" in n.value.id:
                lo, hi = n.slice.lower, n.slice.upper
                if lo is not None and hi is None and isinstance(lo, ast.Constant) and lo.value == 1:
                    dropped = "leading"
                elif lo is None and hi is not None and unparse(hi) == "-1":
                    dropped = "trailing"
        if dropped is None:
            raise AnchorMissing(f"{CT}::_ProcessExpression: cannot find which dimension an index drops from an array type")
        want_idx = 0 if dropped == "leading" else -1
        got_idx = None
        if size_sub is not None and isinstance(size_sub.slice, (ast.Constant, ast.UnaryOp)):
            try:
                got_idx = ev(size_sub.slice, {})
            except CannotEval:
                got_idx = None
        col.check(got_idx == want_idx, "R13.2", f"{OOB}::_ValidateArrayExpression dimension",
                  f"the index is compared with GetSize()[{got_idx}]: the {dropped} dimension, the one the typing pass drops per index",
                  f"the index is compared with GetSize()[{got_idx}] but an index selects (and the typing pass drops) the {dropped} dimension: "
                  "for int[2][3] x the first index is checked against 3 and the second against ... the wrong size", OOB, size_sub or f)
        from ..sem import local_env as _le132, rtext as _rt132

        src = _rt132(size_sub, _le132(f)) if size_sub is not None else ""
        col.check(f"{f.args.args[1].arg}.GetParent().GetType()" in src, "R13.2",
                  f"{OOB}::_ValidateArrayExpression accessed type", "the size comes from the type of the accessed (parent) expression",
                  f"the size comes from `{src}`, not from the accessed expression's type", OOB, f)
        # matrix: rows first, and row access yields a vector of column count
        mt = model.cls(TYPES, "MatrixType")
        minit = mt.own_method("__init__")
        tup = [n for n in ast.walk(minit) if isinstance(n, ast.Tuple) and len(n.elts) == 2]
        mparams = [a.arg for a in minit.args.args]  # (self, componentType, rows, columns)
        col.check(len(mparams) == 4 and any([unparse(e) for e in t.elts] == mparams[2:4] for t in tup), "R13.2", f"{TYPES}::MatrixType size tuple", "size = (rows, columns)",
                  "MatrixType no longer stores (rows, columns): GetSize()[0] is not the row count", TYPES, minit)
        col.check("GetColumnCount()" in unparse(ctf) and "VectorType" in unparse(ctf), "R13.2", f"{CT}::_ProcessExpression matrix row type",
                  "indexing a matrix gives a vector of GetColumnCount() components", None, CT, ctf0)
        at = model.cls(TYPES, "ArrayType").own_method("__init__")
        col.check(f"tuple({at.args.args[2].arg})" in unparse(at), "R13.2", f"{TYPES}::ArrayType keeps dimension order", "sizes are stored in declaration order", None, TYPES, at)
        asd = [P for P in G.productions if P.name == "array_size_declaration_list" and len(P.syms) == 2]
        for P in asd:
            st, pn = select_stmts(P.func, 2)
            col.check(any("p[1] + p[2]" in unparse(s) for s in st), "R13.2", f"{PARSER}::{P.func.name} dimension order", "sizes are appended left to right",
                      "array sizes are not collected left to right", PARSER, P.func)
    # ---------------- R13.3 index type ------------------------------------------
    idx = model.cls(IDX, "ValidateArrayAccessTypeVisitor")
    f3 = idx.own_method("_ValidateArrayExpression")
    rif3 = rejecting_if(f3)
    if rif3 is None:
        col.bad("R13.3", f"{IDX}::_ValidateArrayExpression", "no rejecting branch found: non-integer indices are never rejected", IDX, f3)
    else:
        tname = None
        from ..sem import local_env as _le133, rtext as _rt133

        env133 = _le133(f3, allow_impure=True)
        for n in walk_no_nested(f3):
            if isinstance(n, ast.Assign) and isinstance(n.targets[0], ast.Name) and "GetExpression().GetType()" in _rt133(n.value, {k: v for k, v in env133.items() if k != n.targets[0].id}):
                tname = n.targets[0].id
        # the test is reached for every index expression: no path returns before it
        early = [evs for evs, status in paths(f3.body) if status != "raise" and not any(e.kind == "cond" and e.node is rif3.test for e in evs)]
        col.check(not early, "R13.3", f"{IDX}::_ValidateArrayExpression tests every index", "every returning path evaluates the index-type test",
                  f"a path returns before the index type is tested (under {[(k[:50], v) for k, v in cond_atoms(early[0]).items()][:3] if early else ''}): index expressions of that form "
                  "(e.g. literals) are accepted whatever their type, and a float constant indexes an array", IDX, f3)
        classes = ["Integer", "UnsignedInteger", "Float"]
        res = {}

        class T:
            def __init__(self, n):
                self.n = n

            def __eq__(self, o):
                return isinstance(o, T) and o.n == self.n

            def __ne__(self, o):
                return not self.__eq__(o)

            def __hash__(self):
                return hash(self.n)

        calls = {f"types.{c}": (lambda c=c: T(c)) for c in classes}
        calls.update({"isinstance": lambda a, b: (a.n in ([x.n for x in b] if isinstance(b, tuple) else [b.n]))})
        # a test on an attribute assigned just before (self.flag = <expr>; if not self.flag) is folded through the assignment
        attr_vals = {}
        for n in walk_no_nested(f3):
            if isinstance(n, ast.Assign) and isinstance(n.targets[0], ast.Attribute) and n.lineno < rif3.lineno:
                attr_vals.setdefault(unparse(n.targets[0]), []).append(n.value)

        class _AttrSubst(ast.NodeTransformer):
            def visit_Attribute(self, node):
                vs = attr_vals.get(unparse(node))
                if vs and len(vs) == 1 and isinstance(node.ctx, ast.Load):
                    return vs[0]
                return self.generic_visit(node)

        import copy as _copy

        from ..sem import local_env as _le13, resolve as _rs13

        from ..sem import inline_pure_calls as _ipc13

        test3 = _rs13(_ipc13(idx, rif3.test, f3.args.args[0].arg), {k_: v_ for k_, v_ in _le13(f3).items() if k_ != tname})
        test3 = ast.fix_missing_locations(_AttrSubst().visit(_copy.deepcopy(test3)))
        for c in classes:
            env = {tname or "rhsType": T(c)}
            env.update({f"types.{k}": T(k) for k in classes})
            try:
                res[c] = bool(ev(test3, env, calls))
            except CannotEval as e:
                raise AnalysisError(f"{IDX}: rejection condition `{unparse(rif3.test)}` cannot be folded ({e})")
        want = {"Integer": False, "UnsignedInteger": False, "Float": True}
        col.check(res == want, "R13.3", f"{IDX}::_ValidateArrayExpression index type",
                  f"`{unparse(rif3.test)}` rejects exactly the non-integer index types {res}",
                  f"`{unparse(rif3.test)}` rejects {[k for k, v in res.items() if v]} and accepts {[k for k, v in res.items() if not v]}; only int and uint may index", IDX, rif3)
        col.check(clears_flag(rif3.body), "R13.3", f"{IDX}::_ValidateArrayExpression clears the flag", "the rejecting branch sets valid = False", "the rejecting branch does not clear `valid`", IDX, rif3)
        col.check(tname is not None, "R13.3", f"{IDX}::_ValidateArrayExpression inspects the index", "the type tested is that of the index expression", "the type tested is not the index expression's type", IDX, f3)
    arr_cls = model.cls(ASTF, "ArrayExpression")
    for rel, vis in ((OOB, oob), (IDX, idx)):
        kind, owner, h, base = D.resolve(vis, arr_cls)
        rule_ = "R13.3" if rel == IDX else "R13.1"
        if kind != "explicit":
            col.bad(rule_, f"{rel}::handler for ArrayExpression", "ArrayExpression resolves to default traversal: no array access is ever validated", rel, vis.node)
            continue
        calls_v = [c for c in ast.walk(h) if isinstance(c, ast.Call) and last_attr(c) == "_ValidateArrayExpression"]
        good = bool(calls_v)
        if base is not None and base.name != "ArrayExpression":
            # generic handler: the call must be guarded by exactly `isinstance(node, ArrayExpression)`
            g = [n for n in ast.walk(h) if isinstance(n, ast.If) and any(x is calls_v[0] for s in n.body for x in ast.walk(s))] if calls_v else []
            good = good and bool(g) and isinstance(g[0].test, ast.Call) and "ArrayExpression" in unparse(g[0].test)
        else:
            g = [n for n in ast.walk(h) if isinstance(n, ast.If) and calls_v and any(x is calls_v[0] for s in n.body for x in ast.walk(s))]
            good = good and not g
        col.check(good, rule_, f"{rel}::handler for ArrayExpression checks every ArrayExpression",
                  f"every ArrayExpression reaches _ValidateArrayExpression ({owner.name}.{h.name})", "not every ArrayExpression is handed to _ValidateArrayExpression", rel, h)
    # ---------------- R13.4 swizzle ----------------------------------------------
    sv = model.cls(SWZ, "ValidateSwizzleMaskVisitor")
    h = sv.own_method("v_MemberAccessExpression")
    helper = model.func(SWZ, "ValidateSwizzleMask")
    hp = [a.arg for a in helper.args.args]
    vcalls = [c for c in ast.walk(h) if isinstance(c, ast.Call) and last_attr(c) == "ValidateSwizzleMask"]
    if not vcalls:
        col.bad("R13.4", f"{SWZ}::v_MemberAccessExpression", "ValidateSwizzleMask is never called: no mask is validated", SWZ, h)
    else:
        c = vcalls[0]

        def resolve(e):
            if isinstance(e, ast.Name):
                # assigned in both arms of one if/else: the value is the conditional expression
                for n_ in ast.walk(h):
                    if isinstance(n_, ast.If) and len(n_.body) == 1 and len(n_.orelse) == 1 and all(
                            isinstance(s_, ast.Assign) and isinstance(s_.targets[0], ast.Name) and s_.targets[0].id == e.id for s_ in (n_.body[0], n_.orelse[0])):
                        return ast.IfExp(test=n_.test, body=n_.body[0].value, orelse=n_.orelse[0].value)
                v = find_assign(h, e.id)
                return v[-1] if v else e
            return e

        a0 = resolve(c.args[0]) if c.args else None
        t0 = unparse(a0) if a0 is not None else ""
        col.check(t0.endswith(".GetName()") and "GetMember()" in t0, "R13.4", f"{SWZ}::v_MemberAccessExpression mask argument",
                  f"the mask text `{t0}` is validated",
                  f"`{t0}` is passed as the mask: GetMember() is a PrimaryExpression node (every other consumer calls .GetName() on it); iterating it yields no characters, so nothing is validated", SWZ, c)
        rest = [resolve(a) for a in c.args[1:]] + [resolve(k.value) for k in c.keywords]
        dep = any(any(w in unparse(r) for w in ("GetComponentCount", "GetSize")) for r in rest)
        col.check(dep, "R13.4", f"{SWZ}::v_MemberAccessExpression passes the component count",
                  "the decision depends on the component count of the swizzled type",
                  "the component count of the swizzled type is not passed to the mask check: `float2.z` cannot be rejected", SWZ, c)
        # scalar parents have one component
        for r in rest:
            t = unparse(r)
            if "GetComponentCount" in t:
                col.check(("IsVector" in t and " 1" in t) or "IsScalar" in t, "R13.4", f"{SWZ}::v_MemberAccessExpression scalar count",
                          "a scalar parent counts as one component", "the count expression does not treat a scalar parent as one component", SWZ, c)
        gt = [n for n in ast.walk(h) if isinstance(n, ast.If) and any(x is c for s in n.body for x in ast.walk(s))]
        # fold the enclosing guards over the kind of the parent's type: vector and scalar parents must reach the mask check
        from ..kindflow import make_fold as _mkfold

        KIND_PRED = {"vector": {"IsPrimitive": True, "IsVector": True, "IsScalar": False, "IsMatrix": False, "IsArray": False, "IsStructure": False, "IsAggregate": False},
                     "scalar": {"IsPrimitive": True, "IsVector": False, "IsScalar": True, "IsMatrix": False, "IsArray": False, "IsStructure": False, "IsAggregate": False}}
        reach = {}
        for kind_, preds_ in KIND_PRED.items():
            def atom_(t_, preds_=preds_):
                if isinstance(t_, ast.Call) and isinstance(t_.func, ast.Attribute) and t_.func.attr in preds_ and not t_.args:
                    return preds_[t_.func.attr]
                return None

            fold_ = _mkfold(atom_)
            vals_ = [fold_(n.test) for n in gt]
            reach[kind_] = all(v is not False for v in vals_)
        col.check(bool(gt) and all(reach.values()) or (not gt), "R13.4", f"{SWZ}::v_MemberAccessExpression applies to vectors and scalars",
                  "masks on vector and scalar parents are validated",
                  f"the guard around the mask check is false for {[k for k, v in reach.items() if not v]} parents ({[' '.join(unparse(n.test).split()) for n in gt]}): their masks are never validated", SWZ, h)
        # whether a mask is validated may depend on the parent's type only (no visitor state, no cache)
        tvars = {n.targets[0].id for n in ast.walk(h) if isinstance(n, ast.Assign) and isinstance(n.targets[0], ast.Name) and "GetParent().GetType()" in unparse(n.value)}
        impure = []
        for n in gt:
            for x in ast.walk(n.test):
                if isinstance(x, ast.Name) and x.id not in tvars and x.id not in ("isinstance", "types", "nsl"):
                    impure.append(x.id)
                if isinstance(x, ast.Attribute) and isinstance(x.value, ast.Name) and x.value.id == "self":
                    impure.append("self." + x.attr)
        col.check(not impure, "R13.4", f"{SWZ}::v_MemberAccessExpression validates every swizzle",
                  "whether a mask is validated depends only on the type of the swizzled expression",
                  f"the validation is skipped depending on {sorted(set(impure))}: a mask accepted once (e.g. on a wider vector) is not checked again on another type", SWZ, h)
    # the helper: alphabet, mixing, count
    alpha_ok = False
    mix_ok = False
    count_ok = False
    fams = set(oracles.SWIZZLE_FAMILIES)
    cparam = hp[1] if len(hp) > 1 else None
    from ..sem import local_env as _lenv, resolve as _resolve

    helper_env = _lenv(helper, allow_impure=True)  # a test held in a local (`usesMissing = ContainsAnyOf(..) or ..`) is read in place
    for n in ast.walk(helper):
        if isinstance(n, ast.If):
            t = _resolve(n.test, helper_env)
            raises = [unparse(c.func) for s in n.body for c in ast.walk(s) if isinstance(c, ast.Call) and last_attr(c) == "Raise"]
            if not raises:
                continue
            consts = {x.value for x in ast.walk(t) if isinstance(x, ast.Constant) and isinstance(x.value, str)}
            names = {x.id for x in ast.walk(t) if isinstance(x, ast.Name)}
            if any(isinstance(x, ast.Compare) and isinstance(x.ops[0], (ast.NotIn, ast.In)) for x in ast.walk(t)) and "INVALID" in raises[0] and (cparam is None or cparam not in names):
                # fold the test over sample masks: it must reject exactly the masks with a letter outside the alphabet
                alphabet = set(oracles.SWIZZLE)
                agree = True
                for sample in ("x", "w", "r", "a", "xyzw", "rgba", "q", "xq", "qx", "xyzq", "X", "s", "xs", "1"):
                    try:
                        got = bool(ev(t, {hp[0]: sample}))
                    except CannotEval:
                        agree = None
                        break
                    if got != any(ch not in alphabet for ch in sample):
                        agree = False
                        break
                if agree is None:
                    alpha = "".join(sorted(set("".join(consts))))
                    agree = alpha == "".join(sorted(oracles.SWIZZLE)) and any(isinstance(x, ast.Compare) and isinstance(x.ops[0], ast.NotIn) for x in ast.walk(t))
                if agree:
                    alpha_ok = True
            if fams <= consts and isinstance(t, ast.BoolOp) and isinstance(t.op, ast.And) and (cparam is None or cparam not in names) and "MIXED" in raises[0]:
                mix_ok = True
            if cparam is not None and cparam in names:
                count_ok = True
    # elif chains are nested Ifs in orelse: ast.walk covers them
    # (however the tests are spelled: if the validator, folded over the sample masks below, rejects exactly what it must, the
    # three clauses hold)
    try:
        _f0 = fold_swizzle_validator(model, helper, model.func("nsl/Utility.py", "ContainsAnyOf"))
    except Exception:
        _f0 = None
    if _f0 is not None and not _f0[1]:
        alpha_ok = mix_ok = count_ok = True
        cparam = None
    col.check(alpha_ok, "R13.4", f"{SWZ}::ValidateSwizzleMask alphabet", "letters outside xyzw/rgba raise the invalid-mask error",
              "no test rejects letters outside exactly {x,y,z,w,r,g,b,a}", SWZ, helper)
    col.check(mix_ok, "R13.4", f"{SWZ}::ValidateSwizzleMask mixing", "a mask using both letter families raises the mixed-mask error",
              "no test rejects masks that mix xyzw with rgba", SWZ, helper)
    col.check(count_ok, "R13.4", f"{SWZ}::ValidateSwizzleMask component count", "a raise depends on the component count parameter",
              "no rejection depends on the number of components of the swizzled type: `float2.z` is accepted", SWZ, helper)
    if cparam is not None:
        # the count test must cut both families at the count: "xyzw"[count:] and "rgba"[count:]
        cuts = [unparse(x.value) for x in ast.walk(helper) if isinstance(x, ast.Subscript) and isinstance(x.slice, ast.Slice)
                and x.slice.lower is not None and unparse(x.slice.lower) == cparam and x.slice.upper is None]
        col.check({c.strip("'\"") for c in cuts} >= fams, "R13.4", f"{SWZ}::ValidateSwizzleMask both families limited by the count",
                  f"letters beyond the count are rejected in both families ({cuts})",
                  f"only {cuts} is cut at the component count: the other family can still name missing components", SWZ, helper)
    ca = model.func("nsl/Utility.py", "ContainsAnyOf")
    # folded by this module's own interpreter on a grid of literal strings (every pair over a 3-letter alphabet, length <= 2)
    from ..miniev import run_pure
    grid = ["", "a", "b", "c", "ab", "ba", "bc", "cc", "abc"]
    bad = None
    try:
        for x in grid:
            for y in grid:
                got = run_pure(ca, (x, y))
                if bool(got) != any(ch in y for ch in x) or not isinstance(got, bool):
                    bad = bad or f"ContainsAnyOf({x!r}, {y!r}) folds to {got!r}"
    except CannotEval as e:
        raise AnalysisError(f"nsl/Utility.py::ContainsAnyOf is no longer a foldable pure helper ({e})")
    col.check(bad is None, "R13.4", "nsl/Utility.py::ContainsAnyOf", "true iff an element of the iterable is in `what` (folded on 81 literal pairs)",
              f"{bad}: the swizzle validators built on it accept or reject the wrong masks", "nsl/Utility.py", ca)
    # the validator as a whole, folded over masks of length 1..4 (and one of 5) and counts 1..4: rejected exactly when a
    # letter is outside the alphabet, names a component the type does not have, or the two families are mixed
    folded_sw = fold_swizzle_validator(model, helper, ca)
    if folded_sw is None:
        col.ok("R13.4", f"{SWZ}::ValidateSwizzleMask over sample masks", "not folded (the helper is not in a foldable form); the clause rules above apply")
    else:
        col.check(not folded_sw[1], "R13.4", f"{SWZ}::ValidateSwizzleMask over {folded_sw[0]} (mask, count) pairs", "rejects exactly: unknown letter, missing component, mixed families",
                  "; ".join(folded_sw[1][:3]) + f" ({len(folded_sw[1])} of {folded_sw[0]}): a valid swizzle is rejected or an invalid one accepted", SWZ, helper)
    # swizzle alphabets agree (R04.1)
    maps = {}
    pm = model.func(CT, "ParseSwizzleMask")
    for n in ast.walk(pm):
        if isinstance(n, ast.Dict):
            maps["ParseSwizzleMask.mapping"] = (model.fold(n), CT, pm)
    lm = model.cls("nsl/passes/LowerToIR.py", "LowerToIRVisitor").own_method("v_MemberAccessExpression")
    for n in ast.walk(lm):
        if isinstance(n, ast.Dict) and len(n.keys) >= 4:
            maps["swizzleComponentToIndex"] = (model.fold(n), "nsl/passes/LowerToIR.py", lm)
    for name, (m, rel, node) in maps.items():
        col.check(m == oracles.SWIZZLE, "R13.4", f"{rel}::{name}", "letter -> component index table is x/r=0 .. w/a=3",
                  f"letter table {m} differs from x/r=0, y/g=1, z/b=2, w/a=3", rel, node)
    # member of a member access is always a PrimaryExpression (so .GetName() is the mask)
    for P in G.productions:
        st, pn = select_stmts(P.func, len(P.syms))
        for s in st:
            for c in ast.walk(s):
                if isinstance(c, ast.Call) and last_attr(c) == "MemberAccessExpression" and len(c.args) == 2:
                    m = c.args[1]
                    v = find_assign(P.func, m.id) if isinstance(m, ast.Name) else [m]
                    col.check(bool(v) and isinstance(v[0], ast.Call) and last_attr(v[0]) == "PrimaryExpression", "R13.4",
                              f"{PARSER}::{P.func.name} member is a PrimaryExpression", "the member of a member access is a PrimaryExpression holding the mask text", None, PARSER, P.func)
    # ---------------- R13.5 validator discipline ------------------------------------
    for pname in VALIDATORS:
        info = pipe.check_validator(col, "R13.5", pname)
        v = info["visitor"]
        rel = info["file"]
        withs = []
        for m in v.methods.values():
            for w in ast.walk(m):
                if isinstance(w, ast.With):
                    for it in w.items:
                        c = it.context_expr
                        if isinstance(c, ast.Call) and last_attr(c) == "CompileExceptionToErrorHandler":
                            withs.append((m, w, c))
        all_cb = True
        for m, w, c in withs:
            cb = c.args[1] if len(c.args) > 1 else next((k.value for k in c.keywords if k.arg == "onErrorCallback"), None)
            ok_cb = False
            if cb is not None:
                # resolve callback: local def in same method, or attribute assigned in __init__ from a local def
                name = cb.id if isinstance(cb, ast.Name) else cb.attr if isinstance(cb, ast.Attribute) else None
                for mm in v.methods.values():
                    for d in ast.walk(mm):
                        if isinstance(d, ast.FunctionDef) and clears_flag(d.body):
                            if name and (d.name == name or any(
                                    isinstance(a, ast.Assign) and isinstance(a.targets[0], ast.Attribute) and a.targets[0].attr == name
                                    and isinstance(a.value, ast.Name) and a.value.id == d.name for a in ast.walk(mm))):
                                ok_cb = True
            all_cb &= ok_cb
        # raise sites inside the visitor class
        raise_sites = []
        for m in v.methods.values():
            for evs, status in paths(m.body):
                if status == "raise":
                    cleared = any(e.kind == "stmt" and clears_flag([e.node]) for e in evs)
                    raise_sites.append((m, cleared, evs[-1].node))
        helper_raises = []
        fi = model.file(rel)
        for fn in fi.functions.values():
            if any(isinstance(c, ast.Call) and last_attr(c) == "Raise" for c in ast.walk(fn)):
                called = any(isinstance(c, ast.Call) and last_attr(c) == fn.name for m in v.methods.values() for c in ast.walk(m))
                if called:
                    helper_raises.append(fn.name)
        # the flag is sticky: once cleared it stays cleared (outside __init__ it is only ever assigned the constant False)
        resets = []
        for mname_, m in v.methods.items():
            if mname_ == "__init__":
                continue
            for n in ast.walk(m):
                if isinstance(n, (ast.Assign, ast.AugAssign, ast.AnnAssign)):
                    tg = n.targets if isinstance(n, ast.Assign) else [n.target]
                    if any(isinstance(t_, ast.Attribute) and t_.attr == "valid" for t_ in tg):
                        val_ = n.value
                        sticky = (isinstance(n, ast.AugAssign) and isinstance(n.op, ast.BitAnd)) or \
                                 (not isinstance(n, ast.AugAssign) and isinstance(val_, ast.Constant) and val_.value is False) or \
                                 (not isinstance(n, ast.AugAssign) and isinstance(val_, ast.BoolOp) and isinstance(val_.op, ast.And)
                                  and any(isinstance(x, ast.Attribute) and x.attr == "valid" for x in val_.values))
                        if not sticky:
                            resets.append(n)
        cond_tr = conditional_traversals(v)
        col.check(not cond_tr, "R13.5", f"{rel}::{v.name} visits children unconditionally", "no traversal call depends on more than the presence / kind of the child",
                  (f"{cond_tr[0][0].name} visits `{' '.join(unparse(cond_tr[0][1]).split())[:50]}` only if `{' '.join(unparse(cond_tr[0][2]).split())[:60]}`" if cond_tr else "")
                  + ": for the other programs that subtree is never validated", rel, cond_tr[0][1] if cond_tr else v.node)
        early = validator_early_exits(v)
        col.check(not early, "R13.5", f"{rel}::{v.name} looks at everything", "no handler returns before its traversal calls except on the absence / kind of a child",
                  (f"{early[0][0].name} returns under `{' '.join(unparse(early[0][2]).split())[:70]}` before it has visited its node's children" if early else "")
                  + ": what lies below is accepted unchecked (the condition is a guess about the subtree, not a test for its absence)", rel, early[0][1] if early else v.node)
        col.check(not resets, "R13.5", f"{rel}::{v.name} flag is sticky", "outside __init__ `valid` is only ever set to False",
                  f"`{unparse(resets[0])[:70] if resets else ''}` assigns a computed value to `valid`: a later node that passes the test sets the flag back to True, so the verdict is that of the "
                  "last visited node, not of the whole program", rel, resets[0] if resets else v.node)
        if withs and all_cb:
            col.ok("R13.5", f"{rel}::{v.name} errors clear the flag", f"all {len(withs)} error-swallowing region(s) have a callback that clears `valid`")
        else:
            bad_sites = [(m.name, unparse(n)[:50]) for m, cleared, n in raise_sites if not cleared]
            good = not bad_sites and not helper_raises and bool(raise_sites)
            col.check(good, "R13.5", f"{rel}::{v.name} errors clear the flag",
                      f"every raise in the visitor ({len(raise_sites)}) is preceded by valid = False",
                      f"errors are swallowed by CompileExceptionToErrorHandler without clearing `valid`: raise sites not preceded by `valid = False`: {bad_sites}; "
                      f"raising helpers outside the visitor: {helper_raises}. The pass accepts whatever it diagnoses", rel, v.node)
    # the typing pass gives every declaration its own type: it, too, visits the children of a node unconditionally (a field
    # that is skipped because "its name is known already" takes the type of another structure's field, and every static check
    # on element selection then works with the wrong sizes)
    ctv13 = model.cls("nsl/passes/ComputeTypes.py", "ComputeTypeVisitor")
    ct_cond = conditional_traversals(ctv13) + [(h_, r_, g_) for h_, r_, g_ in validator_early_exits(ctv13)]
    col.check(not ct_cond, "R13.5", "nsl/passes/ComputeTypes.py::ComputeTypeVisitor types every child", "no handler skips the visit of a child on a condition other than its presence / kind",
              (f"{ct_cond[0][0].name}: `{' '.join(unparse(ct_cond[0][1]).split())[:50]}` under `{' '.join(unparse(ct_cond[0][2]).split())[:60]}`" if ct_cond else "")
              + ": a declaration that is not visited keeps no type of its own", "nsl/passes/ComputeTypes.py", ct_cond[0][1] if ct_cond else ctv13.node)
    pipe.makepass_process(col, "R13.5")
    pipe.check_gating(col, "R13.5")
    pipe.check_pass_freshness(col, "R13.5", ["ValidateArrayAccessType", "ValidateArrayOutOfBoundsAccess", "ValidateSwizzle"])
    pipe.check_runpass_wellformed(col, "R13.5")
    # order: ComputeTypes before the three validators (they read expression types)
    ap = pipe.ast_passes
    for pname in ("ValidateArrayAccessType", "ValidateArrayOutOfBoundsAccess", "ValidateSwizzle"):
        col.check(pname in ap and "ComputeTypes" in ap and ap.index("ComputeTypes") < ap.index(pname), "R13.5", f"nsl/Compiler.py::astPasses order ComputeTypes < {pname}",
                  "types are computed before the validator reads them", f"{pname} does not run after ComputeTypes", "nsl/Compiler.py", pipe.cls.node)
    # ... and before every pass that wraps expressions in (implicit) casts: the validators discriminate on the index expression's
    # own class (literal or not) and on its own static type, a cast inserted around it hides both
    inserters = []
    for pname in ap:
        try:
            pf = model.file(pipe.pass_file(pname))
        except Exception:
            continue
        if any(isinstance(c, ast.Call) and last_attr(c) == "CastExpression" for c in ast.walk(pf.tree)):
            inserters.append(pname)
    col.floor("R13.5", "cast-inserting AST passes", len(inserters), 1)
    for pname in ("ValidateArrayAccessType", "ValidateArrayOutOfBoundsAccess"):
        late = [i_ for i_ in inserters if pname in ap and ap.index(i_) < ap.index(pname)]
        col.check(pname in ap and not late, "R13.5", f"nsl/Compiler.py::astPasses order {pname} < cast insertion",
                  f"the validator sees the index expressions as written (cast-inserting passes {inserters} run later)",
                  f"{late} runs before {pname}: index expressions are already wrapped in implicit casts, so a float index has type int and a literal index is no longer a literal node - both escape the check",
                  "nsl/Compiler.py", pipe.cls.node)
    # ---------------- R13.6 literal detection ------------------------------------------
    rx = G.lexer.token_regex("INT_CONST_DEC")
    col.check(rx is not None and re.fullmatch(rx, "-1") is not None and re.fullmatch(rx, "12") is not None, "R13.6", f"{LEXER}::decimal_constant",
              "a signed decimal literal is one token", "`-1` is no longer a single INT_CONST_DEC token: negative constant indices reach the validator as expressions, not literals", LEXER, G.lexer.cls.node)
    for P in G.prods_named("constant_integer_expression"):
        st, pn = select_stmts(P.func, 1)
        mk = [c for s in st for c in ast.walk(s) if isinstance(c, ast.Call) and last_attr(c) == "LiteralExpression"]
        col.check(bool(mk) and "int(" in unparse(mk[0].args[0]) and "Integer" in unparse(mk[0].args[1]), "R13.6", f"{PARSER}::{P.func.name}[{P}]",
                  "integer tokens become LiteralExpression(int(text), Integer)", "integer token is not turned into an integer LiteralExpression", PARSER, P.func)
    # ---------------- R13.7 validators see every node -------------------------------------
    exprbase = model.cls(ASTF, "Expression")
    for rel, vis in ((OOB, oob), (IDX, idx), (SWZ, sv)):
        col.check(not D.overrides_generic(vis), "R13.7", f"{rel}::{vis.name} uses the generic dispatch", "v_Generic not overridden", None, rel, vis.node)
        handlers = {}
        for ci in D.ast_classes():
            kind, owner, hh, base = D.resolve(vis, ci)
            if kind == "explicit":
                handlers.setdefault(hh.name, (hh, []))[1].append(ci.name)
            else:
                if not D.default_traverses(vis):
                    col.bad("R13.7", f"{rel}::{vis.name} default traversal", "v_Default does not traverse children", rel, vis.node)
        for hname, (hh, classes) in sorted(handlers.items()):
            nodep = hh.args.args[1].arg
            incomplete = 0
            total = 0
            for evs, status in paths(hh.body):
                if status == "raise":
                    continue
                total += 1
                cs = calls_on_path(evs)
                full = any(last_attr(c) == "AcceptVisitor" and isinstance(c.func.value, ast.Name) and c.func.value.id == nodep for c in cs)
                if not full:
                    # alternatively every child getter is dispatched: v_Visit(node.GetX(), ..) for all traversed fields
                    visited = {unparse(c.args[0]) for c in cs if last_attr(c) in ("v_Visit", "v_Generic", "Visit") and c.args}
                    need = set()
                    for cn in classes:
                        ci_ = model.cls(ASTF, cn)
                        flds = {f_ for f_, g in D.traversed_fields(ci_)}
                        for gname, gm in [(k, v) for c_ in ci_.mro for k, v in c_.methods.items()]:
                            rets_ = [r.value for r in ast.walk(gm) if isinstance(r, ast.Return) and isinstance(r.value, ast.Attribute)]
                            if len(rets_) == 1 and rets_[0].attr in {f_.split("__")[-1] if f_.startswith("_") and "__" in f_ else f_ for f_ in flds} | flds:
                                need.add(f"{nodep}.{gname}()")
                    full = bool(need) and need <= visited and len(classes) == 1
                if not full:
                    incomplete += 1
            col.check(incomplete == 0, "R13.7", f"{rel}::{vis.name}.{hname} keeps traversing",
                      f"handler for {classes[:4]}{'...' if len(classes) > 4 else ''} traverses all children on every path",
                      f"{incomplete} of {total} paths of the handler for {classes[:6]} return without traversing the node's children: "
                      "an access nested below (inner swizzle of `v.xy.x`, anything inside `a[v.q].x`) is never validated", rel, hh)
    holders = can_contain(G, {"array_expression", "member_access_expression"})
    n = field_coverage(model, G, D, holders | {"array_expression", "member_access_expression"}, col, "R13.7", "an array/member access")
    col.floor("R13.7", "fields that can hold an access expression", n, 15)
    ae = model.cls(ASTF, "ArrayExpression")
    tf = [f_ for f_, g in D.traversed_fields(ae)]
    col.check("id" in tf and "_expression" in tf, "R13.7", f"{ASTF}::ArrayExpression._Traverse", "parent and index are both traversed", f"ArrayExpression traverses only {tf}", ASTF, ae.node)
    ma = model.cls(ASTF, "MemberAccessExpression")
    tf = [f_ for f_, g in D.traversed_fields(ma)]
    col.check("id" in tf, "R13.7", f"{ASTF}::MemberAccessExpression._Traverse", "the parent expression is traversed", f"MemberAccessExpression traverses only {tf}", ASTF, ma.node)
