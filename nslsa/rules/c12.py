"""C12 No two visible variables share a name; references bind lexically."""
from __future__ import annotations

import ast

from ..astcover import can_contain, field_coverage
from ..dispatch import Dispatch
from ..grammar import Grammar, PARSER
from ..model import AnalysisError, AnchorMissing, dotted, find_assign, last_attr, mangle, unparse
from ..paths import paths, calls_on_path
from ..pipeline import Pipeline
from ..vmmodel import VMModel, VM

TITLE = "variable names: redeclaration rejected along the scope chain, lexical binding"
LEVEL = "other"
NAMES = "nsl/passes/ValidateVariableNames.py"
CT = "nsl/passes/ComputeTypes.py"
LOWER = "nsl/passes/LowerToIR.py"
ASTF = "nsl/ast/__init__.py"
TYPES = "nsl/types.py"
SCOPE_CLASSES = {"Function", "CompoundStatement", "ForStatement", "DoStatement", "WhileStatement", "IfStatement"}
EXPLANATION = (
    "R12.1 the classes for which the typing pass pushes a Scope and the validator creates a Context are the classes that "
    "syntactically open a scope; each validator handler chains the new table to the incoming one, hands it to all children, "
    "inside a region whose errors clear the flag. R12.2 Context.Add looks the name up along the whole chain before inserting, "
    "a hit raises; parameters are added before the body; globals are visited before functions with the root table. "
    "R12.3 every construct that builds a VariableDeclaration is reachable by the traversal and resolves to the declaration "
    "handler. R12.4 lowering resolves names through one per-function map built freshly per function and the VM addresses locals "
    "by name in one flat map (sound because of R12.1-3); the pass gates compilation. R12.5 every typing scope pushed is popped "
    "on all paths and declarations register in the innermost scope. R12.1 also: names enter the typing scope and lowering's "
    "table of globals only from the node being visited / the module's own declarations. R12.4 also: the validator looks at "
    "everything (no early exit before its traversal, = R13.5; every statement of a block reaches the tree, = R11.6)."
)
NOT_DECIDED = "run-time binding of every use on every program (follows from the clauses; not separately executed)"
ASSUMPTIONS = ["uniqueness of visible names is what makes the VM's flat per-activation name map sound"]


def _rooted_at(expr, fn, root: str, depth: int = 4) -> bool:
    """every variable the expression reads is `root` itself or a local of fn bound (assignment, loop target, comprehension
    target) from an expression that is, in turn, rooted at `root`; names of modules / classes (bound outside fn) are free."""
    if depth <= 0:
        return False
    bound = {}
    for n in ast.walk(fn):
        if isinstance(n, ast.Assign):
            for t in n.targets:
                for x in ast.walk(t):
                    if isinstance(x, ast.Name):
                        bound.setdefault(x.id, []).append(n.value)
        elif isinstance(n, (ast.For, ast.comprehension)):
            for x in ast.walk(n.target):
                if isinstance(x, ast.Name):
                    bound.setdefault(x.id, []).append(n.iter)
    params = {a.arg for a in fn.args.args}
    for x in ast.walk(expr):
        if not (isinstance(x, ast.Name) and isinstance(x.ctx, ast.Load)):
            continue
        if x.id == root:
            continue
        if x.id in params:
            return False
        if x.id in bound:
            if not all(_rooted_at(v, fn, root, depth - 1) for v in bound[x.id]):
                return False
    return True


def check_name_sources(model, col, rule):
    """Every name a function body can bind to comes from a declaration of the module being compiled - a construct the name
    validator visits: the typing scope is filled (RegisterVariable) from the handler's own node, and lowering's table of
    global names from the module's own declarations.  A name that enters from elsewhere (an imported module's globals, say)
    is one the validator never compared local names with."""
    n = 0
    for rel, fi in sorted(model.files.items()):
        if not rel.startswith("nsl/passes/"):
            continue
        for ci in [c for c in model.classes.values() if c.file == rel]:
            for m in ci.methods.values():
                if len(m.args.args) < 2:
                    continue
                nodep = m.args.args[1].arg
                for c in ast.walk(m):
                    if isinstance(c, ast.Call) and last_attr(c) == "RegisterVariable" and c.args:
                        n += 1
                        ok = _rooted_at(c.args[0], m, nodep)
                        col.check(ok, rule, f"{rel}::{ci.name}.{m.name} registers a declared name", f"`{unparse(c.args[0])}` comes from the handler's node `{nodep}`",
                                  f"`{' '.join(unparse(c).split())[:70]}` puts a name into the typing scope that does not come from `{nodep}` (the construct being visited): the name validator "
                                  "never sees where it was declared, so a local of that name is accepted and its uses bind to the other variable", rel, c)
    col.floor(rule, "RegisterVariable call sites", n, 2)
    lctx = model.cls(LOWER, "LowerToIRVisitor.Context")
    init = lctx.own_method("__init__")
    gl = None
    oem = lctx.own_method("OnEnterModule")
    for x in ast.walk(oem):
        if isinstance(x, ast.Assign) and isinstance(x.targets[0], ast.Subscript) and isinstance(x.targets[0].value, ast.Attribute) and "GLOBAL" in unparse(x.value):
            gl = x.targets[0].value.attr
    if gl is None:
        raise AnchorMissing(f"{LOWER}::Context.OnEnterModule fills the table of global names")
    ng = 0
    for m in lctx.methods.values():
        for x in ast.walk(m):
            if isinstance(x, ast.Assign) and isinstance(x.targets[0], ast.Subscript) and isinstance(x.targets[0].value, ast.Attribute) and x.targets[0].value.attr == gl:
                ng += 1
                modp = m.args.args[1].arg if len(m.args.args) > 1 else None
                ok = m.name == "OnEnterModule" and modp is not None and _rooted_at(x.targets[0].slice, m, modp)
                col.check(ok, rule, f"{LOWER}::Context.{m.name} global names", "a name is global in lowering iff the module being compiled declares it",
                          f"`{' '.join(unparse(x).split())[:70]}` makes a name global that is not one of the module's own declarations: a local or parameter of that name is lowered to accesses of "
                          "the global (lowering looks names up globals first)", LOWER, x)
            elif isinstance(x, ast.Call) and isinstance(x.func, ast.Attribute) and x.func.attr in ("update", "setdefault") and isinstance(x.func.value, ast.Attribute) and x.func.value.attr == gl:
                ng += 1
                col.bad(rule, f"{LOWER}::Context.{m.name} global names", f"`{' '.join(unparse(x).split())[:70]}` adds global names in bulk; only the module's own declarations are global", LOWER, x)
    col.floor(rule, "writes to lowering's table of global names", ng, 1)


def run(model, col, tier):
    G = Grammar(model)
    D = Dispatch(model)
    pipe = Pipeline(model)
    vv = model.cls(NAMES, "ValidateVariableNamesVisitor")
    ctv = model.cls(CT, "ComputeTypeVisitor")
    vctx = model.cls(NAMES, "ValidateVariableNamesVisitor.Context")
    for v, f in ((vv, NAMES), (ctv, CT)):
        col.check(not D.overrides_generic(v), "R12.1", f"{f}::{v.name} uses the generic dispatch", "v_Generic is not overridden", None, f, v.node)
    # ---- R12.1 -------------------------------------------------------------
    check_name_sources(model, col, "R12.1")
    val_scope, val_fresh = {}, {}
    from ..sem import expand_helpers, iterations

    for name, m in vv.methods.items():
        if not name.startswith("v_") or len(m.args.args) < 3:
            continue
        m = expand_helpers(model, vv, m)
        ctxn = m.args.args[2].arg
        mk = [n for n in ast.walk(m) if isinstance(n, ast.Assign) and isinstance(n.value, ast.Call) and last_attr(n.value) == "Context"]
        if mk:
            c = mk[0].value
            if c.args and isinstance(c.args[0], ast.Name) and c.args[0].id == ctxn:
                val_scope[name[2:]] = (m, mk[0])
            else:
                val_fresh[name[2:]] = (m, mk[0])
    typ_scope = {}
    for name, m in ctv.methods.items():
        if not name.startswith("v_"):
            continue
        m = expand_helpers(model, ctv, m)
        pushes = [c for c in ast.walk(m) if isinstance(c, ast.Call) and last_attr(c) == "append" and c.args and isinstance(c.args[0], (ast.Call, ast.Name))]
        scope_push = []
        for c in pushes:
            a = c.args[0]
            if isinstance(a, ast.Name):
                v = find_assign(m, a.id)
                a = v[0] if v else a
            if isinstance(a, ast.Call) and last_attr(a) == "Scope":
                scope_push.append((c, a))
        if scope_push:
            typ_scope[name[2:]] = (m, scope_push)
    col.note("scope-introducing classes", {"validator": sorted(val_scope), "validator-fresh": sorted(val_fresh), "typing": sorted(typ_scope)})
    for cname in sorted(SCOPE_CLASSES):
        ci = model.cls(ASTF, cname)
        k1 = D.resolve(vv, ci)
        k2 = D.resolve(ctv, ci)
        h1 = k1[2].name[2:] if k1[0] == "explicit" else None
        h2 = k2[2].name[2:] if k2[0] == "explicit" else None
        col.check(h1 in val_scope, "R12.1", f"{NAMES}::scope for {cname}",
                  f"{cname} opens a name table chained to the enclosing one (handler v_{h1})",
                  f"{cname} does not get its own name table chained to the enclosing one (handler: {h1}; fresh-unchained: {h1 in val_fresh}): "
                  + ("declarations inside it are checked only against themselves, shadowing an outer name is accepted" if h1 in val_fresh else
                     "its declarations land in the enclosing table, so disjoint sibling scopes can no longer reuse a name"), NAMES, vv.node)
        col.check(h2 in typ_scope, "R12.1", f"{CT}::scope for {cname}", f"{cname} pushes a typing Scope (handler v_{h2})",
                  f"{cname} pushes no typing scope: a name declared inside stays visible after it", CT, ctv.node)
    extra = (set(val_scope) | set(typ_scope)) - SCOPE_CLASSES
    col.check(not extra, "R12.1", "scope-introducing classes are exactly the syntactic scopes", "no other class opens a scope",
              f"classes {sorted(extra)} open a scope although they are not syntactic scopes", NAMES, vv.node)
    onerr_ok = False
    init = vv.own_method("__init__")
    for n in ast.walk(init):
        if isinstance(n, ast.FunctionDef):
            sets = [s for s in ast.walk(n) if isinstance(s, ast.Assign) and isinstance(s.targets[0], ast.Attribute) and s.targets[0].attr == "valid"
                    and isinstance(s.value, ast.Constant) and s.value.value is False]
            if sets:
                onerr_ok = n.name
    col.check(bool(onerr_ok), "R12.1", f"{NAMES}::error callback clears the flag", f"{onerr_ok}() sets valid = False", "no error callback clears `valid`", NAMES, init)
    for cname, (m, mk) in sorted(list(val_scope.items()) + list(val_fresh.items())):
        ctxn = m.args.args[2].arg
        nodep = m.args.args[1].arg
        newname = mk.targets[0].id if isinstance(mk.targets[0], ast.Name) else None
        withs = [w for w in ast.walk(m) if isinstance(w, ast.With)]
        in_with = []
        cb = False
        for w in withs:
            for it in w.items:
                c = it.context_expr
                if isinstance(c, ast.Call) and last_attr(c) == "CompileExceptionToErrorHandler":
                    cb = len(c.args) >= 2 and "onError" in unparse(c.args[1]) or any(k.arg == "onErrorCallback" for k in c.keywords)
            for c in ast.walk(w):
                if isinstance(c, ast.Call) and last_attr(c) in ("AcceptVisitor", "v_Visit", "v_Generic"):
                    in_with.append(c)
        trav_all = [c for c in ast.walk(m) if isinstance(c, ast.Call) and last_attr(c) in ("AcceptVisitor", "v_Visit", "v_Generic")]
        passes_new = all((len(c.args) >= 2 and isinstance(c.args[-1], ast.Name) and c.args[-1].id == newname) for c in trav_all) and bool(trav_all)
        covers = any(last_attr(c) == "AcceptVisitor" and isinstance(c.func.value, ast.Name) and c.func.value.id == nodep for c in trav_all) or \
            (cname == "Function" and any("GetBody" in unparse(c) for c in trav_all))
        col.check(passes_new and covers, "R12.1", f"{NAMES}::v_{cname} hands the new table to the children",
                  "all children are visited with the new name table", f"children are visited as {[unparse(c) for c in trav_all]}: not all with the new table `{newname}`", NAMES, m)
        col.check(bool(in_with) and len(in_with) == len(trav_all) and cb, "R12.1", f"{NAMES}::v_{cname} errors clear the flag",
                  "the children are visited inside a region that logs the error and clears `valid`",
                  "the traversal is not inside CompileExceptionToErrorHandler(errorHandler, onError): a redeclaration below would not clear the flag (or abort the whole pass)", NAMES, m)
    # ---- R12.2 -------------------------------------------------------------
    add = vctx.own_method("Add")
    get = vctx.own_method("Get")
    cinit = vctx.own_method("__init__")
    pstore = [n for n in ast.walk(cinit) if isinstance(n, ast.Assign) and isinstance(n.targets[0], ast.Attribute) and isinstance(n.value, ast.Name) and len(cinit.args.args) > 1 and n.value.id == cinit.args.args[1].arg]
    col.check(bool(pstore), "R12.2", f"{NAMES}::Context.__init__ keeps its parent", "parent table is stored", "the parent table is not stored: the chain is cut", NAMES, cinit)
    pfield = pstore[0].targets[0].attr if pstore else "__parent"
    okadd = False
    for evs, status in paths(add.body):
        cs = [last_attr(c) for c in calls_on_path(evs)]
        conds = [(" ".join(unparse(e.node).split()), e.val) for e in evs if e.kind == "cond"]
        inserts = any(e.kind == "stmt" and isinstance(e.node, ast.Assign) and isinstance(e.node.targets[0], ast.Subscript) for e in evs)
        if inserts:
            okadd = "Get" in cs and any("is None" in t and v or "is not None" in t and not v for t, v in conds)
            if not okadd:
                break
    rej = [1 for evs, status in paths(add.body) if status == "raise" and "Get" in [last_attr(c) for c in calls_on_path(evs)]]
    col.check(okadd and bool(rej), "R12.2", f"{NAMES}::Context.Add", "inserts only when Get(name) found nothing, otherwise raises",
              "a name is inserted without (or regardless of) a lookup along the chain, or a hit does not raise", NAMES, add)
    gname = add.args.args[1].arg
    getcalls = [c for c in ast.walk(add) if isinstance(c, ast.Call) and last_attr(c) == "Get"]
    col.check(bool(getcalls) and all(unparse(c.args[0]) == gname and isinstance(c.func.value, ast.Name) and c.func.value.id == "self" for c in getcalls), "R12.2",
              f"{NAMES}::Context.Add looks up its own name from the innermost table", "self.Get(name)", f"looks up {[unparse(c) for c in getcalls]}", NAMES, add)
    rec = [c for c in ast.walk(get) if isinstance(c, ast.Call) and last_attr(c) == "Get" and isinstance(c.func.value, ast.Attribute) and c.func.value.attr == pfield]
    own = [n for n in ast.walk(get) if isinstance(n, ast.Compare) and isinstance(n.ops[0], ast.In)]
    col.check(bool(rec) and bool(own) and unparse(rec[0].args[0]) == get.args.args[1].arg, "R12.2", f"{NAMES}::Context.Get walks the chain",
              "looks in its own table, then delegates to the parent until there is none", "does not look the name up in the own table and then in every enclosing table", NAMES, get)
    # parameters before body
    vf = vv.own_method("v_Function")
    if vf is not None:
        from ..sem import expand_helpers as _xh122

        vf = _xh122(model, vv, vf)  # e.g. an extracted `__DeclareArguments(func, ctx)` is read in place
    for evs, status in paths(vf.body):
        cs = calls_on_path(evs)
        names = [last_attr(c) for c in cs]
        if "v_Visit" in names or "AcceptVisitor" in names:
            iv = min(i for i, n in enumerate(names) if n in ("v_Visit", "AcceptVisitor"))
            adds = [i for i, n in enumerate(names) if n == "Add"]
            loops = [e for e in evs if e.kind == "loop" and e.val == 1]
            if loops:
                col.check(bool(adds) and max(adds) < iv, "R12.2", f"{NAMES}::v_Function parameters first",
                          "every parameter is added to the function's table before the body is visited",
                          "parameters are not all added before the body is visited: a local may reuse a parameter name", NAMES, vf)
    floops = [n for n in ast.walk(vf) if isinstance(n, ast.For)]
    col.check(any("GetArguments" in unparse(l.iter) and not any(w in unparse(l.iter) for w in ("[", "reversed")) for l in floops), "R12.2",
              f"{NAMES}::v_Function adds all parameters", "iterates func.GetArguments()", "does not iterate all of func.GetArguments()", NAMES, vf)
    mod = model.cls(ASTF, "Module")
    order = [f for f, g in D.traversed_fields(mod)]
    iv = order.index("_Module__variables") if "_Module__variables" in order else None
    ifn = order.index("_Module__functions") if "_Module__functions" in order else None
    col.check(iv is not None and ifn is not None and iv < ifn, "R12.2", f"{ASTF}::Module._Traverse visits globals before functions",
              f"traversal order {order}", f"traversal order is {order}: a global declared in the module is not yet known when function bodies are checked", ASTF, mod.node)
    gc = vv.own_method("GetContext")
    col.check(any(isinstance(r.value, ast.Attribute) for r in ast.walk(gc) if isinstance(r, ast.Return)), "R12.2", f"{NAMES}::GetContext root table",
              "the root table is the visitor's own Context", None, NAMES, gc)
    # ---- R12.3 -------------------------------------------------------------
    vd = model.cls(ASTF, "VariableDeclaration")
    k = D.resolve(vv, vd)
    col.check(k[0] == "explicit" and k[2].name == "v_VariableDeclaration", "R12.3", f"{NAMES}::handler for VariableDeclaration",
              "declarations resolve to v_VariableDeclaration", "VariableDeclaration has no handler in the validator: no declaration is ever checked", NAMES, vv.node)
    if k[0] == "explicit":
        h = k[2]
        adds = [c for c in ast.walk(h) if isinstance(c, ast.Call) and last_attr(c) == "Add"]
        good = bool(adds) and isinstance(adds[0].func.value, ast.Name) and adds[0].func.value.id == h.args.args[2].arg and "GetName" in unparse(adds[0].args[0])
        uncond = all(status != "fall" or any(last_attr(c) == "Add" for c in calls_on_path(evs)) for evs, status in paths(h.body))
        col.check(good and uncond, "R12.3", f"{NAMES}::v_VariableDeclaration adds the name", "ctx.Add(decl.GetName(), ...) on every path",
                  "the declaration's name is not added to the current table on every path", NAMES, h)
    holders = can_contain(G, {"var_decl"})
    n = field_coverage(model, G, D, holders | {"var_decl"}, col, "R12.3", "a variable declaration")
    col.floor("R12.3", "fields that can hold a declaration", n, 8)
    # ---- R12.4 -------------------------------------------------------------
    pipe.check_validator(col, "R12.4", "ValidateVariableNames")
    # the validator looks at every function and every statement: no handler returns before its traversal on a guess about
    # what lies below (= R13.5), and every statement of a block reaches the tree at all (= R11.6, list productions)
    from .c13 import validator_early_exits as _vee

    early = _vee(vv)
    col.check(not early, "R12.4", f"{NAMES}::{vv.name} looks at everything", "no handler returns before its traversal calls except on the absence / kind of a child",
              (f"{early[0][0].name} returns under `{' '.join(unparse(early[0][2]).split())[:70]}` before it has visited its node's children" if early else "")
              + ": declarations below that node are never compared with the visible names", NAMES, early[0][1] if early else vv.node)
    from . import c11 as _c11
    from ..report import Collector as _C124

    sub = _C124("C11")
    _c11.run(model, sub, "quick")
    n116 = 0
    for ob in sub.obligations:
        if ob.rule == "R11.6":
            ob.detail = "[R11.6] " + (ob.detail or "")
            ob.rule = "R12.4"
            col.obligations.append(ob)
            n116 += 1
    col.floor("R12.4", "list-production obligations shared with C11", n116, 3)
    pipe.makepass_process(col, "R12.4")
    pipe.check_gating(col, "R12.4")
    pipe.check_pass_freshness(col, "R12.4", ["ValidateVariableNames", "ComputeTypes"])
    lctx = model.cls(LOWER, "LowerToIRVisitor.Context")
    oef = lctx.own_method("OnEnterFunction")
    cm = [n for n in ast.walk(oef) if isinstance(n, ast.Assign) and isinstance(n.value, ast.Call) and last_attr(n.value) == "ChainMap"]
    if not cm:
        col.bad("R12.4", f"{LOWER}::Context.OnEnterFunction name map", "the per-function name map is no longer a ChainMap of (globals, args, locals); not modelled", LOWER, oef)
    else:
        members = [a.attr for a in cm[0].value.args if isinstance(a, ast.Attribute)]
        mapfield = cm[0].targets[0].attr
        fresh = {}
        for st in oef.body:
            if st is cm[0]:
                break
            if isinstance(st, ast.Assign) and isinstance(st.targets[0], ast.Attribute) and isinstance(st.value, (ast.Dict, ast.Call, ast.DictComp)):
                fresh[st.targets[0].attr] = st.value
        locals_field = members[-1] if members else None
        col.check(len(members) == 3 and members[1] in fresh and members[2] in fresh, "R12.4", f"{LOWER}::Context.OnEnterFunction fresh maps",
                  f"argument and local name maps ({members[1:]}) are re-created for every function before the lookup map is built",
                  f"the lookup map is ChainMap({members}) but only {sorted(fresh)} are re-created per function: names of one function leak into the next", LOWER, oef)
        reg = lctx.own_method("RegisterFunctionLocalVariable")
        st = [n for n in ast.walk(reg) if isinstance(n, ast.Assign) and isinstance(n.targets[0], ast.Subscript) and isinstance(n.targets[0].value, ast.Attribute)]
        tgt = st[0].targets[0].value.attr if st else None
        col.check(tgt == locals_field, "R12.4", f"{LOWER}::Context.RegisterFunctionLocalVariable",
                  f"a local is registered in the per-function locals map `{locals_field}`",
                  f"a local is registered in `{tgt}`, not in the per-function locals map `{locals_field}`"
                  + (" (writes to a ChainMap land in its first member, the module-wide globals map: the entry survives into later functions and outranks their parameters)" if tgt == mapfield else ""), LOWER, reg)
        val = unparse(st[0].value) if st else ""
        col.check("FUNCTION_LOCAL" in val, "R12.4", f"{LOWER}::Context.RegisterFunctionLocalVariable scope", "registers scope FUNCTION_LOCAL", f"registers {val}", LOWER, reg)
        look = lctx.own_method("LookupVariableScope")
        rets = [unparse(r.value) for r in ast.walk(look) if isinstance(r, ast.Return)]
        if rets != [f"self.{mapfield}[{look.args.args[1].arg}]"]:
            # a memo in front of the lookup, invalidated wherever one of the maps changes, returns what the lookup returns
            from ..memo import sound_method_memo as _smm

            e_ = _smm(lctx, look)
            if e_ is not None:
                rets = [unparse(e_)]
        col.check(rets == [f"self.{mapfield}[{look.args.args[1].arg}]"], "R12.4", f"{LOWER}::Context.LookupVariableScope",
                  "resolves a name through the one per-function map", f"returns {rets}", LOWER, look)
        from ..sem import local_env as _le12, rtext as _rt12

        oef_env = _le12(oef)
        argloop = [(it, body) for it, tgt, body, kind in iterations(oef)]
        col.check(any("Arguments" in unparse(it) and any("FUNCTION_ARGUMENT" in _rt12(b, oef_env) for b in body) for it, body in argloop), "R12.4", f"{LOWER}::Context.OnEnterFunction registers parameters",
                  "every parameter is registered as FUNCTION_ARGUMENT", None, LOWER, oef)
    oem = lctx.own_method("OnEnterModule")
    col.check("GLOBAL" in unparse(oem) and "GetDeclarations" in unparse(oem), "R12.4", f"{LOWER}::Context.OnEnterModule registers globals",
              "every global declaration is registered as GLOBAL", None, LOWER, oem)
    lv = model.cls(LOWER, "LowerToIRVisitor")
    vdl = lv.own_method("v_VariableDeclaration")
    regc = [c for c in ast.walk(vdl) if isinstance(c, ast.Call) and last_attr(c) == "RegisterFunctionLocalVariable"]
    col.check(bool(regc) and "GetName" in unparse(regc[0].args[0]) and vdl.body.index(next(s for s in vdl.body if regc[0] in ast.walk(s))) == 0, "R12.4",
              f"{LOWER}::v_VariableDeclaration registers the local first", "the local's name is registered before anything is emitted", None, LOWER, vdl)
    pe = lv.own_method("v_PrimaryExpression")
    col.check("LookupVariableScope(expr.GetName())" in unparse(pe).replace(" ", "").replace("\n", "") or "LookupVariableScope" in unparse(pe), "R12.4",
              f"{LOWER}::v_PrimaryExpression resolves by name", "scope comes from LookupVariableScope(name)", None, LOWER, pe)
    vm = VMModel(model)
    nv = vm.arm("NEW_VARIABLE")
    col.check(any("instruction.Name" in unparse(s) for s in nv.body), "R12.4", f"{VM}::NEW_VARIABLE binds by name", "localScope[instruction.Name] = ...", None, VM, nv.case)
    # a declaration that re-uses the name of a variable of a finished sibling scope is a new variable: fresh instance, fresh name table
    from . import c01 as _c01
    from .. import lowering as _lowering

    _c01.check_new_variable_fresh(col, vm, "R12.4")
    _lowering.check_scope_tables(model, col, "R12.4")
    # with optimisation on, a read is only replaced by the value of the store *directly* before it (= R02.7): stepping over a
    # declaration would carry the value of a finished sibling scope's variable into a new variable of the same name
    from ..report import Collector as _C127
    from . import c02 as _c02_12

    sub127 = _C127("C02")
    _c02_12.run(model, sub127, "quick")
    n127 = 0
    for ob in sub127.obligations:
        if ob.rule == "R02.7":
            ob.detail = "[R02.7] " + (ob.detail or "")
            ob.rule = "R12.4"
            col.obligations.append(ob)
            n127 += 1
    col.floor("R12.4", "forwarding obligations shared with C02", n127, 3)
    # ... and every execution of a declaration creates it: the declare instruction is emitted on every path (= R01.4)
    from ..report import Collector as _C124

    sub124 = _C124("C01")
    _c01.run_R01_4(model, sub124, vm)
    n124 = 0
    for ob in sub124.obligations:
        if "v_VariableDeclaration path" in ob.construct:
            ob.rule = "R12.4"
            col.obligations.append(ob)
            n124 += 1
    col.floor("R12.4", "declaration paths shared with C01", n124, 2)
    # a name is resolved in the scope it is used in: nothing in the type pass remembers a resolution under a key that leaves
    # the scope out (memo-key completeness, nslsa/memo.py)
    from .. import memo as _memo12

    _memo12.check_file(model, col, "R12.4", "nsl/passes/ComputeTypes.py")
    _memo12.check_file(model, col, "R12.4", "nsl/types.py")
    # a block is the scope of exactly the statements written in it: the grammar action hands the parsed statement list to
    # the CompoundStatement as it is (splicing nested blocks into their parent would move their declarations outwards)
    from ..astcover import built_classes as _built12
    from ..dispatch import Dispatch as _D12
    from ..grammar import Grammar as _G12
    from .c08 import p_index as _pidx12

    G12 = _G12(model)
    sites12 = _built12(model, G12, _D12(model)).get("CompoundStatement", [])
    col.floor("R12.4", "grammar actions building a CompoundStatement", len(sites12), 1)
    for P, c, pname in sites12:
        a0 = c.args[0] if c.args else None
        if isinstance(a0, ast.Name):
            # a local bound once to p[i] (and not touched otherwise) stands for it
            binds = [s.value for s in ast.walk(P.func) if isinstance(s, ast.Assign) and len(s.targets) == 1 and isinstance(s.targets[0], ast.Name) and s.targets[0].id == a0.id]
            touched = [x for x in ast.walk(P.func) if isinstance(x, ast.Call) and isinstance(x.func, ast.Attribute) and isinstance(x.func.value, ast.Name) and x.func.value.id == a0.id]
            a0 = binds[0] if len(binds) == 1 and not touched else a0
        i = _pidx12(a0, pname) if a0 is not None else None
        col.check(i is not None, "R12.4", f"nsl/parser.py::{P.func.name} block contents", f"CompoundStatement(p[{i}]): the parsed statement list itself",
                  f"`{' '.join(unparse(c).split())[:70]}` builds the block from a computed list instead of the parsed statement list: statements (and declarations) of nested blocks "
                  "can end up in the enclosing block, where their names stay visible after the inner block ended", "nsl/parser.py", c)
    for opc in ("LOAD", "STORE"):
        arm = vm.arm(opc)
        t = unparse(ast.Module(body=arm.body, type_ignores=[]))
        col.check("FUNCTION_LOCAL" in t and "localScope[instruction.Variable]" in t, "R12.4", f"{VM}::{opc} FUNCTION_LOCAL by name",
                  "locals are addressed by name in the activation's map", f"the {opc} arm does not address locals as localScope[instruction.Variable]", VM, arm.case)
    # ---- R12.5 -------------------------------------------------------------
    for cname, (m, pushes) in sorted(typ_scope.items()):
        ctxn = m.args.args[2].arg
        for evs, status in paths(m.body):
            if status == "raise":
                continue
            seq = []
            for c in calls_on_path(evs):
                la = last_attr(c)
                if la == "append" and isinstance(c.func.value, ast.Name) and c.func.value.id == ctxn:
                    seq.append("push")
                elif la == "pop" and isinstance(c.func.value, ast.Name) and c.func.value.id == ctxn:
                    seq.append("pop")
                elif la in ("AcceptVisitor", "v_Visit", "v_Generic"):
                    seq.append("visit")
            good = seq.count("push") == seq.count("pop") == 1 and seq and seq[0] == "push" and seq[-1] == "pop" and "visit" in seq
            col.check(good, "R12.5", f"{CT}::v_{cname} scope pairing", f"push, visit, pop ({seq})",
                      f"typing scope pairing on a path is {seq}; expected push ... visit ... pop"
                      + (": the scope is never popped, every enclosing construct then pops the wrong scope and names stay visible after their block" if seq.count("pop") < seq.count("push") else ""), CT, m)
        nodep = m.args.args[1].arg
        byp = [c for c in ast.walk(m) if isinstance(c, ast.Call) and last_attr(c) == "AcceptVisitor" and not (isinstance(c.func.value, ast.Name) and c.func.value.id == nodep)]
        col.check(not byp, "R12.5", f"{CT}::v_{cname} visits children through their own handlers", "children are dispatched (node.AcceptVisitor / v_Visit), so a nested block opens its own scope",
                  f"`{unparse(byp[0])[:60] if byp else ''}` traverses the children of a child directly, bypassing that child's handler: a block inside does not get its own typing scope and its "
                  "declarations stay visible in the enclosing construct (e.g. in a do-while condition)", CT, byp[0] if byp else m)
        for c, a in pushes:
            par = unparse(a.args[0]) if a.args else None
            col.check(par == f"{ctxn}[-1]", "R12.5", f"{CT}::v_{cname} scope parent", "the new scope's parent is the innermost scope ctx[-1]",
                      f"the new scope's parent is {par}", CT, m)
    vdt = ctv.own_method("v_VariableDeclaration")
    from ..sem import local_env as _le125, rtext as _rt125

    regs = [c for c in ast.walk(vdt) if isinstance(c, ast.Call) and last_attr(c) == "RegisterVariable"]
    env125 = _le125(vdt)
    ctxp125 = vdt.args.args[2].arg
    col.check(bool(regs) and all(isinstance(c.func, ast.Attribute) and _rt125(c.func.value, env125) == f"{ctxp125}[-1]" for c in regs), "R12.5", f"{CT}::v_VariableDeclaration registers in the innermost scope",
              "scope = ctx[-1]; scope.RegisterVariable(name, type)", "the declaration is not registered in the innermost typing scope", CT, vdt)
    gft = model.cls(TYPES, "Scope").own_method("GetFieldType")
    col.check("self.__parent.GetFieldType" in unparse(gft) and "UnknownSymbolException" in unparse(gft), "R12.5", f"{TYPES}::Scope.GetFieldType walks outward",
              "own symbols first, then the parent scope, unknown names raise", "name lookup does not walk own scope -> parent -> error", TYPES, gft)
    rvm = model.cls(TYPES, "Scope").own_method("RegisterVariable")
    from ..sem import alpha as _alpha125

    col.check("self.__symbols[p0] = p1" in _alpha125(rvm), "R12.5", f"{TYPES}::Scope.RegisterVariable", "stores the symbol in the scope's own table", None, TYPES, rvm)
