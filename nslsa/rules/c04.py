"""C04 Vectors and matrices are values: component ops, swizzles, copies."""
from __future__ import annotations

import ast

from .. import oracles
from ..kindflow import KINDS, KNAME, arm_signature, lowering_outcomes, typing_outcomes, vector_mapping_tables
from ..model import AnalysisError, AnchorMissing, EnumRef, dotted, find_assign, last_attr, unparse
from ..paths import paths, calls_on_path, cond_atoms
from ..vmmodel import VMModel, VM, IR
from . import c01, c03, c15

TITLE = "vector/matrix values: swizzle alphabets and shuffle roles, element write-back, vector operator chain, kind coverage, aliasing, representation"
LEVEL = "other"
LOWER = "nsl/passes/LowerToIR.py"
CT = "nsl/passes/ComputeTypes.py"
EXPLANATION = (
    "R04.1 the three swizzle letter tables are the relation x/r=0..w/a=3; R04.2 shuffle roles: a swizzle read shuffles the value "
    "with itself using the mask letters in order, a swizzle write takes (old value, assigned value), starts from the identity "
    "over the old value's size, maps component i of the mask to size(old)+i, produces a value of the vector's type and is "
    "stored back through the parent inside BeginAssignment/EndAssignment; the VM concatenates first+second and indexes it; "
    "R04.3 element/row writes set the store on the access instruction, store that instruction back through the parent, and "
    "the *_SET arms write into a copy (= R03.3); R04.4 the vector operator chain: vector mapping rows and VECTOR_* arms apply "
    "the right operator component-wise in (left, right) order with 0/1 comparisons, *_SCALAR arms iterate the vector; R04.5 "
    "kind coverage: every (operator, left kind, right kind) the typing rules accept (kind-level abstract interpretation) is "
    "lowered to an opcode whose VM arm consumes those operand kinds; R04.6 default instances are unaliased (= R15.4); R04.7 "
    "constructor flattening; R04.8 the representation an arm produces matches the kind of the instruction's type."
)
NOT_DECIDED = "numeric component results; every mask's index arithmetic beyond the role checks"
ASSUMPTIONS = ["vector sizes 2..4 (spellable types): a vector's shape (n,1) never matches the inner dimension 1 of another vector"]


def check_swizzle_flag(model, col, rule):
    """Typing and lowering agree on what is a swizzle: wherever the type pass types a member access with ComputeSwizzleType
    it marks that node `SetSwizzle(True)` (lowering reads the mark to choose between a shuffle and a field load), and on no
    other path."""
    from ..sem import expand_helpers

    ctv = model.cls(CT, "ComputeTypeVisitor")
    pe0 = ctv.own_method("_ProcessExpression")
    if pe0 is None:
        raise AnchorMissing(f"{CT}::_ProcessExpression")
    pe = expand_helpers(model, ctv, pe0)
    ep = pe.args.args[1].arg
    n = 0
    bad = None
    for evs, status in paths(pe.body):
        cs = calls_on_path(evs)
        typed = [c for c in cs if last_attr(c) == "ComputeSwizzleType"]
        marks = [c for c in cs if last_attr(c) == "SetSwizzle" and isinstance(c.func, ast.Attribute) and unparse(c.func.value) == ep]
        true_marks = [c for c in marks if len(c.args) == 1 and isinstance(c.args[0], ast.Constant) and c.args[0].value is True]
        if typed:
            n += 1
            if not true_marks or len(true_marks) != len(marks):
                bad = bad or (typed[0], f"typed as a swizzle but marked {[unparse(c) for c in marks] or 'not at all'}")
        elif marks and any(not (isinstance(c.args[0], ast.Constant) and c.args[0].value is False) for c in marks if c.args):
            bad = bad or (marks[0], f"`{unparse(marks[0])}` on a path that does not type the access as a swizzle")
    col.floor(rule, "paths typing a swizzle", n, 1)
    col.check(bad is None, rule, f"{CT}::_ProcessExpression marks what it types as a swizzle", "ComputeSwizzleType(..) and SetSwizzle(True) on the same paths",
              (bad[1] if bad else "") + ": lowering chooses between shuffle and field load by that mark, so a swizzle of a scalar (`s.xxx`) or of a vector is loaded as a structure "
              "member and the VM indexes a number", CT, bad[0] if bad else pe0)


def _construct_loops(stmts):
    """Classify every loop over `<instr>.Values` in the CONSTRUCT_PRIMITIVE arm:
    'flatten' (list elements extend the accumulator, others are appended),
    'rows' (each element value is appended), 'other'."""
    kinds = []
    for n in ast.walk(ast.Module(body=stmts, type_ignores=[])):
        if not (isinstance(n, ast.For) and unparse(n.iter).endswith(".Values")):
            continue
        tv = unparse(n.target)
        elem_txt = f"localScope[{tv}.Reference]"
        names = {t.id for s in n.body if isinstance(s, ast.Assign) and unparse(s.value) == elem_txt for t in s.targets if isinstance(t, ast.Name)}

        def is_elem(e):
            return (isinstance(e, ast.Name) and e.id in names) or unparse(e) == elem_txt

        def appends(ss):
            return any(isinstance(c, ast.Call) and last_attr(c) == "append" and len(c.args) == 1 and is_elem(c.args[0]) for s in ss for c in ast.walk(s))

        def extends(ss):
            return any((isinstance(c, ast.Call) and last_attr(c) == "extend" and len(c.args) == 1 and is_elem(c.args[0])) or
                       (isinstance(c, ast.AugAssign) and isinstance(c.op, ast.Add) and is_elem(c.value)) for s in ss for c in ast.walk(s))

        if any(isinstance(x, (ast.Continue, ast.Break)) for x in ast.walk(n)):
            kinds.append("other")
            continue
        ifs = [s for s in n.body if isinstance(s, ast.If) and isinstance(s.test, ast.Call) and last_attr(s.test) == "isinstance" and len(s.test.args) == 2
               and is_elem(s.test.args[0]) and unparse(s.test.args[1]) == "list"]
        if ifs:
            kinds.append("flatten" if extends(ifs[0].body) and appends(ifs[0].orelse) and not appends(ifs[0].body) else "other")
        else:
            top = [s for s in n.body if not isinstance(s, (ast.If, ast.For, ast.While))]
            kinds.append("rows" if appends(top) else "other")
    return kinds


def method_calls(cls):
    """{`self.m` / `Cls.m`: folding function} for the methods of cls, for use as the `calls` table of miniev (small pure
    helpers are folded on their literal arguments; anything else raises CannotEval)."""
    from ..miniev import run_pure

    calls = {}
    for name, m in cls.methods.items():
        static = any(unparse(d) == "staticmethod" for d in m.decorator_list)

        def mk(m=m, static=static):
            return lambda *a: run_pure(m, list(a) if static else [None] + list(a), calls)

        calls[f"self.{name}"] = mk()
        calls[f"{cls.name}.{name}"] = mk()
    return calls


def _fold_shuffle(vm, arm):
    """[] if the SHUFFLE arm stores the reference result for every sample, a list of counter-examples if not, None if the
    arm cannot be folded."""
    from ..miniev import CannotEval, run_block

    calls = method_calls(vm.ec)
    bad = []
    samples = [([10, 11, 12], [20, 21], [0, 3, 4, 2], False), ([10, 11, 12], [20, 21], [4], True), ([10, 11], 7, [2, 0, 1], False), (5, [20, 21, 22], [0, 3], False),
               (5, 6, [1, 0], False), (5, 6, [1], True), ([1, 2, 3, 4], [5, 6, 7, 8], [7, 6, 5, 4], False), ([1, 2, 3, 4], [5, 6, 7, 8], [0], True),
               ([10, 11, 12], [20, 21, 22], [3, 4, 5], False), ([10, 11, 12], 9, [3], True), ([10, 11], [20], [1, 1, 2, 0], False), (3, [4, 5], [2, 2], False)]
    # (both operands can be one and the same value: `v.xy = v.yx`, a swizzle of a value with itself)
    samples += [([1, 2, 3], "same", [0, 3, 5, 1], False), ([7, 8], "same", [3], True), (4, "same", [1, 0], False)]
    for first, second, idx, scalar in samples:
        same = isinstance(second, str)
        second = first if same else second
        scope = {"F": first if not isinstance(first, list) else list(first)}
        scope["S"] = scope["F"] if same else (second if not isinstance(second, list) else list(second))
        env = {"instruction.First.Reference": "F", "instruction.Second.Reference": "F" if same else "S", "instruction.Indices": list(idx), "instruction.Type.IsScalar()": scalar,
               "instruction.Reference": "R", "ref": "R", "indices": list(idx)}
        scope_names = set()
        for n in ast.walk(ast.Module(body=arm.body, type_ignores=[])):
            if isinstance(n, ast.Subscript) and isinstance(n.value, ast.Name) and isinstance(n.ctx, ast.Store):
                scope_names.add(n.value.id)
        if len(scope_names) != 1:
            return None
        env[next(iter(scope_names))] = scope
        try:
            run_block(arm.body, env, calls)
        except CannotEval:
            return None
        except Exception:
            return None
        cat = (first if isinstance(first, list) else [first]) + (second if isinstance(second, list) else [second])
        want = [cat[i] for i in idx]
        want = want[0] if scalar else want
        if scope.get("R", "<nothing>") != want:
            bad.append(f"first={first}, second={second}, indices={idx}: stores {scope.get('R', '<nothing>')}, expected {want}")
    return bad


def run(model, col, tier):
    vm = VMModel(model)
    lv = model.cls(LOWER, "LowerToIRVisitor")
    # ---------------- R04.1 ------------------------------------------------------
    tables = {}
    pm = model.func(CT, "ParseSwizzleMask")
    for n in ast.walk(pm):
        if isinstance(n, ast.Dict):
            tables[f"{CT}::ParseSwizzleMask.mapping"] = (model.fold(n), CT, pm)
    vma = lv.own_method("v_MemberAccessExpression")
    for n in ast.walk(vma):
        if isinstance(n, ast.Dict) and len(n.keys) >= 4:
            tables[f"{LOWER}::swizzleComponentToIndex"] = (model.fold(n), LOWER, vma)
    col.floor("R04.1", "swizzle letter tables", len(tables), 2)
    for name, (t, rel, node) in tables.items():
        col.check(t == oracles.SWIZZLE, "R04.1", name, "x/r=0, y/g=1, z/b=2, w/a=3", f"letter table is {t}", rel, node)
    cst = model.func(CT, "ComputeSwizzleType")
    from ..sem import local_env as _le41, rtext as _rt41

    tp_, mp_ = (a.arg for a in cst.args.args[:2])
    env41 = _le41(cst)
    one = many = False
    wrong41 = []
    for evs_, st_ in paths(cst.body):
        if st_ != "return":
            continue
        at_ = cond_atoms(evs_, env41)
        single = at_.get(f"len({mp_}) == 1")
        rt_ = _rt41(evs_[-1].node.value, env41)
        if single is True and rt_ == f"{tp_}.GetComponentType()":
            one = True
        elif single is False and rt_.replace("types.", "") == f"VectorType({tp_}.GetComponentType(), len({mp_}))":
            many = True
        else:
            wrong41.append(f"[{'one letter' if single else 'several letters' if single is False else 'unconditionally'}] -> {rt_}")
    col.check(one and many and not wrong41, "R04.1",
              f"{CT}::ComputeSwizzleType", "one letter -> component type, n letters -> vector of n components", "the swizzle's type is not (component type | vector of len(mask))", CT, cst)
    # which masks are swizzles at all: the validator rejects exactly unknown letters, missing components and mixed families
    # (= R13.4, the fold over sample masks): a mask may repeat components and be longer than its source
    from . import c13 as _c13_41
    from ..report import Collector

    sub41 = Collector("C13")
    _c13_41.run(model, sub41, "quick")
    n41 = 0
    for ob in sub41.obligations:
        if ob.rule == "R13.4" and "ValidateSwizzleMask" in ob.construct:
            ob.detail = "[R13.4] " + (ob.detail or "")
            ob.rule = "R04.1"
            col.obligations.append(ob)
            n41 += 1
    col.floor("R04.1", "mask-validator obligations shared with C13", n41, 3)
    # ---------------- R04.2 ------------------------------------------------------
    # all comparisons are made on expressions with the handler's single-assignment locals inlined, so that the rule does not
    # depend on what the locals are called; VAL is "the lowered parent", MASK "the member's name"
    from ..sem import local_env as _le42, rtext as _rt42

    np42, cx42 = vma.args.args[1].arg, vma.args.args[2].arg
    self42 = vma.args.args[0].arg
    env42 = _le42(vma, allow_impure=True)
    VAL = f"{self42}.v_Visit({np42}.GetParent(), {cx42})"
    MASK = f"{np42}.GetMember().GetName()"

    def _is_table(e):
        r_ = e
        if isinstance(e, ast.Name) and e.id in env42:
            r_ = env42[e.id]
        return isinstance(r_, ast.Dict) and any(isinstance(k, ast.Constant) and k.value == "x" for k in r_.keys)

    nread = nwrite = 0
    for evs, status in paths(vma.body):
        if status != "return":
            continue
        atoms = cond_atoms(evs)
        if atoms.get(f"{np42}.isSwizzle") is not True:
            continue
        sh = [c for c in calls_on_path(evs) if last_attr(c) == "ShuffleInstruction"]
        if not sh:
            # a swizzle is lowered by a shuffle on every path: a shortcut that stores / loads the value as it is ignores the
            # order of the mask letters (`v.zyx = e` is not `v = e`)
            col.bad("R04.2", f"{LOWER}::v_MemberAccessExpression every swizzle path shuffles",
                    f"a returning path for a swizzle ({'store' if atoms.get(f'{cx42}.InAssignment') is True else 'load'}, under {[(k[:50], v) for k, v in atoms.items() if 'isSwizzle' not in k][:3]}) "
                    "builds no ShuffleInstruction: the components are taken in storage order instead of mask order", LOWER, vma)
            continue
        c = sh[0]
        args = [_rt42(a, env42) for a in c.args]
        idxn = unparse(c.args[3]) if len(c.args) == 4 else None
        loops = [e.node for e in evs if e.kind == "loop" and e.val == 1 and isinstance(e.node, ast.For)]
        if atoms.get(f"{cx42}.InAssignment") is False:
            nread += 1
            in_order = False
            for l in loops:
                if _rt42(l.iter, env42) != MASK:
                    continue
                lv_ = unparse(l.target)
                for s_ in l.body:
                    for x in ast.walk(s_):
                        if isinstance(x, ast.Call) and last_attr(x) == "append" and unparse(x.func.value) == idxn and x.args and isinstance(x.args[0], ast.Subscript) \
                                and _is_table(x.args[0].value) and unparse(x.args[0].slice) == lv_:
                            in_order = True
            # the same list written as a comprehension over the mask
            for e in evs:
                if e.kind == "stmt" and isinstance(e.node, ast.Assign) and unparse(e.node.targets[0]) == idxn and isinstance(e.node.value, ast.ListComp):
                    lc = e.node.value
                    g = lc.generators[0]
                    if len(lc.generators) == 1 and not g.ifs and _rt42(g.iter, env42) == MASK and isinstance(lc.elt, ast.Subscript) and _is_table(lc.elt.value) \
                            and unparse(lc.elt.slice) == unparse(g.target):
                        in_order = True
            col.check(len(args) == 4 and args[1] == args[2] == VAL and f"{np42}.GetType()" in args[0], "R04.2", f"{LOWER}::v_MemberAccessExpression swizzle read operands",
                      "ShuffleInstruction(type of the swizzle, value, value, indices)", f"read shuffle is built as {args}", LOWER, c)
            col.check(in_order or any(e.kind == "loop" and e.val == 0 for e in evs), "R04.2", f"{LOWER}::v_MemberAccessExpression swizzle read indices",
                      "indices are the mask letters' component numbers in mask order", "read indices are not the mask's letters in order", LOWER, vma)
        elif atoms.get(f"{cx42}.InAssignment") is True:
            nwrite += 1
            good = len(args) == 4 and args[1] == VAL and args[2] == f"{cx42}.AssignmentValue"
            col.check(good, "R04.2", f"{LOWER}::v_MemberAccessExpression swizzle write operands", "ShuffleInstruction(.., old value, assigned value, indices)",
                      f"write shuffle is built as {args}; expected (old value, assigned value, indices)", LOWER, c)
            col.check(args[0] == f"{VAL}.Type", "R04.2", f"{LOWER}::v_MemberAccessExpression swizzle write type", "the shuffle produces a value of the whole vector's type",
                      f"the write shuffle is typed `{args[0]}`; it produces the complete vector (old value with components replaced), so its type is the vector's", LOWER, c)
            ind = [_rt42(v, env42) for e in evs if e.kind == "stmt" and isinstance(e.node, ast.Assign) and unparse(e.node.targets[0]) == idxn for v in [e.node.value]]
            col.check(ind == [f"list(range({VAL}.Type.Size))"], "R04.2",
                      f"{LOWER}::v_MemberAccessExpression swizzle write identity", "indices start as the identity over the old value's size",
                      f"the write shuffle's base indices are {ind}, not the identity over the size of the first operand", LOWER, vma)
            ok_loop = False
            for l in loops:
                it_txt = _rt42(l.iter, env42)
                started = it_txt in (f"enumerate({MASK}, start={VAL}.Type.Size)", f"enumerate({MASK}, {VAL}.Type.Size)")  # the counter already starts at size(old)
                if (it_txt != f"enumerate({MASK})" and not started) or not (isinstance(l.target, ast.Tuple) and len(l.target.elts) == 2):
                    continue
                i_, c_ = (unparse(e_) for e_ in l.target.elts)
                for s_ in l.body:
                    if isinstance(s_, ast.Assign) and isinstance(s_.targets[0], ast.Subscript) and unparse(s_.targets[0].value) == idxn:
                        w_ = s_.targets[0].slice
                        if isinstance(w_, ast.Name) and w_.id in env42:
                            w_ = env42[w_.id]
                        r_ = _rt42(s_.value, env42)
                        if isinstance(w_, ast.Subscript) and _is_table(w_.value) and unparse(w_.slice) == c_ and (r_ in (f"{VAL}.Type.Size + {i_}", f"{i_} + {VAL}.Type.Size") or (started and r_ == i_)):
                            ok_loop = True
            if loops:
                col.check(ok_loop, "R04.2", f"{LOWER}::v_MemberAccessExpression swizzle write mapping", "component i of the mask takes element size(old) + i of the concatenation",
                          "mask component i is not mapped to size(first operand) + i", LOWER, vma)
            seq = [last_attr(x) for x in calls_on_path(evs) if last_attr(x) in ("AddInstruction", "BeginAssignment", "v_Visit", "EndAssignment")]
            tail = seq[seq.index("BeginAssignment"):] if "BeginAssignment" in seq else []
            col.check(tail == ["BeginAssignment", "v_Visit", "EndAssignment"], "R04.2", f"{LOWER}::v_MemberAccessExpression swizzle write-back",
                      "the shuffled vector is stored back through the parent (BeginAssignment(si); visit parent; EndAssignment)", f"write-back sequence is {tail}", LOWER, vma)
            ba = [x for x in calls_on_path(evs) if last_attr(x) == "BeginAssignment"]
            shn = next((unparse(e.node.targets[0]) for e in evs if e.kind == "stmt" and isinstance(e.node, ast.Assign) and e.node.value is c), None)
            col.check(bool(ba) and ba[0].args and unparse(ba[0].args[0]) == shn, "R04.2", f"{LOWER}::v_MemberAccessExpression swizzle write-back value", "what is stored back is the shuffle result", None, LOWER, vma)
    col.floor("R04.2", "swizzle read paths", nread, 1)
    col.floor("R04.2", "swizzle write paths", nwrite, 1)
    sh = vm.arm("SHUFFLE")
    s = " ".join(unparse(ast.Module(body=sh.body, type_ignores=[])).split())
    text_ok = "combined = first + second" in s and "[combined[i] for i in indices]" in s and "first = localScope[instruction.First.Reference]" in s and "second = localScope[instruction.Second.Reference]" in s
    # however the arm is spelled (helpers, conditional expressions): folded over sample operands it must store
    # (first ++ second)[indices[k]] for each k, a scalar operand counting as a one-element vector
    folded = _fold_shuffle(vm, sh)
    if folded is None:
        shuffle_ok, how = text_ok, "read as text (the arm could not be folded over samples)"
    else:
        shuffle_ok, how = not folded, "folded over 12 sample operand / index combinations"
    col.check(shuffle_ok, "R04.2", f"{VM}::__Execute SHUFFLE arm", f"result[k] = (first ++ second)[indices[k]]; {how}",
              "the SHUFFLE arm does not index the concatenation first ++ second with the instruction's indices" + (f" (e.g. {folded[0]})" if folded else ""), VM, sh.case)
    # ---------------- R04.3 ------------------------------------------------------
    va = lv.own_method("v_ArrayExpression")
    for kind, cls_ in (("isVector", "VectorAccessInstruction"), ("isMatrix", "MatrixAccessInstruction")):
        seen = False
        cx43 = va.args.args[2].arg
        for evs, status in paths(va.body):
            atoms = cond_atoms(evs)
            cs = calls_on_path(evs)
            # the write path of this kind: the one that builds this kind's access instruction while an assignment is in progress
            if status != "return" or atoms.get(f"{cx43}.InAssignment") is not True or not any(last_attr(c) == cls_ for c in cs):
                continue
            seen = True
            names = [last_attr(c) for c in cs if last_attr(c) in (cls_, "AddInstruction", "SetStore", "BeginAssignment", "v_Visit", "EndAssignment")]
            want = [cls_, "AddInstruction", "SetStore", "BeginAssignment", "v_Visit", "EndAssignment"]
            names_ = [n for n in names if not (n == "v_Visit" and names.index(n) < names.index(cls_))] if cls_ in names else names
            tail = names[names.index(cls_):] if cls_ in names else names
            col.check(tail == want, "R04.3", f"{LOWER}::v_ArrayExpression {cls_[:-17].lower()} element write", "access, SetStore(assigned value), then the access is stored back through the parent",
                      f"write sequence is {tail}; expected {want}", LOWER, va)
            ss = [c for c in cs if last_attr(c) == "SetStore"]
            ba = [c for c in cs if last_attr(c) == "BeginAssignment"]
            vv = [c for c in cs if last_attr(c) == "v_Visit"]
            acc43 = next((unparse(e.node.targets[0]) for e in evs if e.kind == "stmt" and isinstance(e.node, ast.Assign) and isinstance(e.node.value, ast.Call) and last_attr(e.node.value) == cls_), None)
            col.check(bool(ss) and unparse(ss[0].args[0]) == f"{cx43}.AssignmentValue" and unparse(ss[0].func.value) == acc43 and bool(ba) and unparse(ba[0].args[0]) == acc43 and "GetParent" in unparse(vv[-1].args[0]), "R04.3",
                      f"{LOWER}::v_ArrayExpression {cls_[:-17].lower()} write roles", "store = assigned value; stored back = the access instruction; destination = the parent expression", None, LOWER, va)
        col.check(seen, "R04.3", f"{LOWER}::v_ArrayExpression has a {cls_[:-17].lower()} write path", "present", f"no write path for {cls_}", LOWER, va)
    from ..report import Collector

    sub = Collector("C03")
    c03.run(model, sub, "quick", share=False)
    for ob in sub.obligations:
        if ob.rule == "R03.3":
            ob.rule = "R04.3"
            col.obligations.append(ob)
    get = vm.arm("VECTOR_GET")
    s = " ".join(unparse(ast.Module(body=get.body, type_ignores=[])).split())
    from ..sem import rtext as _rt_get

    binds_get = {}
    for st_ in get.body:
        if isinstance(st_, ast.Assign) and len(st_.targets) == 1 and isinstance(st_.targets[0], ast.Name):
            binds_get[st_.targets[0].id] = None if st_.targets[0].id in binds_get else st_.value
    env_get = {k: v for k, v in binds_get.items() if v is not None}
    stored_get = [_rt_get(st_.value, env_get) for st_ in get.body if isinstance(st_, ast.Assign) and isinstance(st_.targets[0], ast.Subscript) and unparse(st_.targets[0].value) == "localScope"]
    col.check("localScope[instruction.Array.Reference][localScope[instruction.Index.Reference]]" in s or
              any(t_ == "localScope[instruction.Array.Reference][localScope[instruction.Index.Reference]]" for t_ in stored_get), "R04.3", f"{VM}::__Execute element read", "value[index]", None, VM, get.case)
    for opc in ("VECTOR_SET", "MATRIX_SET"):
        a = vm.arm(opc)
        s = " ".join(unparse(ast.Module(body=a.body, type_ignores=[])).split())
        col.check("result[localScope[instruction.Index.Reference]] = var" in s and "var = localScope[instruction.Store.Reference]" in s and "localScope[ref] = result" in s, "R04.3", f"{VM}::__Execute {opc} roles",
                  "copy[index] = stored value; the copy is the instruction's result", f"{opc} does not write the stored value at the index of the copy and yield the copy", VM, a.case)
    # ---------------- R04.4 ------------------------------------------------------
    maps, fo = vector_mapping_tables(model)
    vmap = maps.get("vector", {})
    opnames, _ = c01.operand_binding(vm)
    for s_, (member, pyop, kind) in oracles.BINARY_OPERATORS.items():
        opc = vmap.get(member)
        if opc is None:
            continue  # coverage is R04.5
        if opc not in vm.arms:
            col.bad("R04.4", f"vector operator {s_}", f"OpCode.{opc} has no VM arm", VM, vm.main_match)
            continue
        res = c01.arm_result_exprs(vm.arms[opc])
        good = False
        text = unparse(res[0][1]) if res else ""
        if len(res) == 1 and isinstance(res[0][1], ast.ListComp):
            lc = res[0][1]
            g = lc.generators[0]
            zipped = isinstance(g.iter, ast.Call) and dotted(g.iter.func) == "zip" and [unparse(a) for a in g.iter.args] == sorted(opnames, key=lambda k: opnames[k])
            tn = [e.id for e in g.target.elts] if isinstance(g.target, ast.Tuple) else []
            c = c01.classify_value_expr(lc.elt, {tn[0]: 0, tn[1]: 1}) if len(tn) == 2 else None
            want_kind = {"arith": "binop", "div": "binop", "cmp": "compare", "logic": "boolop"}[kind]
            good = zipped and c is not None and c[0] == want_kind and c[1] == pyop and (c[2], c[3]) == (0, 1) and (kind not in ("cmp", "logic") or c[4])
        col.check(good, "R04.4", f"vector operator {s_}: Operation.{member} -> OpCode.{opc} -> VM arm", f"`{text}`",
                  f"arm {opc} computes `{text}`; `{s_}` on two vectors is [x {s_} y for x, y in zip(left, right)]" + (" with 0/1 results" if kind == "cmp" else ""), VM, vm.arms[opc].case)
    for opc, pyop in (("VECTOR_MUL_SCALAR", "Mult"), ("VECTOR_DIV_SCALAR", "Div")):
        res = c01.arm_result_exprs(vm.arm(opc))
        good = False
        text = unparse(res[0][1]) if res else ""
        if len(res) == 1 and isinstance(res[0][1], ast.ListComp):
            lc = res[0][1]
            g = lc.generators[0]
            first = next(k for k, v in opnames.items() if v == 0)
            second = next(k for k, v in opnames.items() if v == 1)
            good = unparse(g.iter) == first and isinstance(lc.elt, ast.BinOp) and type(lc.elt.op).__name__ == pyop and unparse(lc.elt.left) == unparse(g.target) and unparse(lc.elt.right) == second
        col.check(good, "R04.4", f"{VM}::__Execute {opc}", f"`{text}`", f"arm {opc} computes `{text}`; expected [v op scalar for v in vector] with the vector as first operand", VM, vm.arm(opc).case)
    mm = vm.ec.own_method("__MatrixMatrixMultiply")
    # structural: three nested loops i over rows(A), j over columns(B), k over the inner dimension; acc[i][j] += A[i][k] * B[k][j]
    shp, A_, B_ = (a.arg for a in mm.args.args[1:4])
    prod_ok = False
    for l1 in [n for n in mm.body if isinstance(n, ast.For)]:
        l2 = next((n for n in l1.body if isinstance(n, ast.For)), None)
        l3 = next((n for n in l2.body if isinstance(n, ast.For)), None) if l2 is not None else None
        if l3 is None:
            continue
        i_, j_, k_ = unparse(l1.target), unparse(l2.target), unparse(l3.target)
        rng_ok = unparse(l1.iter) == f"range(len({A_}))" and unparse(l2.iter) == f"range(len({B_}[0]))" and unparse(l3.iter) in (f"range(len({A_}[0]))", f"range(len({B_}))")
        for st_ in l3.body:
            if isinstance(st_, ast.AugAssign) and isinstance(st_.op, ast.Add):
                tgt_, val_ = st_.target, st_.value
            elif isinstance(st_, ast.Assign) and isinstance(st_.value, ast.BinOp) and isinstance(st_.value.op, ast.Add) and unparse(st_.value.left) == unparse(st_.targets[0]):
                tgt_, val_ = st_.targets[0], st_.value.right
            else:
                continue
            accn = unparse(tgt_).split("[")[0]
            prod_ok = rng_ok and unparse(tgt_) == f"{accn}[{i_}][{j_}]" and " ".join(unparse(val_).split()) in (f"{A_}[{i_}][{k_}] * {B_}[{k_}][{j_}]", f"{B_}[{k_}][{j_}] * {A_}[{i_}][{k_}]")
    col.check(prod_ok, "R04.4", f"{VM}::__MatrixMatrixMultiply",
              "result[i][j] = sum_k m0[i][k] * m1[k][j]", "the matrix product is not sum_k m0[i][k] * m1[k][j]", VM, mm)
    # the accumulator is a list of row lists each built by its own (inner) comprehension: [[0 for .. in range(cols)] for .. in range(rows)]
    acc_init = [n.value for n in ast.walk(mm) if isinstance(n, ast.Assign) and isinstance(n.value, ast.ListComp) and isinstance(n.value.elt, ast.ListComp)]
    rows_ok = bool(acc_init) and unparse(acc_init[0].generators[0].iter) == f"range({shp}[0])" and unparse(acc_init[0].elt.generators[0].iter) == f"range({shp}[1])" \
        and isinstance(acc_init[0].elt.elt, ast.Constant) and acc_init[0].elt.elt.value == 0
    col.check(rows_ok, "R04.4", f"{VM}::__MatrixMatrixMultiply result rows are distinct lists", "rows are built by a comprehension (no aliasing)", "result rows are aliased", VM, mm)
    # ---------------- R04.5 ------------------------------------------------------
    ops = model.enum_members("nsl/op.py", "Operation")
    comparisons = {n for n in ops if n.startswith("CMP_")}
    ntrip = 0
    accepted = 0
    for s_, (member, pyop, kind) in oracles.BINARY_OPERATORS.items():
        for lk in KINDS:
            for rk in KINDS:
                ntrip += 1
                outs = typing_outcomes(model, member, lk, rk, comparisons)
                for o in outs:
                    if o[0] != "accept":
                        continue
                    res = o[1]
                    if res is None or None in o[2]:
                        # mixed-kind comparison: operand type None; the cast pass asserts (not a silent accept)
                        continue
                    if lk == "M" and rk == "M" and member in comparisons:
                        continue  # comparing two matrices is left undefined by the language (C09)
                    accepted += 1
                    key = f"`{KNAME[lk]} {s_} {KNAME[rk]}`"
                    for opc, opk in lowering_outcomes(model, maps, member, lk, rk, res if res in KINDS else lk):
                        if isinstance(opc, tuple):
                            col.bad("R04.5", f"kind coverage {key}", f"typing accepts {key} (result: {KNAME.get(res, res)}) but lowering cannot translate it: {opc[1]}", IR, fo)
                            continue
                        sig = arm_signature(vm, opc)
                        if sig is None:
                            col.bad("R04.5", f"kind coverage {key}", f"{key} is lowered to OpCode.{opc}, which has no VM arm", VM, vm.main_match)
                        elif list(sig) != opk:
                            col.bad("R04.5", f"kind coverage {key}", f"typing accepts {key}; it is lowered to OpCode.{opc} with operands ({', '.join(KNAME[k] for k in opk)}), "
                                    f"but the VM arm of {opc} consumes ({', '.join(KNAME[k] for k in sig)}): wrong result or a TypeError at run time", LOWER, lv.own_method("v_BinaryExpression"))
                        else:
                            col.ok("R04.5", f"kind coverage {key} -> {opc}", f"arm consumes ({', '.join(KNAME[k] for k in sig)})")
    col.note("R04.5", {"triples": ntrip, "accepted outcomes": accepted})
    col.floor("R04.5", "accepted (operator, kind, kind) outcomes", accepted, 30)
    # ---------------- R04.6 ------------------------------------------------------
    sub = Collector("C15")
    c15.run(model, sub, "quick")
    for ob in sub.obligations:
        if ob.rule == "R15.4" or (ob.rule == "R15.5" and "CreateConstant" in ob.construct):
            # (R15.5: a constant is bound by reference in every activation and every VM of the program, so it must be an immutable
            # scalar - a vector constant is one list object that all its "copies" share)
            ob.rule = "R04.6"
            col.obligations.append(ob)
    # a swizzle read is `shuffle v, v`: both operand slots name the same value and both must follow a rewrite of that value (= R02.1 for the shuffle)
    from . import c02 as _c02

    sub = Collector("C02")
    _c02.run(model, sub, "quick")
    for ob in sub.obligations:
        if ob.rule == "R02.1" and "ShuffleInstruction" in ob.construct:
            ob.rule = "R04.2"
            col.obligations.append(ob)
    # ---------------- R04.7 ------------------------------------------------------
    cp = vm.arm("CONSTRUCT_PRIMITIVE")
    s = " ".join(unparse(ast.Module(body=cp.body, type_ignores=[])).split())
    kinds = _construct_loops(cp.body)
    col.check("flatten" in kinds, "R04.7", f"{VM}::__Execute CONSTRUCT_PRIMITIVE vector",
              "arguments are flattened in order: vectors extend, scalars append", "vector construction does not flatten its arguments in order", VM, cp.case)
    col.check("rows" in kinds and "other" not in kinds, "R04.7", f"{VM}::__Execute CONSTRUCT_PRIMITIVE matrix", "rows are appended in order", None, VM, cp.case)
    vc = lv.own_method("v_ConstructPrimitiveExpression")
    from ..sem import visits_each_in_order

    np_ = vc.args.args[1].arg
    col.check(visits_each_in_order(model, lv, vc, {np_, f"{np_}.GetArguments()", f"{np_}.children"}), "R04.7", f"{LOWER}::v_ConstructPrimitiveExpression argument order",
              "arguments are visited in source order", "constructor arguments are not lowered in source order", LOWER, vc)
    # constructor arguments are converted to the result's component type whenever their component type differs
    from ..sem import local_env as _lenv, rtext as _rtext

    cpv = model.cls("nsl/passes/AddImplicitCasts.py", "AddImplicitCastVisitor").own_method("v_ConstructPrimitiveExpression")
    cenv = _lenv(cpv)
    nodep_ = cpv.args.args[1].arg
    okc = False
    ctext = None
    lst_name = None
    tv_ = "p"
    for lp_ in [n for n in ast.walk(cpv) if isinstance(n, ast.For) and ("GetArguments" in unparse(n.iter) or f"{nodep_}.children" in unparse(n.iter) or unparse(n.iter) == nodep_)]:
        tv_ = unparse(lp_.target)
        eq_keys = (f"{tv_}.GetType().GetComponentType() == {nodep_}.GetType().GetComponentType()", f"{nodep_}.GetType().GetComponentType() == {tv_}.GetType().GetComponentType()")
        okc = True
        seen_cast = seen_keep = False
        for evs_, st_ in paths(lp_.body, loop_iters=(1,)):
            atoms_ = cond_atoms(evs_, cenv)
            eq_ = next((atoms_[k] for k in eq_keys if k in atoms_), None)
            for c_ in calls_on_path(evs_):
                if last_attr(c_) == "append" and c_.args and isinstance(c_.func, ast.Attribute):
                    lst_name = unparse(c_.func.value)
                    a_ = c_.args[0]
                    a_r = a_
                    if isinstance(a_, ast.Name) and a_.id in cenv:
                        a_r = cenv[a_.id]
                    if isinstance(a_r, ast.Call) and last_attr(a_r) == "CastExpression":
                        seen_cast = True
                        if eq_ is not False:
                            okc, ctext = False, f"a cast is inserted although the component types were not found different (path conditions {[(k, v) for k, v in atoms_.items()][:3]})"
                    elif unparse(a_r) == tv_:
                        seen_keep = True
                        if eq_ is not True:
                            okc, ctext = False, f"an argument is kept unconverted although its component type was not found equal to the result's (path conditions {[(k, v) for k, v in atoms_.items()][:3]})"
        okc = okc and seen_cast and seen_keep
        if not (seen_cast and seen_keep) and ctext is None:
            ctext = f"cast inserted: {seen_cast}, unconverted kept: {seen_keep}"
    col.check(okc, "R04.7", "nsl/passes/AddImplicitCasts.py::v_ConstructPrimitiveExpression cast condition",
              "an argument is cast exactly when its component type differs from the result's component type (scalars and vectors alike)",
              f"{ctext}: arguments whose component type differs from the result's are not all converted "
              "(an int vector built from a float sub-vector keeps float components)", "nsl/passes/AddImplicitCasts.py", cpv)
    tgt = [c for c in ast.walk(cpv) if isinstance(c, ast.Call) and last_attr(c) == "_GetTargetType"]
    col.check(bool(tgt) and _rtext(tgt[0].args[0], cenv) == f"{tv_}.GetType()" and _rtext(tgt[0].args[1], cenv) == f"{nodep_}.GetType().GetComponentType()", "R04.7",
              "nsl/passes/AddImplicitCasts.py::v_ConstructPrimitiveExpression cast target", "target = the argument's shape with the result's component type", None, "nsl/passes/AddImplicitCasts.py", cpv)
    setargs = [c for c in ast.walk(cpv) if isinstance(c, ast.Call) and last_attr(c) == "SetArguments"]
    col.check(bool(setargs) and lst_name is not None and unparse(setargs[0].args[0]) == lst_name, "R04.7", "nsl/passes/AddImplicitCasts.py::v_ConstructPrimitiveExpression installs the converted arguments", "node.SetArguments(arguments)", None, "nsl/passes/AddImplicitCasts.py", cpv)
    check_swizzle_flag(model, col, "R04.2")
    # element access `a[i]`: the indexed value is evaluated before the index (source order: an index with a side effect on what
    # the parent reads - `m[i][i++]` - must not run first)
    vae = model.cls(LOWER, "LowerToIRVisitor").own_method("v_ArrayExpression")
    nodep_a = vae.args.args[1].arg
    wrong_order = None
    norder = 0
    for evs, status in paths(vae.body):
        seq_ = []
        for c in calls_on_path(evs):
            if last_attr(c) in ("v_Visit", "v_Generic") and c.args and isinstance(c.args[0], ast.Call) and isinstance(c.args[0].func, ast.Attribute) and unparse(c.args[0].func.value) == nodep_a:
                seq_.append(c.args[0].func.attr)
        if "GetParent" in seq_ and "GetExpression" in seq_:
            norder += 1
            if seq_.index("GetParent") > seq_.index("GetExpression"):
                wrong_order = seq_
    col.floor("R04.3", "paths of v_ArrayExpression lowering parent and index", norder, 1)
    col.check(wrong_order is None, "R04.3", f"{LOWER}::v_ArrayExpression evaluation order", "the indexed expression is lowered before the index expression",
              f"children are lowered in the order {wrong_order}: an index expression with a side effect runs before the value it indexes is read", LOWER, vae)
    # a cast produces a value of the cast's own type (for a vector: the vector type, not its component type - the choice between
    # scalar and vector opcodes downstream reads it)
    vce = model.cls(LOWER, "LowerToIRVisitor").own_method("v_CastExpression")
    from ..sem import local_env as _le43, rtext as _rt43

    env43 = _le43(vce, allow_impure=True)
    mk43 = [c for c in ast.walk(vce) if isinstance(c, ast.Call) and last_attr(c) == "CastInstruction" and len(c.args) >= 2]
    col.floor("R04.3", "cast instructions built by v_CastExpression", len(mk43), 1)
    for c in mk43:
        t43 = _rt43(c.args[1], env43)
        col.check(t43 == f"{vce.args.args[2].arg}.AdaptType({vce.args.args[1].arg}.GetType())", "R04.3", f"{LOWER}::v_CastExpression result type", "CastInstruction(value, ctx.AdaptType(<cast>.GetType()))",
                  f"the cast instruction is typed `{t43}`, not the cast expression's own type: a vector cast yields a value typed as a scalar, and operations on it select scalar opcodes", LOWER, c)
    # operands of element / member / shuffle / constructor instructions are enumerated and rewired like all operands (= R02.1)
    from ..report import Collector as _C43
    from . import c02 as _c02_43

    sub43 = _C43("C02")
    _c02_43.check_operand_protocol(model, sub43, "R02.1")
    n43 = 0
    for ob in sub43.obligations:
        if any(k in ob.construct for k in ("ArrayAccess", "MemberAccess", "Shuffle", "ConstructPrimitive", "_IndexedAccessBase", "VectorSet", "MatrixSet")):
            ob.detail = "[R02.1] " + (ob.detail or "")
            ob.rule = "R04.3"
            col.obligations.append(ob)
            n43 += 1
    col.floor("R04.3", "operand obligations of aggregate instructions shared with C02", n43, 6)
    # ---------------- R04.9 component-type promotion of vector/matrix operands (= R09.2/R09.3) --------
    from . import c09

    sub = Collector("C09")
    c09.run(model, sub, "quick")
    for ob in sub.obligations:
        if ob.rule in ("R09.2", "R09.3", "R09.7"):
            ob.rule = "R04.9"
            col.obligations.append(ob)
    # the CAST arm converts vectors and matrices component by component: the guard that switches to the element type holds for both kinds
    from ..kindflow import make_fold as _mkf

    cast_arm = vm.arm("CAST")
    elem_ifs = [n for st_ in cast_arm.body for n in ast.walk(st_) if isinstance(n, ast.If)
                and any(isinstance(s_, ast.Assign) and isinstance(s_.value, ast.Attribute) and s_.value.attr in ("ElementType", "ComponentType") for s_ in n.body)]
    okk = {}
    for kind_, truth in (("vector", {"IsVector": True, "IsMatrix": False, "IsScalar": False}), ("matrix", {"IsVector": False, "IsMatrix": True, "IsScalar": False})):
        def atom_k(t_, truth=truth):
            if isinstance(t_, ast.Call) and isinstance(t_.func, ast.Attribute) and t_.func.attr in truth and not t_.args:
                return truth[t_.func.attr]
            return None

        okk[kind_] = any(_mkf(atom_k)(n.test) is True for n in elem_ifs)
    mapped = any(isinstance(c, ast.Call) and last_attr(c) == "__CastValue" for st_ in cast_arm.body for c in ast.walk(st_))
    col.check(bool(elem_ifs) and all(okk.values()) and mapped, "R04.9", f"{VM}::__Execute CAST arm element-wise", "vector and matrix targets are converted with their element type, component by component",
              f"the switch to the element type is not taken for {[k for k, v in okk.items() if not v]} targets ({[' '.join(unparse(n.test).split()) for n in elem_ifs]}): casting such a value fails or converts the list itself", VM, cast_arm.case)
    # ---------------- R04.8 ------------------------------------------------------
    s = " ".join(unparse(ast.Module(body=sh.body, type_ignores=[])).split())
    reads_type = "instruction.Type" in s
    repr_ok = reads_type and "result = result[0]" in s and "instruction.Type.IsScalar()" in s
    if folded is not None:
        # the fold of R04.2 covers scalar-typed shuffles (5 of its 12 samples): the stored value is the component itself
        repr_ok = reads_type and not folded
    col.check(repr_ok, "R04.8", f"{VM}::__Execute SHUFFLE representation",
              "a shuffle whose type is scalar (one-letter swizzle) yields the component, not a one-element list",
              "the SHUFFLE arm always builds a list, but a one-letter swizzle read has scalar type: `v.x` evaluates to `[1.0]`", VM, sh.case)
