"""C10 Overload resolution picks the unique best viable candidate."""
from __future__ import annotations

import ast

from ..attrs import Predicates, narrowed_call_violations
from ..miniev import CannotEval, ev
from ..model import AnalysisError, AnchorMissing, dotted, find_assign, last_attr, unparse, walk_no_nested
from ..paths import paths, calls_on_path, cond_atoms
from . import c03

TITLE = "overload resolution: sentinel flow, viability, ties, registration order, arity"
LEVEL = "other"
TYPES = "nsl/types.py"
CT = "nsl/passes/ComputeTypes.py"
EXPLANATION = (
    "R10.1 a 'not convertible' sentinel (negative score) never flows into a sum/min/sort key before a sign test on it: "
    "Function.Match rejects a candidate as soon as one argument is incompatible; types.Match returns -1/0/1 under "
    "(incompatible / equal / convertible). R10.2 in Scope.FindFunction candidates are scored (score first), sorted ascending, "
    "filtered by score >= 0 (folded over -1,0,1), an empty ranking / an unknown name without parent / a tie of the two best "
    "scores raise, an unknown name with a parent delegates with the same arguments, and only the best candidate's function "
    "is returned. R10.3 every function is registered before any body is typed, imports before both. R10.4 a non-negative "
    "score implies equal argument count (or trailing optional parameters). R10.5 the chosen function is the one lowered "
    "(= R03.4/R03.6). R10.6 every method IsCompatible/Match call on a type narrowed by IsX() predicates exists on that type. "
    "R10.2 also: Scope.FindFunction folded over all 155 vectors of up to three candidate scores from {-1,0,1,2,5} - none "
    "viable -> no-matching error, unique lowest -> that candidate, tie for the lowest -> ambiguity error (this decides "
    "rewrites of the ranking the path rules do not model). R10.3 includes the module interface importers register (= R16.5)."
)
NOT_DECIDED = "the full viability/ranking table over signature sets (IsCompatible as a function of concrete types is a finite function whose decision is its evaluation)"
ASSUMPTIONS = ["scores: 0 exact, positive = number of conversions, negative = not viable (documented in Function.Match)"]


class _AT:
    """abstract type: kind + symbolic shape"""

    def __init__(self, name, cls, size=None, comp=None, ident=None):
        self.name, self.cls, self.size, self.comp, self.ident = name, cls, size, comp, ident or name

    def __repr__(self):
        return self.name


def check_compat_table(model, col, R):
    """Decision table of types.IsCompatible over an abstract domain (scalar, vectors of two sizes, matrices of two shapes,
    arrays of two sizes / two element kinds, two struct types): the function's paths are enumerated with every condition
    folded over the abstract operands and the returned expression evaluated abstractly. Expected: scalars always; vectors,
    matrices, arrays iff same shape (arrays: and compatible elements); structs iff the same type; every other pair never."""
    from ..attrs import Predicates

    ic = model.func(TYPES, "IsCompatible")
    from ..sem import expand_module_helpers as _xmh

    ic = _xmh(model, TYPES, ic)  # a branch extracted into a module-level helper is read in place
    ln, rn = ic.args.args[0].arg, ic.args.args[1].arg
    P = Predicates(model, TYPES, "Type")
    C = {n: model.cls(TYPES, n) for n in ("Float", "VectorType", "MatrixType", "ArrayType", "StructType")}
    S = _AT("scalar", C["Float"])
    V2, V3 = _AT("vector2", C["VectorType"], (2,), S), _AT("vector3", C["VectorType"], (3,), S)
    M22, M23 = _AT("matrix2x2", C["MatrixType"], (2, 2), S), _AT("matrix2x3", C["MatrixType"], (2, 3), S)
    A2, A3, A2v = _AT("scalar[2]", C["ArrayType"], (2,), S), _AT("scalar[3]", C["ArrayType"], (3,), S), _AT("vector2[2]", C["ArrayType"], (2,), V2)
    T1, T2 = _AT("struct A", C["StructType"]), _AT("struct B", C["StructType"])
    dom = [S, V2, V3, M22, M23, A2, A3, A2v, T1, T2]
    KIND = {"Float": "Scalar", "VectorType": "Vector", "MatrixType": "Matrix"}

    class Unknown(Exception):
        pass

    class Crash(Exception):
        pass

    def pred(t, name):
        r = P.const_result(t.cls, name)
        if isinstance(r, bool):
            return r
        if name in ("IsScalar", "IsVector", "IsMatrix") and t.cls.name in KIND:
            return KIND[t.cls.name] == name[2:]
        if t.cls.find_method(name) is None:
            raise Unknown(f"{t.cls.name} has no {name}()")
        raise Unknown(f"{t.cls.name}.{name}() is not constant")

    def expected(a, b):
        if a.cls is not b.cls:
            return False
        if a.cls.name == "Float":
            return True
        if a.cls.name in ("VectorType", "MatrixType"):
            return a.size == b.size
        if a.cls.name == "ArrayType":
            return a.size == b.size and expected(a.comp, b.comp)
        return a.ident == b.ident

    def run(a, b, depth=0):
        env = {ln: a, rn: b}

        def aev(e):
            if isinstance(e, ast.Constant):
                return e.value
            if isinstance(e, ast.Name):
                if e.id in env:
                    return env[e.id]
                raise Unknown(f"name {e.id}")
            if isinstance(e, ast.Tuple):
                return tuple(aev(x) for x in e.elts)
            if isinstance(e, ast.UnaryOp) and isinstance(e.op, ast.Not):
                return not aev(e.operand)
            if isinstance(e, ast.BoolOp):
                # short-circuit, like the interpreter: `x.IsVector() and x.GetSize() == ..` never asks a scalar for its size
                for v in e.values:
                    r_ = bool(aev(v))
                    if isinstance(e.op, ast.And) and not r_:
                        return False
                    if isinstance(e.op, ast.Or) and r_:
                        return True
                return isinstance(e.op, ast.And)
            if isinstance(e, ast.Compare) and len(e.ops) == 1 and isinstance(e.ops[0], (ast.Eq, ast.NotEq)):
                l_, r_ = aev(e.left), aev(e.comparators[0])
                eq = (l_.ident == r_.ident and l_.size == r_.size and l_.cls is r_.cls) if isinstance(l_, _AT) and isinstance(r_, _AT) else l_ == r_
                return eq if isinstance(e.ops[0], ast.Eq) else not eq
            if isinstance(e, ast.Call):
                f = e.func
                if isinstance(f, ast.Name) and f.id == "isinstance" and len(e.args) == 2:
                    t_ = aev(e.args[0])
                    cn = last_attr(ast.Call(func=e.args[1], args=[], keywords=[])) if not isinstance(e.args[1], ast.Name) else e.args[1].id
                    ci = model.cls(TYPES, cn) if (TYPES, cn) in {(c.file, c.name) for c in model.classes.values()} else None
                    return ci is not None and ci in t_.cls.mro
                if isinstance(f, ast.Name) and f.id == "IsCompatible" and len(e.args) == 2:
                    if depth > 3:
                        raise Unknown("recursion")
                    return run(aev(e.args[0]), aev(e.args[1]), depth + 1)
                if isinstance(f, ast.Attribute) and not e.args:
                    t_ = aev(f.value)
                    if not isinstance(t_, _AT):
                        raise Unknown(unparse(e))
                    if t_.cls.find_method(f.attr) is None:
                        raise Crash(f"{t_.cls.name} has no {f.attr}()")
                    if f.attr.startswith("Is"):
                        return pred(t_, f.attr)
                    if f.attr in ("GetSize",):
                        if t_.size is None:
                            raise Unknown(f"{t_}.GetSize()")
                        return t_.size
                    if f.attr == "GetComponentCount":
                        return t_.size[0]
                    if f.attr == "GetRowCount":
                        return t_.size[0]
                    if f.attr == "GetColumnCount":
                        return t_.size[1]
                    if f.attr in ("GetComponentType", "GetElementType"):
                        if t_.comp is None:
                            raise Unknown(f"{t_}.{f.attr}()")
                        return t_.comp
            raise Unknown(" ".join(unparse(e).split())[:60])

        def fold(t):
            try:
                return bool(aev(t))
            except Unknown:
                return None

        results = set()
        try:
            all_paths = list(paths(ic.body, fold=fold))
        except Crash as e_:
            return f"raises AttributeError ({e_})"
        for evs, status in all_paths:
            if status == "raise":
                results.add("raises")
            elif status == "fall":
                results.add(None)
            elif status == "return":
                # re-bindings of the operands on the path (single-component vectors) are not modelled: the domain has none
                rv = evs[-1].node.value
                try:
                    results.add(bool(aev(rv)) if rv is not None else None)
                except Crash as e_:
                    results.add(f"raises AttributeError ({e_})")
        if len(results) != 1:
            raise Unknown(f"{len(results)} outcomes {results}")
        return next(iter(results))

    wrong, undecided, n = [], [], 0
    for a in dom:
        for b in dom:
            n += 1
            try:
                got = run(a, b)
            except Unknown as e:
                undecided.append(f"({a}, {b}): {e}")
                continue
            want = expected(a, b)
            if got is not want:
                wrong.append(f"IsCompatible({a}, {b}) = {got}, expected {want}")
    col.check(not wrong, R, f"{TYPES}::IsCompatible decision table", f"{n - len(undecided)} abstract operand pairs agree with: same kind and same shape (structs: same type)",
              "; ".join(wrong[:4]) + (f" (+{len(wrong) - 4} more)" if len(wrong) > 4 else "") + ": an argument that cannot be converted to the parameter makes the candidate viable (or a convertible one is refused)", TYPES, ic)
    if undecided:
        col.info(f"IsCompatible decision table: {len(undecided)} of {n} pairs not decided abstractly, e.g. {undecided[0][:120]}")
    col.floor(R, "abstract operand pairs of IsCompatible decided", n - len(undecided), 60)
    return len(undecided)


def check_compat_guards(model, col, R):
    if check_compat_table(model, col, R) == 0:
        # the whole table was decided from the code: how the guards are spelled (one `!=` of two predicates, an `or` of two
        # cases, ..) no longer matters
        col.info("IsCompatible: every abstract operand pair decided; the guard-shape rules are subsumed")
        return
    """Structural guards of types.IsCompatible, as path conditions: arrays need equal size tuples and compatible
    component types, vectors equal sizes, matrices equal row and column counts, scalars are always compatible,
    primitive/aggregate and array/non-array never."""
    from ..sem import local_env, rtext

    ic = model.func(TYPES, "IsCompatible")
    from ..sem import expand_module_helpers as _xmh

    ic = _xmh(model, TYPES, ic)  # a branch extracted into a module-level helper is read in place
    l, r = ic.args.args[0].arg, ic.args.args[1].arg
    env = {k: v for k, v in local_env(ic).items() if k not in (l, r)}
    seen = {"array sizes": False, "array components": False, "array vs non-array": False, "vector sizes": False, "matrix shape": False, "scalars": False, "primitive vs aggregate": False}
    for evs, status in paths(ic.body):
        if status != "return":
            continue
        a = cond_atoms(evs, env)
        rv = evs[-1].node.value
        t = rtext(rv, env)
        la, ra = a.get(f"{l}.IsArray()"), a.get(f"{r}.IsArray()")
        if la is True and ra is True:
            szk = [k for k in a if k.replace(" ", "") in (f"{l}.GetSize()=={r}.GetSize()", f"{r}.GetSize()=={l}.GetSize()")]
            if szk and a[szk[0]] is False and t == "False":
                seen["array sizes"] = True
            if szk and a[szk[0]] is True and t.replace(" ", "") == f"IsCompatible({l}.GetComponentType(),{r}.GetComponentType())":
                seen["array components"] = True
        elif (la is True and ra is False) or (la is False and ra is True):
            if t == "False":
                seen["array vs non-array"] = True
        elif a.get(f"{l}.IsVector()") is True and a.get(f"{r}.IsVector()") is True and a.get(f"{l}.IsPrimitive()") is True:
            if t.replace(" ", "") in (f"{l}.GetSize()=={r}.GetSize()", f"{l}.GetComponentCount()=={r}.GetComponentCount()"):
                seen["vector sizes"] = True
        elif a.get(f"{l}.IsMatrix()") is True and a.get(f"{r}.IsMatrix()") is True:
            tt = t.replace(" ", "").replace("(", "").replace(")", "")
            if (f"{l}.GetRowCount=={r}.GetRowCount" in tt and f"{l}.GetColumnCount=={r}.GetColumnCount" in tt and "and" in t) or tt == f"{l}.GetSize=={r}.GetSize":
                seen["matrix shape"] = True
        elif a.get(f"{l}.IsScalar()") is True and a.get(f"{r}.IsScalar()") is True:
            if t == "True":
                seen["scalars"] = True
        elif (a.get(f"{l}.IsPrimitive()") is True and a.get(f"{r}.IsAggregate()") is True) or (a.get(f"{l}.IsAggregate()") is True and a.get(f"{r}.IsPrimitive()") is True):
            if t == "False":
                seen["primitive vs aggregate"] = True
    for k, v in seen.items():
        col.check(v, R, f"{TYPES}::IsCompatible guard: {k}", "present as a path condition with the expected verdict",
                  f"IsCompatible no longer decides `{k}` the way convertibility is defined (arrays: identical size tuples and compatible components; vectors: equal size; "
                  "matrices: equal rows and columns; scalars: always; primitive vs aggregate, array vs non-array: never)", TYPES, ic)


_SHARE = [True]


def run(model, col, tier, share=True):
    _SHARE[0] = share
    fcls = model.cls(TYPES, "Function")
    fm = fcls.own_method("Match")
    tm = model.func(TYPES, "Match")
    # ---------------- R10.1 ------------------------------------------------------
    # which functions return a negative sentinel
    sentinel_fns = []
    for f in (tm, fm):
        if any(isinstance(r.value, ast.UnaryOp) and isinstance(r.value.op, ast.USub) for r in ast.walk(f) if isinstance(r, ast.Return) and r.value is not None):
            sentinel_fns.append(f.name)
    col.check(len(sentinel_fns) == 2, "R10.1", f"{TYPES}::Match / Function.Match return a negative sentinel", "both document and return -1 for 'not convertible'",
              "the 'not convertible' sentinel is no longer a negative return value; the rule's premise changed", TYPES, tm)
    # Function.Match: every path that returns an aggregate of per-argument scores must have rejected negatives first
    agg_paths = 0
    for evs, status in paths(fm.body):
        if status != "return":
            continue
        rv = evs[-1].node.value
        if rv is None:
            continue
        aggs = [c for c in ast.walk(rv) if isinstance(c, ast.Call) and dotted(c.func) in ("sum", "min", "max", "len")]
        if not aggs:
            continue
        agg_paths += 1
        arg = aggs[0].args[0] if aggs[0].args else None
        scores_name = arg.id if isinstance(arg, ast.Name) else None
        guarded = False
        for e in evs:
            if e.kind == "cond":
                t = unparse(e.node)
                mentions = scores_name is not None and scores_name in {n.id for n in ast.walk(e.node) if isinstance(n, ast.Name)}
                signtest = any(isinstance(c, ast.Compare) and any(isinstance(k, ast.Constant) and k.value in (0, -1) or (isinstance(k, ast.UnaryOp)) for k in [c.left] + c.comparators)
                               for c in ast.walk(e.node))
                if mentions and signtest and e.val is False:
                    # fold the guard over sample score lists: it must hold exactly when some score is negative
                    samples = ([0, 0], [1, 0], [0, 2], [-1, 1], [1, -1], [-1, -1], [3, 1], [])
                    try:
                        verdicts = [bool(ev(e.node, {scores_name: s_})) for s_ in samples]
                        guarded = verdicts == [any(x < 0 for x in s_) for s_ in samples]
                    except CannotEval:
                        guarded = True  # unrecognised but sign-testing form: accepted
        col.check(guarded, "R10.1", f"{TYPES}::Function.Match aggregates scores only after a sign test",
                  f"`{unparse(rv)[:60]}` is reached only when no per-argument score is negative",
                  f"`{unparse(rv)[:80]}` adds up per-argument scores that may be the -1 sentinel: an incompatible argument (-1) and a conversion (+1) cancel to 0, "
                  "the score of an exact match, so a non-viable overload can win", TYPES, rv)
    # every call of the sentinel-returning Match(): its result must be sign-tested on its own before it takes part in arithmetic
    parents = {}
    for n in ast.walk(fm):
        for ch in ast.iter_child_nodes(n):
            parents[ch] = n
    nsites = 0
    for c in ast.walk(fm):
        if not (isinstance(c, ast.Call) and isinstance(c.func, ast.Name) and c.func.id == "Match"):
            continue
        nsites += 1
        p = parents.get(c)
        ck = f"{TYPES}::Function.Match sentinel of Match() is tested before arithmetic"
        if isinstance(p, (ast.BinOp, ast.AugAssign)) or (isinstance(p, ast.Call) and dotted(p.func) in ("sum", "min", "max")):
            col.bad("R10.1", ck, f"`{unparse(p)[:70]}` puts the score of one argument straight into arithmetic: a -1 ('not convertible') can be cancelled by the +1 of a conversion "
                    "before any sign test sees it (a test on the running total is not a test on the argument)", TYPES, p)
        elif isinstance(p, (ast.ListComp, ast.GeneratorExp)):
            gp = parents.get(p)
            if isinstance(gp, ast.Call) and dotted(gp.func) in ("sum", "min", "max"):
                col.bad("R10.1", ck, f"`{unparse(gp)[:70]}` aggregates per-argument scores without a sign test on the individual scores", TYPES, gp)
            else:
                col.ok("R10.1", ck + " [collected]", "scores are collected first (the aggregate is guarded, see above)")
        elif isinstance(p, ast.Assign) and isinstance(p.targets[0], ast.Name):
            s = p.targets[0].id
            tested = [n for n in ast.walk(fm) if isinstance(n, ast.If) and isinstance(n.test, ast.Compare) and isinstance(n.test.left, ast.Name) and n.test.left.id == s
                      and isinstance(n.test.ops[0], (ast.Lt, ast.LtE, ast.Eq)) and n.lineno > p.lineno
                      and any(isinstance(x, ast.Return) and isinstance(x.value, ast.UnaryOp) for x in ast.walk(n))]
            arith = [n for n in ast.walk(fm) if isinstance(n, (ast.AugAssign, ast.BinOp)) and s in {x.id for x in ast.walk(n) if isinstance(x, ast.Name)} and n.lineno > p.lineno]
            good = bool(tested) and all(t.lineno < a.lineno for t in tested[:1] for a in arith)
            col.check(good, "R10.1", ck, f"`{s}` is compared with 0 (and the candidate rejected) before it is added up",
                      f"`{s}` = Match(...) takes part in arithmetic without a preceding sign test on `{s}` itself", TYPES, p)
        else:
            col.bad("R10.1", ck, f"unrecognised use of the sentinel-returning Match(): `{unparse(p)[:70]}`", TYPES, p)
    col.floor("R10.1", "Match() call sites in Function.Match", nsites, 1)
    from ..sem import local_env, resolve, rtext, iterations

    fm_env = local_env(fm)
    pl_ = fm.args.args[1].arg
    pair_ok = False
    decl_ok = False
    for itx, tgt, body, kind in iterations(fm):
        itr = resolve(itx, fm_env)
        if not (isinstance(itr, ast.Call) and dotted(itr.func) == "zip" and len(itr.args) == 2):
            continue
        mc = [c for b_ in body for c in ast.walk(b_) if isinstance(c, ast.Call) and isinstance(c.func, ast.Name) and c.func.id == "Match"]
        if not mc:
            continue
        margs = [unparse(x) for x in mc[0].args]
        if isinstance(tgt, ast.Name):
            pair_ok = margs == [f"{tgt.id}[0]", f"{tgt.id}[1]"]
        elif isinstance(tgt, ast.Tuple) and len(tgt.elts) == 2:
            pair_ok = margs == [unparse(tgt.elts[0]), unparse(tgt.elts[1])]
        a0, a1 = rtext(itr.args[0], fm_env), rtext(itr.args[1], fm_env)
        pair_ok = pair_ok and a0 == pl_
        decl_ok = "rgumentTypes.values()" in a1 and f"[:len({pl_})]" in a1.replace(" ", "")
    col.check(pair_ok, "R10.1", f"{TYPES}::Function.Match pairs call arguments with parameter types",
              "Match(argument type, parameter type) over zip(parameterList, declared types)", "arguments and parameter types are not paired positionally in (argument, parameter) order", TYPES, fm)
    col.check(decl_ok, "R10.1", f"{TYPES}::Function.Match uses the declared parameter types",
              "the resolved parameter types, cut to the number of arguments", "the parameter types are not the resolved declared types cut to the number of arguments", TYPES, fm)
    # types.Match: -1 / 0 / 1
    outcomes = {}
    for evs, status in paths(tm.body):
        if status != "return":
            continue
        conds = tuple((" ".join(unparse(e.node).split()), e.val) for e in evs if e.kind == "cond")
        try:
            outcomes[conds] = ev(evs[-1].node.value, {})
        except CannotEval:
            outcomes[conds] = unparse(evs[-1].node.value)
    a, b = tm.args.args[0].arg, tm.args.args[1].arg
    want = {
        ((f"not IsCompatible({a}, {b})", True),): -1,
        ((f"not IsCompatible({a}, {b})", False), (f"{a} == {b}", True)): 0,
        ((f"not IsCompatible({a}, {b})", False), (f"{a} == {b}", False)): 1,
    }
    col.check(outcomes == want, "R10.1", f"{TYPES}::Match decision list", "incompatible -> -1, equal -> 0, otherwise 1",
              f"decision list is {outcomes}; expected incompatible -> -1, equal -> 0, convertible -> 1", TYPES, tm)
    # ---------------- R10.2 ------------------------------------------------------
    sc = model.cls(TYPES, "Scope")
    ff = sc.own_method("FindFunction")
    nested = {n.name: n for n in ast.walk(ff) if isinstance(n, ast.FunctionDef) and n is not ff}
    # one-argument helpers used as sort key / filter predicate may equally live at module level or as (static) methods
    for nm_, f_ in model.file(TYPES).functions.items():
        if nm_ not in nested and len(f_.args.args) == 1 and any(isinstance(x, ast.Name) and x.id == nm_ for x in ast.walk(ff)):
            nested[nm_] = f_
    ff_env = local_env(ff)
    fn_, at_ = ff.args.args[1].arg, ff.args.args[2].arg
    # the variable holding the ranking = the one whose [0][1] is returned
    RV = None
    for r in ast.walk(ff):
        if isinstance(r, ast.Return) and isinstance(r.value, ast.Subscript) and isinstance(r.value.value, ast.Subscript) and isinstance(r.value.value.value, ast.Name) \
                and unparse(r.value.slice) == "1" and unparse(r.value.value.slice) == "0":
            RV = r.value.value.value.id
    if RV is None:
        # the best candidate may be held in a local:  best = ranking[0]; return best[1]
        for r in ast.walk(ff):
            if isinstance(r, ast.Return) and r.value is not None:
                rr = resolve(r.value, ff_env)
                if isinstance(rr, ast.Subscript) and isinstance(rr.value, ast.Subscript) and isinstance(rr.value.value, ast.Name) and unparse(rr.slice) == "1" and unparse(rr.value.slice) == "0":
                    RV = rr.value.value.id
    # independent of how the ranking is spelled: the function folded over small score vectors
    folded = fold_find_function(model, sc, ff)
    if folded is not None:
        col.check(not folded[1], "R10.2", f"{TYPES}::Scope.FindFunction over {folded[0]} score vectors", "unique lowest non-negative score wins; none -> no-matching error; tie for the lowest -> ambiguity error",
                  "; ".join(folded[1][:3]) + f" ({len(folded[1])} of {folded[0]} vectors): the call binds to another candidate than the unique best one, or a resolvable call is rejected", TYPES, ff)
    if RV is None:
        if folded is None:
            raise AnchorMissing(f"{TYPES}::Scope.FindFunction: no `return <ranking>[0][1]` found")
        # the ranking is written in a form the path rules below do not model (e.g. a single pass keeping the best so far):
        # its outcomes are decided by the fold above; the unknown-name delegation is still read from the paths
        deleg = any(status == "return" and evs[-1].node.value is not None and rtext(evs[-1].node.value, ff_env) == f"self.__parent.FindFunction({fn_}, {at_})"
                    and cond_atoms(evs, ff_env).get(f"{fn_} in self.__functions") is False for evs, status in paths(ff.body))
        col.check(deleg, "R10.2", f"{TYPES}::Scope.FindFunction outcome unknown-delegate", "an unknown name is looked up in the parent scope with the same name and argument types",
                  "a name this scope does not know is not delegated to the parent scope", TYPES, ff)
        return _run_tail(model, col, tier, sc, fm, fm_env)
    ff_env = {k: v for k, v in ff_env.items() if k != RV}

    def callable_body(f, bind):
        """(expression, env) of a one-argument callable given as nested def name / lambda"""
        if isinstance(f, ast.Name) and f.id in nested:
            d = nested[f.id]
            rr = [r.value for r in ast.walk(d) if isinstance(r, ast.Return)]
            return (rr[0], {d.args.args[0].arg: bind}) if len(rr) == 1 else (None, {})
        if isinstance(f, ast.Lambda) and len(f.args.args) == 1:
            return f.body, {f.args.args[0].arg: bind}
        return None, {}

    def fold_pred(expr, env_):
        try:
            return bool(ev(expr, env_, calls={k: (lambda v, d=nested[k]: ev([r.value for r in ast.walk(d) if isinstance(r, ast.Return)][0], {d.args.args[0].arg: v})) for k in nested}))
        except CannotEval:
            return None

    # (a) scoring
    tup_ok = False
    for n in ast.walk(ff):
        if isinstance(n, (ast.ListComp, ast.GeneratorExp)) and isinstance(n.elt, ast.Tuple) and len(n.elt.elts) == 2:
            e0, e1 = n.elt.elts
            g = n.generators[0]
            if f"Match({at_})" in unparse(e0) and unparse(e1) == unparse(g.target) and unparse(e0).startswith(unparse(g.target) + ".") and not g.ifs:
                tup_ok = rtext(g.iter, ff_env) == f"self.__functions[{fn_}]"
        elif isinstance(n, ast.For) and rtext(n.iter, ff_env) == f"self.__functions[{fn_}]" and not any(isinstance(x, (ast.If, ast.Continue, ast.Break)) for s_ in n.body for x in ast.walk(s_)):
            # explicit loop: for candidate in candidates: scored.append((candidate.Match(argumentTypes), candidate))
            tg_ = unparse(n.target)
            for s_ in n.body:
                for c_ in ast.walk(s_):
                    if isinstance(c_, ast.Call) and last_attr(c_) == "append" and len(c_.args) == 1 and isinstance(c_.args[0], ast.Tuple) and len(c_.args[0].elts) == 2:
                        e0, e1 = c_.args[0].elts
                        if f"Match({at_})" in unparse(e0) and unparse(e1) == tg_ and unparse(e0).startswith(tg_ + "."):
                            tup_ok = True
    col.check(tup_ok, "R10.2", f"{TYPES}::Scope.FindFunction scores every candidate", "(candidate.Match(argumentTypes), candidate) for every function registered under the name",
              "not every registered candidate of that name is scored against the call's argument types (score first, candidate second)", TYPES, ff)
    # (b) ordering
    key_ok = False
    for n in ast.walk(ff):
        if isinstance(n, ast.Call) and (dotted(n.func) == "sorted" or (isinstance(n.func, ast.Attribute) and n.func.attr == "sort")):
            kws = {k.arg: k.value for k in n.keywords}
            rev = kws.get("reverse")
            keyf = kws.get("key")
            if keyf is None:
                continue
            if isinstance(keyf, ast.Call) and dotted(keyf.func) in ("operator.itemgetter", "itemgetter") and unparse(keyf.args[0]) == "0":
                k_ok = True
            else:
                body_, env_ = callable_body(keyf, None)
                k_ok = body_ is not None and unparse(body_) == f"{list(env_)[0]}[0]"
            key_ok = k_ok and (rev is None or (isinstance(rev, ast.Constant) and rev.value is False))
    col.check(key_ok, "R10.2", f"{TYPES}::Scope.FindFunction ranking order", "candidates are sorted ascending by score",
              "candidates are not sorted ascending by their score (the best candidate must come first)", TYPES, ff)
    # (c) viability filter, folded over scores
    pred_ok = False
    pred_txt = None
    scores = (-2, -1, 0, 1, 5)
    wantv = [False, False, True, True, True]
    for n in ast.walk(ff):
        if isinstance(n, ast.Call) and dotted(n.func) == "filter" and n.args:
            body_, env0 = callable_body(n.args[0], None)
            if body_ is not None:
                pred_txt = unparse(body_)
                pred_ok = [fold_pred(body_, {list(env0)[0]: (s_, None)}) for s_ in scores] == wantv
        if isinstance(n, (ast.ListComp, ast.GeneratorExp)) and n.generators[0].ifs and not (isinstance(n.elt, ast.Tuple) and "Match(" in unparse(n.elt)):
            g = n.generators[0]
            cond = g.ifs[0] if len(g.ifs) == 1 else ast.BoolOp(op=ast.And(), values=g.ifs)
            pred_txt = unparse(cond)
            res = []
            for s_ in scores:
                if isinstance(g.target, ast.Name):
                    env_ = {g.target.id: (s_, None)}
                elif isinstance(g.target, ast.Tuple):
                    env_ = {unparse(g.target.elts[0]): s_}
                else:
                    env_ = {}
                res.append(fold_pred(cond, env_))
            pred_ok = pred_ok or res == wantv
    col.check(pred_ok, "R10.2", f"{TYPES}::Scope.FindFunction viability filter", f"candidates are kept iff `{pred_txt}` (score >= 0)",
              f"the viability filter `{pred_txt}` does not keep exactly the candidates with a non-negative score (a 0 = exact match must stay, negatives must go)", TYPES, ff)
    # path outcomes
    fn, at = ff.args.args[1].arg, ff.args.args[2].arg
    seen = {"unknown-delegate": False, "unknown-raise": False, "empty-raise": False, "single": False, "tie-raise": False, "best": False}
    problems = []
    for evs, status in paths(ff.body):
        conds = cond_atoms(evs, ff_env)
        unknown = conds.get(f"{fn} in self.__functions") is False
        raised = [unparse(c.func) for c in calls_on_path(evs) if last_attr(c) == "Raise"] if status == "raise" else []
        rv = rtext(evs[-1].node.value, ff_env) if status == "return" and evs[-1].node.value is not None else None
        if unknown:
            if conds.get("self.__parent is None") is False:
                good = rv == f"self.__parent.FindFunction({fn}, {at})"
                seen["unknown-delegate"] |= good
                if not good:
                    problems.append(f"unknown name with a parent scope: returns {rv}, expected delegation with the same name and argument types")
            else:
                good = any("UNKNOWN_FUNCTION" in r for r in raised)
                seen["unknown-raise"] |= good
                if not good:
                    problems.append(f"unknown name without parent scope does not raise the unknown-function error ({status}, {raised})")
            continue
        if conds.get(f"len({RV}) == 0") is True or conds.get(RV) is False:
            good = any("NO_MATCHING" in r for r in raised)
            seen["empty-raise"] |= good
            if not good:
                problems.append("an empty ranking does not raise the no-matching-overload error")
            continue
        if conds.get(f"len({RV}) == 1") is True:
            good = rv == f"{RV}[0][1]"
            seen["single"] |= good
            if not good:
                problems.append(f"a single viable candidate: returns {rv}")
            continue
        if (conds.get(f"{RV}[0][0] == {RV}[1][0]") is True or conds.get(f"{RV}[1][0] == {RV}[0][0]") is True):
            good = any("AMBIGUOUS" in r for r in raised)
            seen["tie-raise"] |= good
            if not good:
                problems.append("equal best scores do not raise the ambiguity error")
            continue
        if status == "return":
            tie_tested = f"{RV}[0][0] == {RV}[1][0]" in conds or f"{RV}[1][0] == {RV}[0][0]" in conds
            good = rv == f"{RV}[0][1]" and tie_tested
            seen["best"] |= good
            if not good:
                problems.append(f"multi-candidate path returns {rv} (tie tested: {tie_tested}); expected <ranking>[0][1] after the tie test")
    for k, v in seen.items():
        col.check(v, "R10.2", f"{TYPES}::Scope.FindFunction outcome {k}", "present and correct",
                  f"outcome `{k}` is missing or wrong: " + "; ".join(problems), TYPES, ff)
    # ... on *every* path of its kind (a second path of the same kind with another outcome is not excused by the first)
    col.check(not problems, "R10.2", f"{TYPES}::Scope.FindFunction every path has its outcome", "no path of any kind ends differently",
              "; ".join(sorted(set(problems))[:3]) + ": e.g. a tie that is only sometimes reported binds the call to whichever candidate was registered first", TYPES, ff)
    return _run_tail(model, col, tier, sc, fm, fm_env)


def fold_find_function(model, sc, ff):
    """Scope.FindFunction folded over every vector of up to three candidate scores from {-1, 0, 1, 2, 5}: no viable candidate ->
    the no-matching error, a unique lowest non-negative score -> that candidate, a tie for the lowest -> the ambiguity error.
    -> (number of vectors folded, [counter-examples]) or None if the function is not foldable."""
    import itertools

    from ..miniev import CannotEval, Sample, run_pure
    from ..sem import expand_helpers

    try:
        f = expand_helpers(model, sc, ff, skip=("v_", "FindFunction"))
    except Exception:
        f = ff
    if len(f.args.args) != 3:
        return None
    selfn, fn_, at_ = (a.arg for a in f.args.args)

    class Signal(Exception):
        pass

    calls = {}
    for c in ast.walk(f):
        if isinstance(c, ast.Call) and last_attr(c) == "Raise" and isinstance(c.func, ast.Attribute):
            nm = unparse(c.func.value).split(".")[-1]

            def mk(nm=nm):
                def raiser(*a):
                    raise Signal(nm)
                return raiser

            calls[unparse(c.func)] = mk()
    fields = {n.attr for n in ast.walk(f) if isinstance(n, ast.Attribute) and isinstance(n.value, ast.Name) and n.value.id == selfn}
    table = [x for x in fields if "unction" in x]
    parent = [x for x in fields if "arent" in x]
    if len(table) != 1:
        return None
    bad = []
    n = 0
    for k in (1, 2, 3):
        for scores in itertools.product((-1, 0, 1, 2, 5), repeat=k):
            cands = [Sample(f"candidate{i}:{s}", {"Match": (lambda *a, s=s: s)}) for i, s in enumerate(scores)]
            env = {f"{selfn}.{table[0]}": {"f": cands}}
            for p in parent:
                env[f"{selfn}.{p}"] = None
            try:
                got = ("return", run_pure(f, [None, "f", "ARGS"], calls, 4000, env))
            except Signal as sg:
                got = ("error", str(sg))
            except CannotEval:
                return None
            except Exception:
                return None
            n += 1
            viable = [i for i, s in enumerate(scores) if s >= 0]
            if not viable:
                ok = got[0] == "error" and "NO_MATCHING" in got[1]
                want = "the no-matching-overload error"
            else:
                m = min(scores[i] for i in viable)
                best = [i for i in viable if scores[i] == m]
                if len(best) > 1:
                    ok = got[0] == "error" and "AMBIGUOUS" in got[1]
                    want = "the ambiguity error"
                else:
                    ok = got[0] == "return" and got[1] is cands[best[0]]
                    want = f"candidate {best[0]}"
            if not ok:
                bad.append(f"scores {list(scores)}: {got[0]} {got[1]!r}, expected {want}")
    return n, bad


def _run_tail(model, col, tier, sc, fm, fm_env):
    if _SHARE[0]:
        # the overload set a call is resolved against includes every function of an imported module: what lowering records
        # for importers is a sequence of all of them, which the type pass registers one by one (= R16.5)
        from ..report import Collector as _C105
        from . import c16 as _c16

        sub = _C105("C16")
        _c16.run(model, sub, "quick")
        n165 = 0
        for ob in sub.obligations:
            if ob.rule == "R16.5" and "Metadata" in ob.construct:
                ob.detail = "[R16.5] " + (ob.detail or "")
                ob.rule = "R10.3"
                col.obligations.append(ob)
                n165 += 1
        col.floor("R10.3", "module-interface obligations shared with C16", n165, 2)
    rf = sc.own_method("RegisterFunction")
    from ..sem import local_env as _le, rtext as _rt

    rf_env = _le(rf, allow_impure=True)
    n_, t_ = rf.args.args[1].arg, rf.args.args[2].arg
    appended = any(isinstance(c, ast.Call) and last_attr(c) == "append" and len(c.args) == 1 and _rt(c.args[0], rf_env) == t_
                   and _rt(c.func.value, rf_env) in (f"self.__functions[{n_}]", f"self.__functions.setdefault({n_}, [])", f"self.__functions.setdefault({n_}, list())")
                   for c in ast.walk(rf))
    col.check(appended, "R10.2", f"{TYPES}::Scope.RegisterFunction keeps every overload",
              "overloads are appended to the list registered under the name", "registering a function does not append it to the list of its name (an overload replaces or loses another)", TYPES, rf)
    rfn = model.func(TYPES, "ResolveFunction")
    from ..sem import alpha as _alpha102

    # ResolveFunction(theType, scope, argumentTypes): p1.FindFunction(p0.GetName(), p2)
    col.check("p1.FindFunction(p0.GetName(), p2)" in _alpha102(rfn), "R10.2", f"{TYPES}::ResolveFunction", "unresolved calls go through FindFunction(name, argument types)", None, TYPES, rfn)
    # ---------------- R10.3 ------------------------------------------------------
    ctv = model.cls(CT, "ComputeTypeVisitor")
    ctm = ctv.own_method("v_Module")
    if ctm is not None:
        from ..sem import expand_helpers as _xh_ctm

        # e.g. an extracted `__RegisterImports(module, ctx)` is read in place (the per-function registration helper stays a call:
        # the order rule below names it)
        ctm = _xh_ctm(model, ctv, ctm, skip=("v_", "__RegisterFunction", "_ComputeTypeVisitor__RegisterFunction"))
    order = []
    for st in ctm.body:
        t = unparse(st)
        if "GetImports" in t:
            order.append("imports")
        elif "__RegisterFunction" in t and isinstance(st, ast.For) and "GetFunctions" in unparse(st.iter):
            order.append("register-all")
        elif isinstance(st, ast.For) and "GetFunctions" in unparse(st.iter) and "v_Visit" in t:
            order.append("type-bodies")
    col.check(order == ["imports", "register-all", "type-bodies"], "R10.3", f"{CT}::v_Module registration before resolution",
              "imports, then all functions are registered, then bodies are typed: resolution sees every overload regardless of declaration order",
              f"order is {order}: a call can be resolved before all overloads of its name are registered, so the result depends on declaration order", CT, ctm)
    # imported and own overloads of a name live in ONE scope: FindFunction stops at the first scope that knows the name, so a
    # scope pushed between registering the imports and registering the module's functions makes local overloads hide imported ones
    ctxn_ = ctm.args.args[2].arg
    pushes_ = [c for c in ast.walk(ctm) if isinstance(c, ast.Call) and ((last_attr(c) in ("append", "insert") and isinstance(c.func, ast.Attribute) and unparse(c.func.value) == ctxn_) or last_attr(c) == "Scope")]
    col.check(not pushes_, "R10.3", f"{CT}::v_Module one scope for imported and own functions", "v_Module registers everything in the scope it was given",
              f"`{unparse(pushes_[0])[:60] if pushes_ else ''}` opens another scope inside v_Module: overloads of one name end up in different scopes and only the innermost set takes part in resolution",
              CT, pushes_[0] if pushes_ else ctm)
    reg = ctv.find_method("__RegisterFunction")
    if reg:
        r_env = _le(reg[1], allow_impure=True)
        fp, cp_ = reg[1].args.args[1].arg, reg[1].args.args[2].arg
        resolves = [c for c in ast.walk(reg[1]) if isinstance(c, ast.Call) and last_attr(c) == "Resolve" and len(c.args) == 1 and _rt(c.args[0], r_env) == f"{cp_}[-1]"
                    and _rt(c.func.value, r_env) == f"{fp}.GetType()"]
        regs = [c for c in ast.walk(reg[1]) if isinstance(c, ast.Call) and last_attr(c) == "RegisterFunction" and len(c.args) == 2 and _rt(c.args[1], r_env) == f"{fp}.GetType()"
                and _rt(c.args[0], r_env) == f"{fp}.GetType().GetName()" and _rt(c.func.value, r_env) == f"{cp_}[-1]"]
        col.check(bool(resolves) and bool(regs) and min(c.lineno for c in resolves) < min(c.lineno for c in regs), "R10.3", f"{CT}::__RegisterFunction", "parameter types are resolved, then the function is registered under its name", None, CT, reg[1])
        # ... on every path: a function that is declared but not entered (an exported one, say) is no candidate for calls
        # inside the module, so such a call binds to a worse overload or is refused
        skipped = [cond_atoms(evs) for evs, status in paths(reg[1].body) if status != "raise" and not any(c in regs for c in calls_on_path(evs))]
        col.check(not skipped, "R10.3", f"{CT}::__RegisterFunction registers every declared function", "RegisterFunction is reached on every returning path",
                  f"under {[(k, v) for k, v in (skipped[0].items() if skipped else [])][:3]} a declared function is not entered into the overload table: calls to it from inside the module "
                  "resolve to another (convertible) overload or fail, although the function exists", CT, reg[1])
    sc = model.cls(TYPES, "Scope")
    rf = sc.own_method("RegisterFunction")
    if rf is None:
        raise AnchorMissing(f"{TYPES}::Scope.RegisterFunction")
    rf_env = _le(rf, allow_impure=True)
    fnp, tip = rf.args.args[1].arg, rf.args.args[2].arg
    lost = []
    nreg = 0
    for evs, status in paths(rf.body):
        if status == "raise":
            continue
        nreg += 1
        apps = [c for c in calls_on_path(evs) if last_attr(c) == "append" and c.args and _rt(c.args[0], rf_env) == tip]
        if not apps:
            lost.append(cond_atoms(evs, rf_env))
    col.floor("R10.3", "returning paths of Scope.RegisterFunction", nreg, 1)
    col.check(not lost, "R10.3", f"{TYPES}::Scope.RegisterFunction keeps every declaration", "the function type is appended to the overload list of its name on every returning path",
              f"under {[(k[:50], v) for k, v in (lost[0].items() if lost else [])][:3]} a declaration is dropped from the overload list: two declarations that should tie (ambiguous call) "
              "no longer do, and the call is bound to one of them silently", TYPES, rf)
    pe = ctv.own_method("_ProcessExpression")
    from ..sem import expand_helpers as _xh103

    pe = _xh103(model, ctv, pe)
    ep_, sp_ = pe.args.args[1].arg, pe.args.args[2].arg
    typed_first = None
    for evs_, st_ in paths(pe.body):
        idx_res = next((i for i, e in enumerate(evs_) if e.kind in ("stmt", "return") and any(
            isinstance(c, ast.Call) and last_attr(c) == "ResolveType" and unparse(c.func.value) == ep_ and [unparse(a) for a in c.args] == [sp_] for c in ast.walk(e.node))), None)
        if idx_res is None:
            continue
        before = [e for e in evs_[:idx_res] if e.kind == "loop" and isinstance(e.node, ast.For) and unparse(e.node.iter) in (ep_, f"{ep_}.children", f"{ep_}.GetArguments()")
                  and any(isinstance(c, ast.Call) and last_attr(c) == "_ProcessExpression" and c.args and unparse(c.args[0]) == unparse(e.node.target) for s_ in e.node.body for c in ast.walk(s_))]
        typed_first = bool(before) if typed_first is None else (typed_first and bool(before))
    col.check(typed_first is True, "R10.3", f"{CT}::_ProcessExpression arguments typed before the call is resolved", "children are typed first", "a call is resolved before its arguments are typed", CT, pe)
    # ---------------- R10.4 ------------------------------------------------------
    # every constant a path of Function.Match / Match returns: rejections are negative, and 0 means 'exact match' only
    for f_, nm in ((fm, "Function.Match"),):
        for evs, status in paths(f_.body):
            if status != "return":
                continue
            rv = evs[-1].node.value
            try:
                val = ev(rv, {})
            except CannotEval:
                continue
            if isinstance(val, int):
                col.check(val < 0, "R10.4", f"{TYPES}::{nm} constant verdict `return {unparse(rv)}`", "an early (rejecting) return is negative",
                          f"`return {unparse(rv)}` on the path [{', '.join(t for t, v in cond_atoms(evs, fm_env).items() if v)[:90]}] is not negative: the candidate counts as viable "
                          "(0 even as an exact match) although the argument list does not fit", TYPES, rv)
    pl = fm.args.args[1].arg
    for evs, status in paths(fm.body):
        if status != "return":
            continue
        rv = evs[-1].node.value
        if isinstance(rv, ast.UnaryOp):
            continue
        conds = cond_atoms(evs, fm_env)
        # (order comparisons are canonical: `a > b` is presented as `b < a`)
        lt = conds.get(f"len({pl}) < len(self.arguments)")
        gt = conds.get(f"len(self.arguments) < len({pl})", conds.get(f"len({pl}) > len(self.arguments)"))
        eqc = conds.get(f"len({pl}) == len(self.arguments)", conds.get(f"len(self.arguments) == len({pl})"))
        if eqc is True:
            lt, gt = False, False
        if lt is None and gt is None:
            col.bad("R10.4", f"{TYPES}::Function.Match argument count", "a non-negative score can be returned without any comparison of the argument counts", TYPES, rv)
            continue
        if lt is False and gt is False:
            col.ok("R10.4", f"{TYPES}::Function.Match argument count [equal]", "a score is computed only when the counts are equal")
        elif lt is True:
            opt = [t_ for t_, v in conds.items() if "IsOptional" in t_]
            col.check(bool(opt), "R10.4", f"{TYPES}::Function.Match argument count [fewer arguments]", "fewer arguments are viable only if every surplus parameter is optional",
                      "a call with fewer arguments than parameters is scored without requiring the surplus parameters to be optional", TYPES, rv)
            # ... and the parameters tested are the surplus ones: <parameters>[len(arguments):]
            from ..sem import resolve as _resolve

            its_ = []
            for n_ in ast.walk(fm):
                if isinstance(n_, (ast.ListComp, ast.GeneratorExp)) and "IsOptional" in unparse(n_.elt):
                    its_.append(_resolve(n_.generators[0].iter, fm_env))
                elif isinstance(n_, ast.For) and any("IsOptional" in unparse(s_) for s_ in n_.body):
                    its_.append(_resolve(n_.iter, fm_env))
            surplus = bool(its_) and all(isinstance(i_, ast.Subscript) and isinstance(i_.slice, ast.Slice) and i_.slice.upper is None and i_.slice.step is None
                                         and i_.slice.lower is not None and " ".join(unparse(i_.slice.lower).split()) == f"len({pl})" and unparse(i_.value) == "self.arguments" for i_ in its_)
            col.check(surplus, "R10.4", f"{TYPES}::Function.Match surplus parameters", f"the optional test runs over self.arguments[len({pl}):]",
                      f"the optional test runs over {[' '.join(unparse(i_).split()) for i_ in its_]}, not over the parameters that got no argument (self.arguments[len({pl}):]): "
                      "a call with too few arguments is viable although the missing parameters are not optional (or the other way round)", TYPES, rv)
        else:
            col.bad("R10.4", f"{TYPES}::Function.Match argument count [more arguments]", "a call with more arguments than parameters gets a non-negative score", TYPES, rv)
    # ---------------- R10.5 ------------------------------------------------------
    from ..report import Collector

    sub = Collector("C03")
    c03.run(model, sub, "quick", share=False)
    for ob in sub.obligations:
        if ob.rule in ("R03.4", "R03.6"):
            ob.rule = "R10.5"
            col.obligations.append(ob)
    # ---------------- R10.7 convertibility guards (inventory; the table itself is not decided) -----
    check_compat_guards(model, col, "R10.7")
    # ---------------- R10.6 ------------------------------------------------------
    preds = Predicates(model, TYPES, "Type")
    col.note("concrete type classes", [c.name for c in preds.concrete])
    total = 0
    for fname in ("IsCompatible", "Match", "ResolveType", "_GetRowsColumns", "_GetCommonPrimitiveType"):
        f = model.func(TYPES, fname)
        params = [a.arg for a in f.args.args]
        viol, checked = narrowed_call_violations(model, TYPES, f, preds, params)
        total += checked
        for n, p, attr, missing, s in viol:
            col.bad("R10.6", f"{TYPES}::{fname} calls {p}.{attr}", f"`{p}.{attr}` is evaluated where `{p}` can be {s} (narrowed by the tests on the path); {missing} define(s) no `{attr}`: AttributeError for such an argument", TYPES, n)
        if not viol:
            col.ok("R10.6", f"{TYPES}::{fname} attribute resolution", f"{checked} attribute uses on predicate-narrowed parameters all resolve")
    col.floor("R10.6", "attribute uses on narrowed parameters", total, 20)
    check_exported_unique(model, col, "R10.8")
    check_import_loops(model, col, "R10.3")
    check_callee_binding(model, col, "R10.2")
    # Function.Match counts the declared parameters but compares against the resolved table: the table has one entry per
    # declared parameter, named or not (= R03.5)
    res = model.cls(TYPES, "Function").own_method("Resolve")
    loops_ = [n for n in ast.walk(res) if isinstance(n, ast.For) and "arguments" in unparse(n.iter)]
    per_iter = bool(loops_)
    for lp in loops_[:1]:
        for evs_, st_ in paths(lp.body, loop_iters=(1,)):
            if st_ == "raise":
                continue
            stores = [e for e in evs_ if e.kind == "stmt" and isinstance(e.node, ast.Assign) and isinstance(e.node.targets[0], ast.Subscript) and "argumentTypes" in unparse(e.node.targets[0].value)]
            if len(stores) != 1:
                per_iter = False
    col.check(per_iter, "R10.4", f"{TYPES}::Function.Resolve one entry per parameter", "every declared parameter (named or unnamed) adds exactly one entry to the table Match compares against",
              "a declared parameter can be skipped when the parameter table is filled: Match then pairs the arguments with the wrong parameter types (an unnamed `float2` parameter "
              "matches anything), so a non-viable candidate scores 0 and wins", TYPES, res)


def check_callee_binding(model, col, rule):
    """The callee of a call is what Scope.FindFunction chose: the `function` field of a call expression is written in
    CallExpression.ResolveType only, and the type pass resolves every call expression that way (no shortcut that binds a
    callee without the viability / ranking rules)."""
    from ..sem import expand_helpers

    ASTF_ = "nsl/ast/__init__.py"
    ce = model.cls(ASTF_, "CallExpression")
    rt = ce.own_method("ResolveType")
    if rt is None:
        raise AnchorMissing(f"{ASTF_}::CallExpression.ResolveType")
    fld = next((t.attr for n in ast.walk(rt) if isinstance(n, ast.Assign) for t in n.targets if isinstance(t, ast.Attribute) and isinstance(t.value, ast.Name) and t.value.id == rt.args.args[0].arg
                and any(isinstance(c, ast.Call) and last_attr(c) in ("FindFunction", "ResolveFunction") for c in ast.walk(n.value))), None)
    col.check(fld is not None, rule, f"{ASTF_}::CallExpression.ResolveType binds the callee from FindFunction", "self.<field> = <scope lookup>(name, argument types)",
              "CallExpression.ResolveType no longer stores the result of the scope's function lookup", ASTF_, rt)
    if fld is None:
        return
    foreign = []
    for rel, fi in sorted(model.files.items()):
        if not rel.startswith("nsl/"):
            continue
        for fn in [x for x in ast.walk(fi.tree) if isinstance(x, ast.FunctionDef)]:
            if fn is rt or any(fn is m_ for m_ in ce.methods.values() if m_.name == "__init__"):
                continue
            for n in ast.walk(fn):
                tg = n.targets if isinstance(n, ast.Assign) else [n.target] if isinstance(n, (ast.AugAssign, ast.AnnAssign)) else []
                for t in tg:
                    if isinstance(t, ast.Attribute) and t.attr == fld and not (isinstance(t.value, ast.Name) and t.value.id == "self" and rel != ASTF_):
                        foreign.append((rel, fn.name, n))
    # (a `self.function = ..` in an unrelated class of another file is that class's own field)
    foreign = [x for x in foreign if not (isinstance(x[2], ast.Assign) and isinstance(x[2].targets[0].value, ast.Name) and x[2].targets[0].value.id == "self" and x[0] == ASTF_ and x[1] != "ResolveType"
                                          and not any(x[1] == m_ for m_ in ce.methods))]
    col.check(not foreign, rule, f"nsl/:: only CallExpression.ResolveType binds a call's `{fld}`", f"no other function assigns `.{fld}`",
              f"`{' '.join(unparse(foreign[0][2]).split())[:70] if foreign else ''}` in {foreign[0][0] if foreign else ''}::{foreign[0][1] if foreign else ''} binds a callee outside the overload rules: "
              "a candidate that is not viable (or not the best) is called", foreign[0][0] if foreign else ASTF_, foreign[0][2] if foreign else rt)
    ctv_ = model.cls(CT, "ComputeTypeVisitor")
    pe0 = ctv_.own_method("_ProcessExpression")
    pe = expand_helpers(model, ctv_, pe0)
    ep, sp = pe.args.args[1].arg, pe.args.args[2].arg

    def fold(t):
        if isinstance(t, ast.Call) and isinstance(t.func, ast.Name) and t.func.id == "isinstance" and len(t.args) == 2 and unparse(t.args[0]) == ep:
            alts = [unparse(e).split(".")[-1] for e in ast.walk(t.args[1]) if isinstance(e, (ast.Name, ast.Attribute)) and not isinstance(getattr(e, "ctx", None), ast.Store)]
            alts = [a_ for a_ in alts if a_[:1].isupper()]
            return any(a_ in {c.name for c in ce.mro} for a_ in alts)
        return None

    unresolved = None
    ncall = 0
    for evs, status in paths(pe.body, fold=fold):
        if status == "raise":
            continue
        ncall += 1
        if not any(last_attr(c) == "ResolveType" and isinstance(c.func, ast.Attribute) and unparse(c.func.value) == ep and [unparse(a) for a in c.args] == [sp] for c in calls_on_path(evs)):
            unresolved = unresolved or [(k[:60], v) for k, v in cond_atoms(evs).items() if "isinstance" not in k][:3]
    col.floor(rule, "paths of the type pass taken by a call expression", ncall, 1)
    col.check(unresolved is None, rule, f"{CT}::_ProcessExpression resolves every call through the scope", f"every path a CallExpression takes calls {ep}.ResolveType({sp})",
              f"under {unresolved} a call expression is typed without {ep}.ResolveType({sp}): its callee is bound without checking that the arguments are convertible and without ranking the overloads", CT, pe0)


def check_import_loops(model, col, rule):
    """Every imported module contributes its functions: in the type pass's and in the linker's loop over import names, every
    path of the body loads the module named by the loop variable, unless a test on *that very name* (`name in <seen set>`)
    says it was loaded before.  A skip decided on something derived from the name (its stem, its lower-case form) merges
    different modules."""
    from ..sem import expand_helpers, local_env, rtext

    sites = []
    ctv_ = model.cls(CT, "ComputeTypeVisitor")
    sites.append((CT, ctv_, expand_helpers(model, ctv_, ctv_.own_method("v_Module"), skip=("v_", "__RegisterFunction", "_ComputeTypeVisitor__RegisterFunction"))))
    lk_ = model.cls("nsl/LinearIR.py", "Linker")
    sites.append(("nsl/LinearIR.py", lk_, expand_helpers(model, lk_, lk_.own_method("Link"), skip=("v_", "AddModule"))))
    n = 0
    for rel, ci, f in sites:
        env = local_env(f, allow_impure=True)
        for lp in [l for l in ast.walk(f) if isinstance(l, ast.For) and isinstance(l.target, ast.Name)]:
            loads = [c for s in lp.body for c in ast.walk(s) if isinstance(c, ast.Call) and last_attr(c) == "Load" and c.args and rtext(c.args[0], env) == lp.target.id]
            if not loads:
                continue
            n += 1
            var = lp.target.id
            skipped = None
            dropped = None
            for evs, status in paths(lp.body, loop_iters=(0, 1)):
                if status == "raise":
                    continue
                if any(c in loads for c in calls_on_path(evs)):
                    if ci.name == "Linker" and not any(last_attr(c) in ("AddModule", "_Linker__AddModule", "__AddModule") for c in calls_on_path(evs)):
                        dropped = dropped or [(k[:60], v) for k, v in cond_atoms(evs, env).items()][:3]
                    continue
                a = cond_atoms(evs, env)
                own = [k for k, v in a.items() if v is True and k.replace(" ", "").startswith(f"{var}in")]
                if not own:
                    skipped = skipped or [(k[:60], v) for k, v in a.items()][:3]
            col.check(skipped is None, rule, f"{rel}::{ci.name}.{f.name} loads every imported module", f"each `{var}` is loaded unless `{var}` itself was seen before",
                      f"under {skipped} the module named by `{var}` is not loaded although that name was not seen before: two different modules are taken for one, and the functions of "
                      "the second never become overload candidates / never reach the program", rel, lp)
            if ci.name == "Linker":
                col.check(dropped is None, rule, f"{rel}::{ci.name}.{f.name} merges every module it loads", "every path that loads an import hands it to AddModule",
                          f"under {dropped} the loaded module is not merged into the program: its functions and globals are missing from the link result, and the imports it names "
                          "are never followed", rel, lp)
    col.floor(rule, "import loops", n, 2)


def check_exported_unique(model, col, rule):
    """Exported functions carry their raw name into the IR module, so two of them with one name would share one IR name and
    the later body would answer for both: the validator remembers every exported *name* it has seen (a set that only grows,
    keyed by GetName()) and rejects a name it sees again."""
    from ..sem import expand_helpers, local_env, rtext

    rel = "nsl/passes/ValidateExportedFunctions.py"
    v = next((c for c in model.classes.values() if c.file == rel and "v_Function" in c.methods), None)
    if v is None:
        raise AnchorMissing(f"{rel}: visitor with v_Function")
    h0 = v.methods["v_Function"]
    h = expand_helpers(model, v, h0)
    fp = h.args.args[1].arg
    selfn = h.args.args[0].arg
    env = local_env(h, allow_impure=True)
    # the remembered-names field: a set created in __init__
    init = v.own_method("__init__")
    sets = [n.targets[0].attr for n in ast.walk(init) if isinstance(n, ast.Assign) and isinstance(n.targets[0], ast.Attribute)
            and (isinstance(n.value, ast.Set) or (isinstance(n.value, ast.Call) and dotted(n.value.func) == "set"))] if init is not None else []
    col.check(len(sets) >= 1, rule, f"{rel}::{v.name} remembers exported names", f"set field(s) {sets} created per visitor", "no per-visitor set of seen exported names", rel, v.node)
    if not sets:
        return
    fld = sets[0]
    # the set only grows
    rebinds = []
    for m in v.methods.values():
        if m is init:
            continue
        for x in ast.walk(m):
            tg = x.targets if isinstance(x, ast.Assign) else [x.target] if isinstance(x, (ast.AugAssign, ast.AnnAssign)) else []
            if any(isinstance(t, ast.Attribute) and t.attr == fld for t in tg):
                rebinds.append(" ".join(unparse(x).split())[:60])
            if isinstance(x, ast.Call) and isinstance(x.func, ast.Attribute) and isinstance(x.func.value, ast.Attribute) and x.func.value.attr == fld \
                    and x.func.attr in ("clear", "discard", "remove", "pop", "difference_update", "intersection_update"):
                rebinds.append(unparse(x.func))
    col.check(not rebinds, rule, f"{rel}::{v.name}.{fld} only grows", "names are added, never dropped or re-bound",
              f"{rebinds}: names seen earlier are forgotten, so a second exported function of an earlier name is accepted when another export lies between them; "
              "both lower to the same IR name and the later body runs for calls bound to the first", rel, v.node)
    # path discipline (on the handler with its helpers read in place; if the test sits in a helper that cannot be read in
    # place - it has an early exit - on that helper itself, whose first parameter after self is the function node)
    if not any(isinstance(x, ast.Attribute) and x.attr == fld for x in ast.walk(h)):
        for m in v.methods.values():
            if m is not init and len(m.args.args) >= 2 and any(isinstance(x, ast.Attribute) and x.attr == fld for x in ast.walk(m)) \
                    and any(isinstance(c, ast.Call) and last_attr(c) == m.name.lstrip("_") or (isinstance(c, ast.Call) and last_attr(c) == m.name) for c in ast.walk(h0)):
                h, h0 = m, m
                fp, selfn = m.args.args[1].arg, m.args.args[0].arg
                env = local_env(m, allow_impure=True)
                break
    keys = set()
    problems = []
    npaths = 0
    for evs, status in paths(h.body):
        a = cond_atoms(evs, env)
        exported = next((val for k, val in a.items() if k.replace(" ", "") in (f"{fp}.isExported", f"{fp}.IsExported()", f"{fp}.GetType().exported")), None)
        if exported is not True:
            continue
        npaths += 1
        seen = next(((k, val) for k, val in a.items() if k.endswith(f" in {selfn}.{fld}")), None)
        if seen is None:
            problems.append("an exported function passes without being looked up among the names seen so far")
            continue
        key = seen[0][: -len(f" in {selfn}.{fld}")]
        keys.add(key)
        cs = calls_on_path(evs)
        if seen[1] is True:
            flagged = any(isinstance(e.node, ast.Assign) and isinstance(e.node.targets[0], ast.Attribute) and e.node.targets[0].attr == "valid" and isinstance(e.node.value, ast.Constant) and e.node.value.value is False
                          for e in evs if e.kind == "stmt")
            raised = any(last_attr(c) == "Raise" for c in cs) or status == "raise"
            if not (flagged and raised):
                problems.append("a repeated exported name is not rejected (verdict flag cleared and error raised)")
        else:
            adds = [c for c in cs if last_attr(c) == "add" and isinstance(c.func.value, ast.Attribute) and c.func.value.attr == fld and c.args and rtext(c.args[0], env) == key]
            if not adds:
                problems.append("a new exported name is not remembered")
    col.floor(rule, "paths of the exported-function validator for exported functions", npaths, 2)
    col.check(not problems, rule, f"{rel}::{v.name} rejects a repeated exported name", "seen -> verdict cleared and error raised; new -> remembered",
              (problems[0] if problems else "") + ": two exported functions of one name reach lowering, where they share the raw IR name", rel, h0)
    col.check(keys == {f"{fp}.GetName()"}, rule, f"{rel}::{v.name} compares raw names", f"exported functions are remembered by {fp}.GetName(), the name they are lowered under",
              f"exported functions are remembered by {sorted(keys)}: lowering gives every exported function its raw name, so two exported overloads with different signatures "
              "are accepted and collide in the IR module (the one declared last runs for every call)", rel, h0)
