"""C05 Accepted programs do not go wrong."""
from __future__ import annotations

import ast

from ..attrs import Predicates, global_attr_violations, narrowed_call_violations, private_attr_violations
from ..dispatch import Dispatch
from ..grammar import Grammar
from ..astcover import built_classes
from ..irmodel import IR
from ..model import AnalysisError, AnchorMissing, EnumRef, dotted, find_assign, last_attr, unparse
from ..paths import paths, calls_on_path, cond_atoms
from ..pipeline import Pipeline
from ..vmmodel import VMModel, VM
from . import c01, c02, c04, c13

TITLE = "fences between stages: attribute resolution, opcode/operation/handler/type coverage, cast kinds, validator gating"
LEVEL = "other"
LOWER = "nsl/passes/LowerToIR.py"
TYPES = "nsl/types.py"
CASTS = "nsl/passes/AddImplicitCasts.py"
ASTF = "nsl/ast/__init__.py"
EXPLANATION = (
    "'Never fails with an internal error' is not provable statically for untyped Python; it decomposes into fences: every "
    "later stage implements a subset and the earlier stage must not let more through. R05.1 attribute resolution: every "
    "`self.__x` read has a store in its own class; no attribute name is used that no repository class, module or builtin "
    "container defines; in the type functions every method called on a parameter narrowed by IsX()/isinstance exists on all "
    "classes it can still be; __RunPass only uses what Pass defines. R05.2 every opcode an instruction can carry (constructor "
    "defaults, SetStore flips, FromOperation table values for reachable operations, explicit opcodes in lowering) has a VM arm, "
    "and every catch-all arm raises. R05.4 every kind of cast target the cast pass can construct is a kind the VM's CAST arm "
    "executes. R05.5 every expression class the parser or a pass constructs has a lowering handler (EmptyExpression excepted: "
    "it is the absent `for` condition, an unconditional branch). R05.6 the type adapter and the default-instance creators cover "
    "every type class / kind a value can have. R05.8 validators really gate (= R13.5). R05.9 shared fences: kind coverage "
    "typing->lowering->VM (= R04.5), unaliased default instances (= R04.6), operand protocol (= R02.1), constant key (= R02.6)."
)
NOT_DECIDED = "absence of all internal errors on all inputs (index arithmetic, recursion depth, host values of the wrong Python type)"
ASSUMPTIONS = ["'accepted' = the front end (typing and validation passes) lets the program through"]

# attribute names used only in code that is never reached (listed by symbol with the reason)
DEAD_CODE = {
    ("nsl/ast/__init__.py", "ClassType"): "InterfaceDefinition is never constructed (the grammar has no interface production)",
    ("nsl/passes/ComputeTypes.py", "GetMemberAccess"): "_GetClassScopeForMemberAccess has no caller",
    ("nsl/passes/LowerToIR.py", "GetMemberAccess"): "v_MethodCallExpression: no MethodCallExpression class exists, the handler can never be dispatched",
}


def carried_opcodes(model):
    """OpCode members an instruction object can carry, with where they come from."""
    out = {}
    D = Dispatch(model)
    for ci in D.ir_instruction_classes(concrete_only=False):
        for m in ci.methods.values():
            for c in ast.walk(m):
                if isinstance(c, ast.Call) and (last_attr(c) in ("__init__", "_SetOpCode")):
                    for a in c.args:
                        for x in ast.walk(a):
                            d = dotted(x) if isinstance(x, ast.Attribute) else None
                            if d and d.startswith("OpCode."):
                                out.setdefault(d.split(".")[1], f"{ci.name}.{m.name}")
    lf = model.file(LOWER)
    for x in ast.walk(lf.tree):
        d = dotted(x) if isinstance(x, ast.Attribute) else None
        if d and ".OpCode." in "." + d:
            out.setdefault(d.split(".")[-1], "nsl/passes/LowerToIR.py")
    return out


def run(model, col, tier):
    vm = VMModel(model)
    D = Dispatch(model)
    G = Grammar(model)
    pipe = Pipeline(model)
    # ---------------- R05.1 ------------------------------------------------------
    pv = private_attr_violations(model)
    for c, attr, node, m in pv:
        col.bad("R05.1", f"{c.file}::{c.qualname}.{m.name} reads self.{attr}", f"`self.{attr}` is read in {c.name}.{m.name} but {c.name} never assigns it (name mangling makes it private to the class that writes it): AttributeError when this code runs", c.file, node)
    nread = sum(1 for c in model.classes.values() for m in c.methods.values() for n in ast.walk(m)
                if isinstance(n, ast.Attribute) and isinstance(n.ctx, ast.Load) and n.attr.startswith("__") and not n.attr.endswith("__"))
    col.floor("R05.1", "private attribute reads", nread, 150)
    if not pv:
        col.ok("R05.1", "private attributes resolve", f"{nread} reads of self.__x all have a store in the same class")
    gv, nchecked = global_attr_violations(model, files={r for r in model.files if r.startswith("nsl/")})
    col.floor("R05.1", "attribute uses", nchecked, 1500)
    nbad = 0
    for rel, attr, node, why in gv:
        if (rel, attr) in DEAD_CODE:
            col.ok("R05.1", f"{rel}::{attr} (dead code)", DEAD_CODE[(rel, attr)])
            continue
        nbad += 1
        col.bad("R05.1", f"{rel}:: attribute {attr}", f"`{unparse(node)[:60]}`: {why}: AttributeError if this is reached", rel, node)
    if not nbad:
        col.ok("R05.1", "attribute names resolve", f"{nchecked} attribute uses name something a repository class, module or builtin container defines")
    preds = Predicates(model, TYPES, "Type")
    total = 0
    for fname in ("IsCompatible", "Match", "ResolveType", "_GetRowsColumns", "_GetCommonPrimitiveType", "ResolveBinaryExpressionType"):
        f = model.func(TYPES, fname)
        params = [a.arg for a in f.args.args]
        viol, checked = narrowed_call_violations(model, TYPES, f, preds, params)
        total += checked
        for n, p, attr, missing, s in viol:
            col.bad("R05.1", f"{TYPES}::{fname} calls {p}.{attr}", f"`{p}.{attr}` is evaluated where `{p}` can be {s}; {missing} define(s) no `{attr}`", TYPES, n)
        if not viol:
            col.ok("R05.1", f"{TYPES}::{fname} attribute resolution", f"{checked} attribute uses on narrowed parameters resolve")
    pipe.check_runpass_wellformed(col, "R05.1")
    # ---------------- R05.2 ------------------------------------------------------
    carried = carried_opcodes(model)
    maps, fo, _ = c01.scalar_mapping(model)
    reachable_ops = {m for m, _p, _k in [(v[0], v[1], v[2]) for v in __import__("nslsa.oracles", fromlist=["x"]).BINARY_OPERATORS.values()]}
    for kind, table in maps.items():
        for opn, opc in table.items():
            if opn in reachable_ops:
                carried.setdefault(opc, f"FromOperation {kind} mapping[{opn}]")
    col.note("opcodes instructions can carry", sorted(carried))
    col.floor("R05.2", "opcodes instructions can carry", len(carried), 35)
    for opc, where in sorted(carried.items()):
        if opc in ("INVALID",):
            continue
        col.check(opc in vm.arms, "R05.2", f"{VM}::__Execute arm for OpCode.{opc}", f"handled (source: {where})",
                  f"an instruction can carry OpCode.{opc} ({where}) but the interpreter has no arm for it: 'Unhandled opcode' at run time", VM, vm.main_match)
    for ca in vm.catchalls:
        raises = any(isinstance(x, ast.Raise) or (isinstance(x, ast.Call) and last_attr(x) == "Raise") for st in ca.body for x in ast.walk(st))
        col.check(raises, "R05.2", f"{VM}::__Execute catch-all arm" + (" (binary family)" if ca.outer else ""), "an unknown opcode raises", "an unknown opcode falls through silently", VM, ca.case)
    col.floor("R05.2", "catch-all arms", len(vm.catchalls), 2)
    # ---------------- R05.4 ------------------------------------------------------
    cast = vm.arm("CAST")
    s = " ".join(unparse(ast.Module(body=cast.body, type_ignores=[])).split())
    accepts = {"S"}
    if "IsVector()" in s and "ElementType" in s:
        accepts.add("V")
    if "IsMatrix()" in s and "ElementType" in s:
        accepts.add("M")
    gt = model.cls(CASTS, "AddImplicitCastVisitor").own_method("_GetTargetType")
    builds = {"S"}
    t = unparse(gt)
    if "WithComponentType" in t and "IsVector()" in t:
        builds.add("V")
    if "WithComponentType" in t and "IsMatrix()" in t:
        builds.add("M")
    vb = model.cls(CASTS, "AddImplicitCastVisitor").own_method("v_BinaryExpression")
    if "GetOperandType(" in unparse(vb):
        builds |= {"V", "M"}  # operand types of vector/matrix operators are vector/matrix types
    col.check(builds <= accepts, "R05.4", f"{VM}::__Execute CAST arm accepts every cast the cast pass builds",
              f"cast targets built: {sorted(builds)}; executed: {sorted(accepts)}",
              f"the cast pass builds casts to kinds {sorted(builds)} but the CAST arm only executes {sorted(accepts)} (it asserts a scalar target): "
              "`int2 + float2` compiles and then fails with an AssertionError", VM, cast.case)
    cei = model.cls(ASTF, "CastExpression").own_method("__init__")
    col.check(f"assert isinstance({cei.args.args[2].arg}, types.PrimitiveType)" in unparse(cei), "R05.4", f"{ASTF}::CastExpression target is primitive", "a cast target is a primitive type", None, ASTF, cei)
    # the cast pass reaches every expression: an unconverted float that ends up as an index / an int parameter fails in the VM
    from ..astcover import check_handler_coverage

    check_handler_coverage(model, D, col, "R05.4", model.cls("nsl/passes/AddImplicitCasts.py", "AddImplicitCastVisitor"), "nsl/passes/AddImplicitCasts.py",
                           "expressions below it never get their implicit conversions - `a[g(1.5)]` is accepted and indexes a list with 1.5 (TypeError in the VM)")
    # ---------------- R05.5 ------------------------------------------------------
    lv = model.cls(LOWER, "LowerToIRVisitor")
    built = set(built_classes(model, G, D))
    # classes constructed by passes
    for rel, fi in model.files.items():
        if rel.startswith("nsl/passes/"):
            for c in ast.walk(fi.tree):
                if isinstance(c, ast.Call):
                    ci = model.resolve_class_expr(rel, c.func)
                    if ci is not None and ci.file == ASTF and D.ast_node in ci.mro:
                        built.add(ci.name)
    expr_base = model.cls(ASTF, "Expression")
    nexpr = 0
    for name in sorted(built):
        ci = model.cls(ASTF, name)
        kind, owner, h, base = D.resolve(lv, ci)
        if expr_base in ci.mro:
            nexpr += 1
            if name == "EmptyExpression":
                col.check(kind == "default", "R05.5", f"{LOWER}::handler for EmptyExpression", "absent `for` condition: no value, the loop branch is unconditional", None, LOWER, lv.node)
                continue
            col.check(kind == "explicit", "R05.5", f"{LOWER}::handler for {name}", f"lowered by {h.name}" if kind == "explicit" else "",
                      f"{name} can be constructed but LowerToIRVisitor has no handler for it: as an operand it evaluates to None and the consuming instruction is built with a None operand", LOWER, lv.node)
        else:
            ok_ = kind == "explicit" or D.default_traverses(lv)
            col.check(ok_, "R05.5", f"{LOWER}::handler for {name}", "explicit handler or default traversal into its children", f"{name} is neither handled nor traversed", LOWER, lv.node)
    col.floor("R05.5", "constructed expression classes", nexpr, 11)
    # ---------------- R05.6 ------------------------------------------------------
    clt = model.func(LOWER, "_CreateLinearIRType")
    cases = set()
    for n in ast.walk(clt):
        if isinstance(n, ast.match_case) and isinstance(n.pattern, ast.MatchClass):
            cases.add(dotted(n.pattern.cls).split(".")[-1])
    for c in preds.concrete:
        if c.name in ("UnresolvedType",):
            continue
        col.check(c.name in cases, "R05.6", f"{LOWER}::_CreateLinearIRType case {c.name}", "adapted", f"types.{c.name} can be a value's type but _CreateLinearIRType has no case for it ('Unhandled type')", LOWER, clt)
    last = clt.body[-1]
    col.check(isinstance(last, ast.Raise), "R05.6", f"{LOWER}::_CreateLinearIRType unknown types raise", "falls to a raise", "an unknown type falls off the end (None type)", LOWER, clt)
    cpi = vm.ec.own_method("__CreatePrimitiveInstance")
    kinds = {dotted(n.pattern.value).split(".")[-1] for n in ast.walk(cpi) if isinstance(n, ast.match_case) and isinstance(n.pattern, ast.MatchValue)}
    col.check({"Vector", "Matrix", "Scalar"} <= kinds and isinstance(cpi.body[-1], ast.Raise), "R05.6", f"{VM}::__CreatePrimitiveInstance kinds", "vector, matrix, scalar; anything else raises",
              f"default instances exist for {sorted(kinds)} only", VM, cpi)
    ci_ = vm.ec.own_method("__CreateInstance")
    t = unparse(ci_)
    col.check("IsPrimitive()" in t and "IsStructure()" in t and "IsArray()" in t, "R05.6", f"{VM}::__CreateInstance kinds", "primitive, structure and array variables get a default instance", "a declarable kind has no default instance", VM, ci_)
    # ---------------- R05.8 ------------------------------------------------------
    from ..report import Collector

    sub = Collector("C13")
    c13.run(model, sub, "quick")
    for ob in sub.obligations:
        # the validation passes are the fence in front of lowering: their discipline (R13.5) and everything they must reject
        ob.rule = "R05.8"
        col.obligations.append(ob)
    # ---------------- R05.9 ------------------------------------------------------
    sub = Collector("C04")
    c04.run(model, sub, "quick")
    for ob in sub.obligations:
        if ob.rule in ("R04.5", "R04.6", "R04.8") or (ob.rule == "R04.2" and "marks what it types as a swizzle" in ob.construct):
            ob.rule = "R05.9"
            col.obligations.append(ob)
    sub = Collector("C02")
    c02.run(model, sub, "quick")
    for ob in sub.obligations:
        if ob.rule in ("R02.1", "R02.2", "R02.3", "R02.4", "R02.5", "R02.6", "R02.8", "R02.9"):
            ob.rule = "R05.9"
            col.obligations.append(ob)
    # the name and flow validators are fences too: a name that leaks out of its scope / a parameter that shares a global's name /
    # a break outside a loop is accepted by typing and then fails in lowering or in the VM (KeyError, IndexError, TypeError)
    from . import c11, c12

    # (R12.4: every declaration creates its variable before the initialiser / the first use reads it - otherwise a load of an
    # undefined local; R11.5/R11.6: break / continue lists belong to one loop, every statement reaches the validators)
    for mod_, pid_, rules_ in ((c12, "C12", ("R12.1", "R12.2", "R12.3", "R12.4", "R12.5")), (c11, "C11", ("R11.1", "R11.2", "R11.3", "R11.4", "R11.5", "R11.6"))):
        sub = Collector(pid_)
        mod_.run(model, sub, "quick")
        for ob in sub.obligations:
            if ob.rule in rules_:
                ob.detail = f"[{ob.rule}] " + (ob.detail or "")
                ob.rule = "R05.9"
                col.obligations.append(ob)
    from . import c10

    c10.check_compat_guards(model, col, "R05.9")
    c10.check_exported_unique(model, col, "R05.8")
    # a call is accepted only after its arguments were matched against the candidate that will run (= R10.1 / R10.2: every
    # path of FindFunction scores the arguments) - an unmatched call reaches the callee with operands of other types
    sub = Collector("C10")
    c10.run(model, sub, "quick")
    for ob in sub.obligations:
        if ob.rule in ("R10.1", "R10.2"):
            ob.detail = f"[{ob.rule}] " + (ob.detail or "")
            ob.rule = "R05.8"
            col.obligations.append(ob)
    # what a compilation produces depends on its own source only (= R18.2: nothing mutable at module / class level is written
    # while compiling): a table that survives into the next compilation hands it types and names of another program
    from . import c18

    sub = Collector("C18")
    c18.run(model, sub, "quick")
    for ob in sub.obligations:
        if ob.rule == "R18.2":
            ob.detail = f"[{ob.rule}] " + (ob.detail or "")
            ob.rule = "R05.9"
            col.obligations.append(ob)
    from . import c09 as _c09

    _c09.check_builtin_names(model, col, "R05.9")
